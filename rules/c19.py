"""C19 — an endpoint is registered, served and documented exactly as declared.
Also hosts C19.R7 (= DESIGN C05.R7: macro version-range syntax -> range kind)."""
import re

from . import lib_c19 as Q
from .engine import comparison_of, normalise_le
from .core import AnchorLost as core_AnchorLost
from .lib import PLUMBING, callee_allow, callers, root_fn

LEVEL = "other"
TECHNIQUE = ("static analysis: symbolic evaluation of the proc-macro's quote! emission (token template with every interpolation hole labelled by its origin), "
             "field-coverage and sibling-agreement checks over MIR aggregates in both crates")
LEVEL_TEXT = ("Decides, for every declaration at once (the analysis is of the generator, not of sampled expansions): (R1) `ApiEndpoint::new`/`new_for_types` are emitted by one function only, and the "
              "function form, channel form and both trait forms call it with name, doc comment and attribute taken from the same item; its result is what is emitted/registered; the trait factory passes its "
              "real/stub kind unchanged to every item; (R2a) every attribute argument of EndpointMetadata/ChannelMetadata reaches the same-named field of the validated metadata; (R2b) the emitted constructor "
              "call passes, for each parameter of dropshot's ApiEndpoint::new/new_for_types (identified by the ApiEndpoint field it becomes), the matching metadata field (operation id defaulting to the "
              "function name, Method::<as_str(method)>, content type, path, versions), identically in the real and stub arms, and appends .summary/.description/.tag*/.visible(false)/.deprecated(true)/"
              ".request_body_max_bytes(expr) exactly under the matching field's condition and nothing else; (R3) each builder method stores its argument in the same-named field and returns self; (R4) new and "
              "new_for_types build every field but `handler` from the same sources with the declared defaults; (R5) the macro's MIME strings and methods are accepted by from_mime_type / gen_openapi's slot "
              "table; (R6) gen_openapi copies summary/description/tags/deprecated/operation_id from the same-named endpoint fields, on the visible edge only, into the slot chosen by that endpoint's method; "
              "(R7) `..`/`a..`/`..b`/`a..b` parse to All/From/Until/FromUntil with operands in source order, literal pairs are refused iff until < earliest, and each kind emits the matching "
              "ApiEndpointVersions constructor with bounds in (earliest, until) order; (R8) summary and description are cut from one stream of the item's doc lines and no accumulation step (fold closure, loop body reassigning the accumulator, "
              "or loop body appending to it in place) drops text. "
              "The rules read data flow and branch conditions, not statement shapes: helpers split off a decided function are inlined first; R1's callers and R2a's validate are read on the normalised view "
              "(Option/Result combinators = their defining match, closure bodies spliced into the caller); iterator chain / for loop, Option::map / if let / `?`, "
              "bool::then / if-else, unwrap_or / map_or / match, early return / if-else, to_string / to_owned / String::from, and six interpolations / one repetition over their chain are decided alike; "
              "parse_semver and <VersionRange as Parse>::parse (R7) and both enum<->string pairs of R5 (the macro's as_static_str / from_str, dropshot's mime_type / from_mime_type) are decided by abstract "
              "interpretation over every outcome of their stubbed leaves (the range parser: a concrete token cursor over every input of the range language, two literals in every weak order), whatever their "
              "control structure: match, if-chain, find / find_map over an array, a constant table of rows indexed by discriminant or searched, a table of predicate fn pointers, one function or several, "
              "a tuple pattern or zip().filter() for the both-literals test. R6 finds the operation by its role (the value stored into the method slot) and reads its fields off default() + assignments / "
              "clone_from or off one struct literal with ..Default::default(); R7 reads from_until's parameter roles off the value it returns (pair built in its body or in a bool::then / map closure). "
              "Residue: the per-line string surgery of ExtractedDoc::from_attrs / normalize_comment_string (trimming, `*` prefixes, paragraph breaks), agreement of the trait stub's extractor-type list with "
              "the real handler's argument types, serde's derive mapping attribute names to EndpointMetadata fields, rustc's own type-checking of the emitted tokens, routing by method/path/versions "
              "(C01/C02/C05) and the body limit's enforcement (C11).")
LEVEL_NOTE = ("Trusted base: rustc MIR construction, the extractor, the engine's inlining of unlisted helpers, rules/lib_c19.py (quote! template evaluator, ~1100 lines), semantics of quote's push_*/ToTokens, "
              "the evaluator's summaries of Option::map/map_or, bool::then, Iterator::map, Iterator::chain under a repetition, `?` on Option/Result, of a vector filled by one push per iteration of a `for` loop (= map+collect) "
              "and of a String only appended to after its initialisation; rules/absint.py, lib_c07.StrInterp / ITER_SUMMARIES and lib_c19.table_interp (evaluated constant tables as concrete values, indexing, bounds checks as branches, calls through fn pointers "
              "of a table, discriminant = declaration index of a field-less enum) — the interpreter used for parse_semver, <VersionRange as Parse>::parse, as_static_str / from_str and mime_type / from_mime_type; "
              "decide_version_range_parse's model of syn's ParseBuffer / Lookahead1 (peek, parse::<Token![..]>, parse::<VersionSpecifier> yielding Literal for a string literal and Identifier for an identifier, "
              "is_empty, as a cursor over a token list); when a function leaves the interpretable fragment the rule falls back to path facts / match arms and says so in the notes; the engine's combinator desugaring (normalised view); "
              "format_ident!'s template is checked only for absence of literal text.")
EXPLANATION = ("TABLE/SIBLINGS-AGREE/WHO-CALLS rules over symbolic token templates recovered from the MIR of dropshot_endpoint (each instance = one emitted call argument, builder call, struct field, "
               "caller argument or table row) plus CHAIN/SHAPE rules over ApiEndpoint's constructors, builder methods and gen_openapi in dropshot.")
TRUSTED = ["rustc nightly MIR + const evaluation", "mirfacts extractor", "rules/lib_c19.py quote! template evaluator", "quote/proc_macro2 token push semantics",
           "rules/absint.py interpreter + std Option/Result/Iterator::find summaries + lib_c19.table_interp (constant tables) + the token-cursor model of syn::parse::ParseBuffer", "engine normalised view (combinator desugaring, helper inlining)",
           "serde derive for EndpointMetadata/ChannelMetadata (attribute name = field name)", "rustc type-checks the emitted call against ApiEndpoint's signatures"]

PRODUCER = r"^metadata::ValidatedEndpointMetadata::to_api_endpoint_fn$"
CH_PRODUCER = r"^metadata::ValidatedChannelMetadata::to_api_endpoint_fn$"
VMETA = "metadata::ValidatedEndpointMetadata"
# value-preserving plumbing allowed between a metadata field and the hole that interpolates it
PLUMB = [r"ops::Deref::deref$", r"convert::AsRef::as_ref$", r"Option::<T>::as_ref$", r"Option::<T>::as_deref$", r"clone::Clone::clone$", r"borrow::Borrow::borrow$",
         r"String::as_str$", r"slice::<impl \[T\]>::iter$", r"iter::IntoIterator::into_iter$", r"iter::Iterator::collect$", r"RepAsIteratorExt::quote_into_iter$",
         r"RepIteratorExt::quote_into_iter$", r"iter::Iterator::next$", r"convert::Into::into$", r"convert::From::from$", r"Option::<&T>::(cloned|copied)$"]
OPT_PLUMB = re.compile(r"Option::<T>::(as_ref|as_deref)$|Option::<&T>::(cloned|copied)$")   # looked through (besides lib_c19.ITER_PLUMB) when naming the field a value is a copy of
STR_CONV = [r"string::ToString::to_string$", r"borrow::ToOwned::to_owned$"]   # &str -> String (From/Into are in PLUMB)
FMT = [r"^core::fmt::", r"^std::fmt::", r"fmt::rt::Argument", r"fmt::Arguments", r"^std::hint::must_use$", r"quote::__private::mk_ident$", r"IdentFragmentAdapter", r"Option::<T>::or$"]


def cap(s, n=260):
    s = str(s)
    return s if len(s) <= n else s[:n] + "…"


def _q(ctx, which="ep", inline=True):
    key = "c19q:%s:%s" % (which, inline)
    if key not in ctx.extra:
        ctx.extra[key] = Q.QuoteEval({"ep": ctx.ep, "epn": ctx.epn, "ds": ctx.ds, "dsn": ctx.dsn}[which], inline_depth=4 if inline else 0)
    return ctx.extra[key]


def _field_names(facts, adt, variant=None):
    fs = facts.adt_fields(adt, variant)
    return [f["name"] for f in fs] if fs is not None else None


def _only(term, allow):
    return Q.callees_outside(term, allow)


def _leafname(p):
    return p[2] or "%s%d" % (p[0], p[1])


def _roles(ctx, R, f, meta_ty):
    """Parameters of a to_api_endpoint_fn by *type* (robust to renaming / reordering):
    {"self","dropshot","name","kind","doc"} -> ("param", i, debug name)."""
    key = "c19:roles:" + f.id
    if key in ctx.extra:
        return ctx.extra[key]
    out = {}
    for i in range(1, f.argc + 1):
        ty = f.local_ty(i)
        role = None
        if meta_ty in ty:
            role = "self"
        elif "TokenStream" in ty:
            role = "dropshot"
        elif "ApiEndpointKind" in ty:
            role = "kind"
        elif "ExtractedDoc" in ty:
            role = "doc"
        elif re.search(r"\bstr$", ty):
            role = "name"
        if role is None or role in out:
            ctx.lost(R, "parameter roles of %s (parameter %d: %s)" % (f.id, i, ty))
            raise core_AnchorLost(f.id)
        out[role] = ("param", i, f.local_name(i))
    if set(out) != {"self", "dropshot", "name", "kind", "doc"}:
        ctx.lost(R, "parameter roles of %s: %s" % (f.id, sorted(out)))
        raise core_AnchorLost(f.id)
    ctx.extra[key] = out
    return out


def _self_leaves(term, selfname="self"):
    return set(l for l in Q.leaves(term) if l == selfname or l.startswith(selfname + "."))


# =========================================================================== R1
def _ctor_paths(toks):
    """(kind, name) for every `ApiEndpoint :: <ident>` / `ApiEndpoint { .. }` in a template."""
    out = []
    for seq in Q.sequences(toks):
        for i, t in enumerate(seq):
            named = t == ("id", "ApiEndpoint") or (t[0] == "hole" and "ApiEndpoint" in Q.lits(t[1]))
            if named and i + 1 < len(seq):
                n = seq[i + 1]
                if n == ("p", "::") and i + 2 < len(seq):
                    m = seq[i + 2]
                    out.append(("path", m[1] if m[0] == "id" else Q.tsig(m)))
                elif n[0] == "grp" and n[1] == "{":
                    out.append(("struct-literal", "{}"))
    return out


def _str_lits(fn):
    out = set()

    def w(o):
        if isinstance(o, dict):
            if o.get("k") == "const" and isinstance(o.get("val"), dict) and "str" in o["val"]:
                out.add(o["val"]["str"])
            for v in o.values():
                w(v)
        elif isinstance(o, list):
            for v in o:
                w(v)
    w(fn.blocks)
    return out


def _role_args(ctx, R, q, f, t):
    """Arguments of a call to one of the two to_api_endpoint_fn, keyed by the callee's parameter roles."""
    callee = ctx.epn.one("^" + re.escape(t.get("callee") or "?") + "$")
    roles = _roles(ctx, R, callee, "ValidatedChannelMetadata" if re.search(CH_PRODUCER, callee.id) else "ValidatedEndpointMetadata")
    fr = Q.Frame(f)
    return {r: q.ev_op(fr, t["args"][p[1] - 1]) for r, p in roles.items()}


def _is_forwarder(ctx, R, q, f, t):
    """f is itself a to_api_endpoint_fn that hands its own dropshot/name/kind/doc parameters on."""
    a = _role_args(ctx, R, q, f, t)
    if not re.search(r"::to_api_endpoint_fn$", f.id):
        return False, a
    own = _roles(ctx, R, f, "ValidatedChannelMetadata" if re.search(CH_PRODUCER, f.id) else "ValidatedEndpointMetadata")
    rest_ok = all(a[r] == own[r] for r in ("dropshot", "name", "kind", "doc"))
    p0 = Q.path_of(a["self"])
    return rest_ok and p0 is not None and (p0[0], p0[1]) == ("param", own["self"][1]) and len(p0[3]) == 1, a


def _unwrap_opt(t):
    """Payload of an Option value: `if let Some(x)`, `.unwrap()`, `.expect(..)`."""
    if t[0] == "some":
        return t[1]
    if t[0] == "call" and re.search(r"Option::<T>::(unwrap|expect|unwrap_unchecked)$", t[1]) and t[2]:
        return t[2][0]
    return None


NAME_OPS = PLUMB + FMT + [r"string::ToString::to_string$", r"alloc::fmt::format$"]


def r1_one_producer(ctx):
    R = ctx.rule("C19.R1", "ApiEndpoint::new / ::new_for_types are emitted only by ValidatedEndpointMetadata::to_api_endpoint_fn; the function form, the channel form and both trait forms "
                 "call it with endpoint_name = <item>.sig.ident.to_string(), doc = ExtractedDoc::from_attrs(&<item>.attrs) and metadata validated against that same name/attribute; its result is what "
                 "gets registered; the trait factory hands its real/stub kind unchanged to every item", floor=38)
    # normalised view: a producer call written inside `opt.map_or_else(.., |m| m.to_api_endpoint_fn(..))` / `opt.map(..)` is a call of
    # the enclosing function on the Some edge, as with `if let Some(m) = opt` / `match opt`
    ep = ctx.epn
    prod = ctx.need_fn(ep, R, PRODUCER)
    chprod = ctx.need_fn(ep, R, CH_PRODUCER)
    q0 = _q(ctx, "epn", inline=False)
    # ---- (a) who emits a constructor path of ApiEndpoint
    found = {}
    for f in ep.F.values():
        lits = _str_lits(f)
        if any("ApiEndpoint::" in s or "ApiEndpoint {" in s for s in lits):
            ctx.check(R, "textual-constructor:%s" % f.id, False, "string literal spells an ApiEndpoint constructor (would bypass the producer): %s" % cap([s for s in lits if "ApiEndpoint" in s]), f)
        if "ApiEndpoint" not in lits:
            continue
        fr = Q.Frame(f)
        for bb, t in f.live_calls(r"^proc_macro2::TokenStream::new$"):
            if t["dest"]["p"]:
                continue
            ts = q0.ev_local(fr, t["dest"]["l"])
            if ts[0] != "ts":
                continue
            for kind, name in _ctor_paths(Q.expand(ts[1])):
                found.setdefault((root_fn(ep, f).id, kind, name), f)
    for (fid, kind, name), f in sorted(found.items()):
        ok = fid == prod.id and kind == "path" and name in ("new", "new_for_types")
        ctx.check(R, "emits ApiEndpoint::%s in %s" % (name, fid), ok, "constructor %s `%s` emitted by %s (the one producer is %s)" % (kind, name, fid, prod.id), f)
    have = set(n for (fid, k, n) in found if fid == prod.id)
    ctx.check(R, "producer-emits-both-constructors", {"new", "new_for_types"} <= have, "constructor paths emitted by the producer: %s" % sorted(have), prod)

    # ---- (b) callers
    leaf = []
    for f, bb, t in callers(ep, PRODUCER) + callers(ep, CH_PRODUCER):
        fwd, args = _is_forwarder(ctx, R, q0, f, t)
        if fwd:
            inner = Q.path_of(args["self"])[3]
            vfields = ep.adt_fields("metadata::ValidatedChannelMetadata") or []
            ok = f is chprod and [x["name"] for x in vfields] == list(inner) and VMETA in vfields[0]["ty"]
            ctx.check(R, "forwarder:%s" % f.id, ok, "passes dropshot/endpoint_name/kind/doc through unchanged with metadata = self.%s; ValidatedChannelMetadata fields: %s"
                      % (".".join(inner), [x["name"] for x in vfields]), (f, bb))
        else:
            leaf.append((f, bb, t, args))
    ctx.check(R, "four-declaration-forms", len(leaf) == 4 and len(set(f.id for f, _, _, _ in leaf)) == 4,
              "callers of the producer (besides the channel forwarder): %s" % sorted(f.id for f, _, _, _ in leaf), prod)
    forms = set()
    for f, bb, t, args in leaf:
        is_ch = bool(re.search(CH_PRODUCER, t.get("callee") or ""))
        key = "caller:%s" % f.id
        meta, name, kind, doc = args["self"], args["name"], args["kind"], args["doc"]
        # the name is the text of the item's identifier (to_string / format only)
        item = None
        nl = [x for x in Q.walk(name, guards=False) if Q.path_of(x) is not None and Q.path_of(x)[3][-2:] == ("sig", "ident")]
        if len(Q.leaves(name)) == 1 and nl and not _only(name, NAME_OPS) and any(re.search(r"to_string$|fmt::format$", c) for c in Q.callees(name)):
            p = Q.path_of(nl[0])
            item = (p[0], p[1], p[3][:-2])
        ctx.check(R, key + ":name-is-item-ident", item is not None, "endpoint_name = %s" % cap(Q.show(name)), (f, bb))
        dl = [x for x in Q.walk(doc, guards=False) if Q.path_of(x) is not None and Q.path_of(x)[3][-1:] == ("attrs",)]
        dp = Q.path_of(dl[0]) if len(Q.leaves(doc)) == 1 and dl else None
        dok = dp is not None and not _only(doc, PLUMB + [r"^doc::ExtractedDoc::from_attrs$"]) and any(re.search(r"^doc::ExtractedDoc::from_attrs$", c) for c in Q.callees(doc))
        ctx.check(R, key + ":doc-from-same-item", item is not None and dok and (dp[0], dp[1], dp[3]) == (item[0], item[1], item[2] + ("attrs",)),
                  "doc = %s ; name = %s" % (cap(Q.show(doc)), cap(Q.show(name))), (f, bb))
        # metadata
        mp = Q.path_of(meta)
        vre = r"metadata::ChannelMetadata::validate$" if is_ch else r"metadata::EndpointMetadata::validate$"
        inner = _unwrap_opt(meta)
        inner = Q.strip_plumb(inner, OPT_PLUMB) if inner is not None else None    # `if let Some(m) = metadata` / `metadata.as_ref().map(|m| ..)`
        if inner is not None and inner[0] == "call" and re.search(vre, inner[1]):
            forms.add(("function", is_ch))
            v = inner
            ok = len(v[2]) >= 4 and Q.nosite(v[2][1]) == Q.nosite(name) and Q.path_of(v[2][0]) is not None and Q.path_of(v[2][0])[0] == "param" \
                and v[2][3][0] == "agg" and v[2][3][2] == "Function"
            ctx.check(R, key + ":metadata-validated-for-this-item", ok, "metadata = %s" % cap(Q.show(meta)), (f, bb))
            ok2 = kind[0] == "agg" and kind[2] == "Regular"
            ctx.check(R, key + ":function-form-is-Regular", ok2, "kind = %s" % cap(Q.show(kind)), (f, bb))
        elif mp is not None and mp[0] == "param" and mp[1] == 1 and mp[3] == ("metadata",) and item is not None and item[:2] == ("param", 1):
            forms.add(("trait", is_ch))
            _trait_item_wiring(ctx, R, key, f, bb, item, is_ch)
            ctx.check(R, key + ":kind-is-callers", kind[0] == "param", "kind = %s" % cap(Q.show(kind)), (f, bb))
        else:
            ctx.check(R, key + ":metadata-validated-for-this-item", False, "unrecognised metadata origin: %s" % cap(Q.show(meta)), (f, bb))
        # the producer's result is what the caller emits / registers
        ret = q0.ev_local(Q.Frame(f), 0)
        site = [x for x in Q.walk(ret) if x[0] == "call" and len(x) == 5 and x[4] == bb and re.search(r"to_api_endpoint_fn$", x[1])]
        ctx.check(R, key + ":result-is-emitted", bool(site), "the caller's returned token stream interpolates the producer's result: %s" % bool(site), (f, bb))
        if ret[0] == "ts":
            _registered(ctx, R, key, f, bb, ret)
    ctx.check(R, "forms-covered", forms == {("function", False), ("function", True), ("trait", False), ("trait", True)},
              "declaration forms found: %s" % sorted(("%s-%s" % (a, "channel" if c else "endpoint")) for a, c in forms), prod)
    _factory_kind(ctx, R, q0)


def _registered(ctx, R, key, f, bb, ret):
    """trait form: `{ let N = <producer result>; if let Err(error) = dropshot_api.register(N) {..} }`"""
    toks = Q.expand(ret[1])
    ok = False
    detail = "no `let <n> = <producer result>; … dropshot_api.register(<n>)` found"
    for seq in Q.sequences(toks):
        s = Q.sig(seq)
        if s[:2] == ["let", "<>"] and "=" in s and "register" in s:
            n = seq[1]
            i = s.index("=")
            val = seq[i + 1]
            j = s.index("register")
            arg = seq[j + 1] if j + 1 < len(seq) else None
            is_call = val[0] == "hole" and any(x[0] == "call" and re.search(r"to_api_endpoint_fn$", x[1]) for x in Q.walk(val[1]))
            same = arg is not None and arg[0] == "grp" and len(arg[2]) == 1 and arg[2][0][0] == "hole" and arg[2][0][1] == n[1]
            recv = j >= 2 and s[j - 2:j] == ["dropshot_api", "."]
            ok = is_call and same and recv
            detail = "let ⟨n⟩ = producer result: %s; dropshot_api.register(⟨same n⟩): %s" % (is_call, same and recv)
            break
    ctx.check(R, key + ":result-is-registered", ok, detail, (f, bb))


def _trait_item_wiring(ctx, R, key, f, bb, item, is_ch):
    """self.metadata was validated from the attribute and the name of the same trait item self.f."""
    ep = ctx.epn
    q0 = _q(ctx, "epn", inline=False)
    m = re.search(r"(api_trait::\w+)", f.local_ty(1))
    adt = m.group(1) if m else None
    sites = []
    if adt:
        for g in ep.F.values():
            for b, i, st in g.aggregates("^%s$" % re.escape(adt)):
                sites.append((g, b, st))
    if len(sites) != 1:
        ctx.check(R, key + ":item-struct-built-once", False, "aggregate sites of %s: %d" % (adt, len(sites)), (f, bb))
        return
    g, b, st = sites[0]
    fr = Q.Frame(g)
    vals = {n: q0.ev_op(fr, o) for n, o in zip(st["rv"]["fields"], st["rv"]["ops"])}
    itemfield = item[2][0] if item[2] else None
    fterm = vals.get(itemfield)
    md = vals.get("metadata")
    pre = r"api_trait::parse_channel_metadata$" if is_ch else r"api_trait::parse_endpoint_metadata$"
    ok = False
    detail = "metadata = %s" % cap(Q.show(md) if md else None)
    pcall = None
    if fterm is not None and fterm[0] == "param" and md is not None and md[0] == "some" and md[1][0] == "call" and re.search(pre, md[1][1]):
        pcall = md[1]
        nm = Q.strip_plumb(pcall[2][0])
        p = Q.path_of(Q.strip_plumb(nm[2][0])) if nm[0] == "call" and re.search(r"ToString::to_string$", nm[1]) and nm[2] else None
        same_attr = "attr" in vals and Q.nosite(pcall[2][1]) == Q.nosite(vals["attr"])
        ok = p is not None and (p[0], p[1]) == ("param", fterm[1]) and p[3] == ("sig", "ident") and same_attr
        detail = "%s{%s: %s, attr: %s, metadata: %s}" % (adt, itemfield, Q.show(fterm), Q.show(vals.get("attr", ("unknown", "-"))), cap(Q.show(md)))
    ctx.check(R, key + ":metadata-parsed-from-same-item", ok, detail, (g, b))
    if pcall is None:
        return
    pf = ep.one("^" + re.escape(pcall[1]) + "$")
    if pf is None:
        ctx.lost(R, "function %s" % pcall[1])
        return
    vre = r"metadata::ChannelMetadata::validate$" if is_ch else r"metadata::EndpointMetadata::validate$"
    vc = pf.live_calls(vre)
    okv = False
    detail = "validate calls in %s: %d" % (pf.id, len(vc))
    if len(vc) == 1:
        frp = Q.Frame(pf)
        a = [q0.ev_op(frp, x) for x in vc[0][1]["args"]]
        src_ok = any(x[0] == "call" and re.search(r"from_tokenstream", x[1]) for x in Q.walk(a[0])) and \
            any(l.startswith(str(pf.local_name(2)) + ".meta") for l in Q.leaves(a[0])) and not _only(a[0], PLUMB + [r"from_tokenstream", r"MacroDelimiter::span$", r"Spanned::span$", r"ops::Try::branch$"])
        okv = src_ok and a[1] == ("param", 1, pf.local_name(1)) and a[2] == ("param", 2, pf.local_name(2)) and a[3][0] == "agg" and a[3][2] == "Trait"
        ret = q0.ev_local(frp, 0)
        returned = any(x[0] == "call" and len(x) == 5 and x[4] == vc[0][0] for x in Q.walk(ret))
        okv = okv and returned
        detail = "validate(%s) returned: %s" % (cap(", ".join(Q.show(x) for x in a[:4])), returned)
    ctx.check(R, key + ":attribute-validated-under-item-name", okv, detail, pf)


def _factory_kind(ctx, R, q0):
    """make_api_factory_body hands the same FactoryKind to every item; FactoryKind::X selects ApiEndpointKind::X."""
    ep = ctx.epn
    mk = ep.one(r"::make_api_factory_body$")
    if mk is None:
        ctx.lost(R, "make_api_factory_body")
        return
    n = 0
    for c in [mk] + ep.descendants(mk):
        fr = Q.Frame(c)
        for bb, t in c.live_calls(r"^api_trait::Api(Endpoint|Channel)::<'ast>::to_api_endpoint$"):
            n += 1
            k = q0.ev_op(fr, t["args"][2])
            p = Q.path_of(k)
            nm = p[2] if p else None
            if p is not None and p[0] == "upvar":
                nm = c.upvar_name(p[1])
            ok = p is not None and not p[3] and nm == mk.local_name(2) and mk.local_name(2) is not None
            ctx.check(R, "factory-passes-kind:%s" % t["callee"].split("::")[1], ok, "kind argument = %s (factory parameter `%s`)" % (Q.show(k), mk.local_name(2)), (c, bb))
    ctx.check(R, "factory-visits-endpoints-and-channels", n == 2, "to_api_endpoint call sites under make_api_factory_body: %d" % n, mk)
    kinds = set()
    for f, bb, t in callers(ep, r"::make_api_factory_body$"):
        k = q0.ev_op(Q.Frame(f), t["args"][1])
        if k[0] == "agg":
            kinds.add(k[2])
    ctx.check(R, "factory-used-for-real-and-stub", kinds == {"Regular", "Stub"}, "FactoryKind values passed to make_api_factory_body: %s" % sorted(kinds), mk)
    for which in ("Endpoint", "Channel"):
        g = ep.one(r"^api_trait::Api%s::<'ast>::to_api_endpoint$" % which)
        if g is None:
            ctx.lost(R, "Api%s::to_api_endpoint" % which)
            continue
        fr = Q.Frame(g)
        seen = {}
        for bb, t in g.live_calls(r"::to_api_endpoint_impl$"):
            # one call per FactoryKind arm, or one call whose kind argument was chosen by the match: per (call, alternative)
            for gs, k in Q.flat_arms(q0.ev_op(fr, t["args"][2]), q0.guards_of(fr, bb)):
                fks = set(gv for gt, gv in gs if gt == ("param", 3, g.local_name(3)))
                fk = list(fks)[0] if len(fks) == 1 else "?"
                seen[fk] = (k, bb, t) if fk not in seen else (("unknown", "several calls for FactoryKind::%s" % fk), bb, t)
        for fk in ("Regular", "Stub"):
            if fk not in seen:
                ctx.check(R, "factory-kind-selects:%s:%s" % (which, fk), False, "no to_api_endpoint_impl call on the FactoryKind::%s arm" % fk, g)
                continue
            k, bb, t = seen[fk]
            ok = k[0] == "agg" and k[2] == fk and q0.ev_op(fr, t["args"][0]) == ("param", 1, g.local_name(1))
            if fk == "Stub" and ok:
                fields = dict(zip(_field_names(ep, "metadata::ApiEndpointKind", "Stub") or [], k[3]))
                lv = lambda n: Q.leaves(fields[n]) if n in fields else set()
                ok = lv("attr") == {"self.attr"} and all(l.startswith("self.params") for l in lv("extractor_types") | lv("ret_ty")) and bool(lv("extractor_types")) and bool(lv("ret_ty")) \
                    and any(re.search(r"::extractor_types$", c) for c in Q.callees(fields.get("extractor_types", ("unknown", ""))))
            ctx.check(R, "factory-kind-selects:%s:%s" % (which, fk), ok, "FactoryKind::%s -> %s" % (fk, cap(Q.show(k))), (g, bb))


# =========================================================================== R2a
def r2a_validate(ctx):
    R = ctx.rule("C19.R2a", "every attribute argument reaches the validated metadata: each field of EndpointMetadata (except _dropshot_crate) flows into the same-named field of ValidatedEndpointMetadata "
                 "and nothing else does; ChannelMetadata likewise, with method=GET, content type JSON and no body limit fixed by design", floor=27)
    # normalised view: `x.map(f).unwrap_or(d)`, `x.map_or(d, f)`, `match x {..}` and `r.map_err(f).ok()` / `match r {..}` are one program
    ep = ctx.epn
    q0 = _q(ctx, "epn", inline=False)
    tgt = _field_names(ep, VMETA)
    if not tgt:
        ctx.lost(R, "ADT " + VMETA)
        return
    conv = {
        "request_body_max_bytes": [r"ParseWrapper::<P>::into_inner$"],
        "versions": [r"ParseWrapper::<P>::into_inner$", r"Option::<T>::unwrap_or$"],
        "content_type": [r"str::<impl str>::parse$", r"str::FromStr::from_str$"],
    }
    for src_adt, vfn, fixed in (("metadata::EndpointMetadata", r"^metadata::EndpointMetadata::validate$", {}),
                                ("metadata::ChannelMetadata", r"^metadata::ChannelMetadata::validate$",
                                 {"method": ("agg", "metadata::MethodType", "GET"), "content_type": ("agg", "util::ValidContentType", "ApplicationJson"),
                                  "request_body_max_bytes": ("agg", "std::option::Option", "None")})):
        f = ctx.need_fn(ep, R, vfn)
        tag = src_adt.split("::")[-1]
        src = _field_names(ep, src_adt)
        if not src:
            ctx.lost(R, "ADT " + src_adt)
            continue
        skip = {"_dropshot_crate", "protocol"}
        want = [s for s in src if s not in skip]
        ctx.check(R, "%s:field-sets" % tag, set(want) | set(fixed) == set(tgt) and not (set(want) & set(fixed)),
                  "attribute fields %s + fixed %s vs validated fields %s" % (want, sorted(fixed), tgt), f, nontrivial=False)
        aggs = list(f.aggregates("^%s$" % re.escape(VMETA)))
        ctx.check(R, "%s:one-construction" % tag, len(aggs) == 1, "ValidatedEndpointMetadata aggregate sites in validate: %d" % len(aggs), f)
        fr = Q.Frame(f)
        for bb, i, st in aggs:
            for name, op in zip(st["rv"]["fields"], st["rv"]["ops"]):
                t = q0.ev_op(fr, op)
                sl = _self_leaves(t)
                if name in fixed:
                    k, adt, var = fixed[name]
                    ok = t[0] == "agg" and t[1] == adt and t[2] == var and not sl
                    ctx.check(R, "%s:%s-fixed" % (tag, name), ok, "%s = %s (by design %s::%s)" % (name, cap(Q.show(t)), adt.split("::")[-1], var), (f, bb))
                    continue
                bad = _only(t, PLUMB + conv.get(name, []))
                ok = sl == {"self." + name} and not bad
                if name not in conv:
                    # plain fields are handed over as they are
                    p = Q.path_of(Q.strip_plumb(t))
                    ok = ok and p is not None and p[2] == "self" and p[3] == (name,)
                else:
                    # converted fields: every condition that selects a value is about this very field
                    gl = set()
                    for x in Q.walk(t):
                        if x[0] == "alt":
                            for g, _ in x[1]:
                                for gt, gv in g:
                                    gl |= Q.leaves(gt)
                    ok = ok and gl <= {"self." + name}
                ctx.check(R, "%s:%s" % (tag, name), ok, "%s = %s%s" % (name, cap(Q.show(t)), (" ; unexpected operations: %s" % bad) if bad else ""), (f, bb))
                if name == "versions":
                    dflt = t[0] == "call" and re.search(r"unwrap_or$", t[1]) and len(t[2]) == 2 and t[2][1][0] == "agg" and t[2][1][2] == "All"
                    if t[0] == "alt":
                        dflt = any(x[0] == "agg" and x[2] == "All" and any(gv == "None" and Q.leaves(gt) == {"self.versions"} for gt, gv in g) for g, x in t[1]) and \
                            all((x[0] == "agg" and x[2] == "All") or any(gv == "Some" and Q.leaves(gt) == {"self.versions"} for gt, gv in g) for g, x in t[1])
                    ctx.check(R, "%s:versions-default-All" % tag, bool(dflt), "absent `versions` means VersionRange::All: %s" % cap(Q.show(t)), (f, bb))
                if name == "content_type":
                    dflt = t[0] == "alt" and any(x[0] == "agg" and x[2] == "ApplicationJson" and any(gv == "None" and Q.leaves(gt) == {"self.content_type"} for gt, gv in g) for g, x in t[1])
                    parsed = t[0] == "alt" and any(x[0] != "agg" and any(gv == "Ok" for gt, gv in g) and any(re.search(r"parse$|from_str$", c) for c in Q.callees(x)) for g, x in t[1])
                    ctx.check(R, "%s:content_type-default-json-else-parsed" % tag, dflt and parsed, "absent -> ApplicationJson: %s ; present -> parse(..) Ok payload: %s" % (dflt, parsed), (f, bb))
            # the aggregate is what validate returns when there are no errors
            ret = q0.ev_local(fr, 0)
            inner = "metadata::ValidatedChannelMetadata" if tag == "ChannelMetadata" else VMETA
            returned = any(x[0] == "agg" and x[1] == inner for x in Q.walk(ret))
            ctx.check(R, "%s:result-returned" % tag, returned, "validate returns Some(%s{..}): %s" % (inner.split("::")[-1], returned), (f, bb))


# =========================================================================== R2b
def _producer_template(ctx, R):
    prod = ctx.need_fn(ctx.ep, R, PRODUCER)
    key = "c19:template"
    if key not in ctx.extra:
        q = _q(ctx, "ep", inline=True)
        ctx.extra[key] = q.template(prod, 0)
    P = _roles(ctx, R, prod, "ValidatedEndpointMetadata")
    return prod, ctx.extra[key], P


def _ctor_roles(ctx, q, dfn):
    """What each parameter of an ApiEndpoint constructor *means*, read off the aggregate it builds:
    the parameter that becomes field operation_id is the operation id, ... (robust to renaming)."""
    aggs = list(dfn.aggregates(r"^api_description::ApiEndpoint$"))
    if len(aggs) != 1:
        return None
    bb, i, st = aggs[0]
    fr = Q.Frame(dfn)
    flows = {}
    for n, o in zip(st["rv"]["fields"], st["rv"]["ops"]):
        for l in Q.leaves(q.ev_op(fr, o)):
            flows.setdefault(l, set()).add(n)
    out = []
    for pi in range(1, dfn.argc + 1):
        F = flows.get(_leafname(("param", pi, dfn.local_name(pi))), set())
        if "operation_id" in F:
            out.append("operation_id")
        elif F == {"handler"}:
            out.append("handler")
        elif "body_content_type" in F:
            out.append("content_type")
        elif len(F) == 1 and list(F)[0] in ("method", "path", "versions"):
            out.append(list(F)[0])
        else:
            out.append("?%s" % sorted(F))
    return out


def _default_form(x, primary, default):
    """x evaluates to `primary` when that Option is Some, else to `default`."""
    x = Q.strip_plumb(x)
    if x[0] == "call" and re.search(r"Option::<T>::unwrap_or$", x[1]) and len(x[2]) == 2:
        return Q.leaves(x[2][0]) == {primary} and Q.leaves(x[2][1]) == {default} and not _only(x[2][0], PLUMB) and not _only(x[2][1], PLUMB)
    if x[0] == "alt":
        some = none = False
        for g, v in x[1]:
            gl = [(Q.leaves(gt), gv) for gt, gv in g]
            if ({primary}, "Some") in gl and Q.leaves(v) == {primary} and not _only(v, PLUMB):
                some = True
            elif ({primary}, "None") in gl and Q.leaves(v) == {default} and not _only(v, PLUMB):
                none = True
            else:
                return False
        return some and none
    return False


def _ctor_arms(T, P):
    """The alternative over `kind` at the head of the producer's template: {variant: tokens}."""
    if not T or T[0][0] != "alt":
        return None
    arms = {}
    for g, toks in T[0][1]:
        ks = [gv for gt, gv in g if gt == P["kind"]]
        if len(ks) != 1 or len(g) != 1:
            return None
        arms[ks[0]] = toks
    return arms


def r2b_emission(ctx):
    R = ctx.rule("C19.R2b", "the emitted constructor call passes, for each parameter name of dropshot's ApiEndpoint::new / ::new_for_types, the matching validated-metadata field, identically in the real "
                 "and stub arms; the builder calls .summary/.description/.tag/.visible(false)/.deprecated(true)/.request_body_max_bytes are appended exactly under their field's condition and nothing else is", floor=31)
    prod, T, P = _producer_template(ctx, R)
    ds = ctx.ds
    S, N, DOC = _leafname(P["self"]), _leafname(P["name"]), _leafname(P["doc"])
    qd = _q(ctx, "ds", inline=False)
    vfields = _field_names(ctx.ep, VMETA) or []
    arms = _ctor_arms(T, P)
    if arms is None or set(arms) != {"Regular", "Stub"}:
        ctx.check(R, "constructor-chosen-by-kind", False, "the returned stream does not start with one constructor per ApiEndpointKind variant: %s" % cap(Q.show_toks(T[:1])), prod)
        return
    ctx.check(R, "constructor-chosen-by-kind", True, "Regular and Stub arms found", prod)
    sigs = {"Regular": ("new", ctx.need_fn(ds, R, r"^api_description::ApiEndpoint::<Context>::new$")),
            "Stub": ("new_for_types", ctx.need_fn(ds, R, r"^api_description::ApiEndpoint::<api_description::StubContext>::new_for_types$"))}
    per_param = {}
    for arm, (ctor, dfn) in sigs.items():
        toks = arms[arm]
        s = Q.sig(toks)
        params = _ctor_roles(ctx, qd, dfn)
        if params is None:
            ctx.lost(R, "the ApiEndpoint aggregate in %s" % dfn.id)
            continue
        head = ["<>", "::", "ApiEndpoint", "::", ctor]
        okh = s[:5] == head and toks[0][1] == P["dropshot"] and s[-1] == "(" and toks[-1][0] == "grp"
        if arm == "Regular":
            okh = okh and len(s) == 6
        else:
            # ::<(#(#extractor_types,)*), #ret_ty>
            gen = toks[5:-1]
            gs = Q.sig(gen)
            okg = gs == ["::", "<", "(", ",", "<>", ">"]
            if okg:
                inner = gen[2][2]
                okg = Q.sig(inner) == ["#()*"] and Q.sig(inner[0][1]) == ["<>", ","] and \
                    Q.strip_plumb(inner[0][1][0][1]) == ("item", ("field", ("as", P["kind"], "Stub"), "extractor_types")) and \
                    gen[4][1] == ("field", ("as", P["kind"], "Stub"), "ret_ty")
            ctx.check(R, "Stub:type-arguments", okg, "generic arguments: %s" % cap(Q.show_toks(gen)), prod)
        ctx.check(R, "%s:constructor-path" % arm, okh, "emits %s" % cap(Q.show_toks(toks[:6])), prod)
        if not (toks and toks[-1][0] == "grp"):
            continue
        args = Q.split_commas(toks[-1][2])
        ctx.check(R, "%s:arity" % arm, len(args) == len(params), "emitted %d arguments for %s(%s)" % (len(args), ctor, ", ".join(str(p) for p in params)), prod)
        for pname, a in zip(params, args):
            per_param.setdefault(pname, {})[arm] = a
            ok, why = _arg_ok(pname, a, P)
            ctx.check(R, "%s:arg:%s" % (arm, pname), ok, "%s <- %s%s" % (pname, cap(Q.show_toks(a)), ("  [%s]" % why) if why else ""), prod)
    for pname, d in sorted(per_param.items()):
        if len(d) == 2:
            ctx.check(R, "arms-agree:%s" % pname, d["Regular"] == d["Stub"], "real and stub constructors receive the same `%s` tokens: %s" % (pname, d["Regular"] == d["Stub"]), prod)
    # ---- builder calls appended after the constructor
    chunks, stray = _builder_chunks(T[1:])
    ctx.check(R, "builders:no-stray-tokens", not stray, "tokens after the constructor that are not `.name(args)` builder calls: %s" % cap(Q.show_toks(stray)) if stray else "only builder calls follow the constructor", prod)
    expect = {
        "summary": ("Some", DOC + ".summary", "hole"),
        "description": ("Some", DOC + ".description", "hole"),
        "tag": ("rep", S + ".tags", "hole"),
        "visible": (True, S + ".unpublished", "false"),
        "deprecated": (True, S + ".deprecated", "true"),
        "request_body_max_bytes": ("Some", S + ".request_body_max_bytes", "hole"),
    }
    seen = {}
    for c in chunks:
        seen.setdefault(c["name"], []).append(c)
    for name in sorted(set(seen) | set(expect)):
        cs = seen.get(name, [])
        if name not in expect:
            ctx.check(R, "builder:%s" % name, False, "unexpected builder call emitted: %s" % cap("; ".join(Q.show_toks(c["toks"]) for c in cs)), prod)
            continue
        val, leaf, argk = expect[name]
        ok = len(cs) == 1
        detail = "%d emission(s)" % len(cs)
        if ok:
            c = cs[0]
            if val == "rep":
                cond_ok = c["mode"] == "rep"
            else:
                cond_ok = c["mode"] == "when" and len(c["guards"]) == 1 and c["guards"][0][1] == val and Q.leaves(c["guards"][0][0]) == {leaf} and not _only(c["guards"][0][0], PLUMB)
            if argk == "hole":
                arg_ok = len(c["args"]) == 1 and c["args"][0][0] == "hole" and Q.leaves(c["args"][0][1]) == {leaf} and not _only(c["args"][0][1], PLUMB)
            else:
                arg_ok = c["args"] == (("id", argk),)
            # the builder exists in dropshot (R3 decides what it stores)
            exists = ctx.ds.one(r"^api_description::ApiEndpoint::<Context>::%s$" % re.escape(name)) is not None
            ok = cond_ok and arg_ok and exists
            detail = "%s ; condition on %s ok=%s, argument ok=%s, builder exists in dropshot=%s" % (cap(Q.show_toks(c["toks"])), leaf, cond_ok, arg_ok, exists)
        ctx.check(R, "builder:%s" % name, ok, detail, prod)
    # ---- interpolation is by library ToTokens impls, except the content type (whose impl R5 decides)
    q = _q(ctx, "ep", inline=True)
    region = {prod.id: prod}
    for g in ctx.ep.descendants(prod):
        region[g.id] = g
    for caller, callee in q.inlined:
        if caller in region and callee in ctx.ep.F:
            region[callee] = ctx.ep.F[callee]
    local_impls = set()
    for g in region.values():
        for bb, t in g.live_calls(r"^quote::ToTokens::to_tokens$"):
            ty = re.sub(r"&('\{erased\} )?(mut )?", "", (t.get("gargs") or ["?"])[0]).split("<")[0]
            if ty in ctx.ep.adts and not ty.startswith(("syn::", "proc_macro2::", "quote::", "std::", "core::", "alloc::")):
                local_impls.add(ty)
    ctx.check(R, "interpolated-types", local_impls == {"util::ValidContentType"},
              "crate-local ToTokens impls used while emitting (over %d functions): %s" % (len(region), sorted(local_impls)), prod)
    # ---- every validated field is consumed
    used = set()
    for x in Q.walk_toks(T):
        p = Q.path_of(x)
        if p is not None and (p[0], p[1]) == P["self"][:2] and p[3]:
            used.add(p[3][0])
    ctx.check(R, "all-validated-fields-consumed", set(vfields) <= used, "ValidatedEndpointMetadata fields never read by the producer: %s" % sorted(set(vfields) - used), prod)


def _arg_ok(pname, a, P):
    s = Q.sig(a)
    S, N = _leafname(P["self"]), _leafname(P["name"])
    if pname == "operation_id":
        if s[1:] != [".", "to_string", "("] or s[0] not in ("<>", "{alt}") or a[3][2]:
            return False, "expected ⟨id⟩.to_string()"
        term = a[0][1]
        if s[0] == "{alt}":  # the id is chosen by a match: each arm must interpolate exactly one value
            if not all(len(toks) == 1 and toks[0][0] == "hole" for g, toks in a[0][1]):
                return False, "expected one interpolated value per arm"
            term = ("alt", tuple((g, toks[0][1]) for g, toks in a[0][1]))
        return _default_form(term, S + ".operation_id", N), "explicit operation_id, else the function name"
    if pname == "handler":
        return s == ["<>"] and a[0][1] == ("field", ("as", P["kind"], "Regular"), 0), "the Regular kind's function path"
    if pname == "method":
        if s != ["<>", "::", "Method", "::", "<>"] or a[0][1] != P["dropshot"]:
            return False, "expected ⟨dropshot⟩::Method::⟨ident⟩"
        m = a[4][1]
        bad = _only(m, PLUMB + FMT + [r"^metadata::MethodType::as_str$"])
        txt = []
        for x in Q.walk(m):
            if x[0] == "lit" and '"bytes"' in x[1]:
                import json as _j
                txt += [b for b in _j.loads(x[1]).get("bytes", []) if 0x20 <= b < 0x7f]
        ok = Q.leaves(m) == {S + ".method"} and not bad and any(re.search(r"MethodType::as_str$", c) for c in Q.callees(m)) and any(re.search(r"mk_ident$", c) for c in Q.callees(m)) and not txt
        return ok, "identifier made from MethodType::as_str(self.method) only%s" % ((" ; unexpected: %s" % bad) if bad else "")
    if pname in ("content_type", "path"):
        leaf = S + "." + pname
        return s == ["<>"] and Q.leaves(a[0][1]) == {leaf} and not _only(a[0][1], PLUMB), leaf
    if pname == "versions":
        if s != ["{alt}"]:
            return False, "expected one alternative per VersionRange kind"
        ok = all(len(g) == 1 and Q.leaves(g[0][0]) == {S + ".versions"} for g, _ in a[0][1])
        return ok, "chosen by self.versions (contents: C19.R7)"
    return False, "parameter not known to the rule"


def _builder_chunks(toks):
    """Parse `[when c: . name ( args )]`, `#( . name ( args ) )*`, `. name ( args )` items."""
    chunks, stray = [], []
    for t in toks:
        if t[0] == "when":
            mode, guards, body = "when", t[1], t[2]
        elif t[0] == "rep":
            mode, guards, body = "rep", (), t[1]
        else:
            stray.append(t)
            continue
        s = Q.sig(body)
        if len(body) == 3 and s[0] == "." and body[1][0] == "id" and s[2] == "(":
            chunks.append({"mode": mode, "guards": guards, "name": body[1][1], "args": body[2][2], "toks": (t,)})
        else:
            stray.append(t)
    # unconditional `. name ( .. )` triples
    i = 0
    plain = [t for t in stray]
    stray = []
    while i < len(plain):
        if i + 2 < len(plain) and plain[i] == ("p", ".") and plain[i + 1][0] == "id" and plain[i + 2][0] == "grp" and plain[i + 2][1] == "(":
            chunks.append({"mode": "always", "guards": (), "name": plain[i + 1][1], "args": plain[i + 2][2], "toks": tuple(plain[i:i + 3])})
            i += 3
        else:
            stray.append(plain[i])
            i += 1
    return chunks, tuple(stray)


# =========================================================================== R3
def r3_builders(ctx):
    R = ctx.rule("C19.R3", "each ApiEndpoint builder method writes its argument (through to_string/Some only) into the same-named field, touches no other field and returns self", floor=6)
    ds = ctx.ds
    table = {"summary": "summary", "description": "description", "tag": "tags", "visible": "visible", "deprecated": "deprecated", "request_body_max_bytes": "request_body_max_bytes"}
    q = _q(ctx, "ds", inline=False)
    for m, field in sorted(table.items()):
        f = ds.one(r"^api_description::ApiEndpoint::<Context>::%s$" % m)
        if f is None:
            ctx.lost(R, "builder method ApiEndpoint::%s" % m)
            continue
        fr = Q.Frame(f)
        writes = []  # (field, value term, how)
        for bb, i, st in f.stmts():
            pl = st["pl"]
            if pl["l"] == 1 and pl["p"]:
                fld = [e.get("n") for e in pl["p"] if isinstance(e, dict) and "f" in e]
                val = q.ev_op(fr, st["rv"]["op"]) if st["rv"]["rv"] == "use" else q.ev_def(fr, (bb, "assign", st))
                writes.append((fld[0] if fld else "?", val, "assign"))
            rv = st["rv"]
            if rv["rv"] == "ref" and rv.get("mut") and rv["pl"]["l"] == 1:
                fld = [e.get("n") for e in rv["pl"]["p"] if isinstance(e, dict) and "f" in e]
                # the &mut borrow is handed to a call: the other arguments are what is stored
                dst = st["pl"]["l"]
                for ubb, uk, un in f.uses_of_local(dst):
                    if uk == "call":
                        others = [q.ev_op(fr, a) for a in un["args"][1:]]
                        writes.append((fld[0] if fld else "<whole self>", ("call", un.get("callee") or "?", tuple(others), None, ubb), "via " + Q.short(un.get("callee") or "?")))
        ret = q.ev_local(fr, 0)
        ret_ok = ret == ("param", 1, f.local_name(1))
        if ret[0] == "agg" and ret[1] == "api_description::ApiEndpoint" and not writes:
            # functional-update form `ApiEndpoint { field: v, ..self }`: every other field is self's
            names = _field_names(ds, "api_description::ApiEndpoint") or []
            changed = [(n, v) for n, v in zip(names, ret[3]) if v != ("field", ("param", 1, f.local_name(1)), n)]
            writes = [(n, v, "struct update") for n, v in changed]
            ret_ok = len(names) == len(ret[3])
        ok = len(writes) == 1 and writes[0][0] == field
        detail = "writes: %s" % [(w[0], cap(Q.show(w[1]), 80)) for w in writes]
        if ok:
            v = writes[0][1]
            how = writes[0][2]
            allow = [r"string::ToString::to_string$", r"Option::<T>::replace$", r"Vec::<T, A>::push$", r"Option::<T>::insert$"]
            lv = Q.leaves(v)
            pname = f.local_name(2)
            ok = lv == {pname} and not _only(v, PLUMB + allow) and not any(x[0] in ("unop", "binop") for x in Q.walk(v))
            if field == "request_body_max_bytes":
                # `self.f = Some(x)`, or `self.f.replace(x)` / `.insert(x)` (both store Some(x))
                ok = ok and ((v[0] == "agg" and v[2] == "Some") or (v[0] == "call" and re.search(r"Option::<T>::(replace|insert)$", v[1]) is not None))
            if field == "tags":
                ok = ok and v[0] == "call" and re.search(r"Vec::<T, A>::push$", v[1]) is not None
            if field in ("summary", "description"):
                ok = ok and ((v[0] == "call" and re.search(r"Option::<T>::(replace|insert)$", v[1]) is not None) or (v[0] == "agg" and v[2] == "Some"))
            if field in ("visible", "deprecated"):
                ok = ok and v == ("param", 2, pname)
            detail = "self.%s <- %s (%s) ; returns self: %s" % (field, cap(Q.show(v), 120), how, ret_ok)
        ctx.check(R, "builder:%s" % m, ok and ret_ok, detail, f)


# =========================================================================== R4
def _byname(x, roles=None):
    """Term with parameters identified by what they mean (the two constructors number and may name them
    differently) and no call sites."""
    if isinstance(x, tuple):
        if len(x) == 3 and x[0] == "param":
            return ("param", roles[x[1] - 1] if roles and 1 <= x[1] <= len(roles) else x[2])
        if len(x) == 5 and x[0] == "call":
            x = x[:4]
            if re.search(r"(Result::<T, E>|Option::<T>)::(expect|unwrap)$", x[1]) and x[2]:
                x = ("call", "unwrap", x[2][:1], None)  # the panic message is not part of the value
            elif Q.is_str_to_string(x):
                x = ("call", "str->String", x[2][:1], None)  # to_string / to_owned / String::from / into: one conversion
        return tuple(_byname(y, roles) for y in x)
    return x


def r4_new_vs_stub(ctx):
    R = ctx.rule("C19.R4", "ApiEndpoint::new and ::new_for_types build every field except `handler` from the same sources; the defaults are visible=true, deprecated=false, no summary/description/tags/body limit", floor=20)
    ds = ctx.ds
    q = _q(ctx, "ds", inline=False)
    fa = ctx.need_fn(ds, R, r"^api_description::ApiEndpoint::<Context>::new$")
    fb = ctx.need_fn(ds, R, r"^api_description::ApiEndpoint::<api_description::StubContext>::new_for_types$")
    vals = {}
    gen = {}
    roles = {"new": _ctor_roles(ctx, q, fa), "new_for_types": _ctor_roles(ctx, q, fb)}
    for tag, f in (("new", fa), ("new_for_types", fb)):
        aggs = list(f.aggregates(r"^api_description::ApiEndpoint$"))
        if len(aggs) != 1:
            ctx.lost(R, "the single ApiEndpoint aggregate in %s (found %d)" % (tag, len(aggs)))
            return
        bb, i, st = aggs[0]
        fr = Q.Frame(f)
        vals[tag] = {n: q.ev_op(fr, o) for n, o in zip(st["rv"]["fields"], st["rv"]["ops"])}
        ret = q.ev_local(fr, 0)
        ctx.check(R, "%s:returns-the-aggregate" % tag, ret[0] == "agg" and ret[1] == "api_description::ApiEndpoint", "returns %s" % cap(Q.show(ret), 80), f)
        gen[tag] = {}
        for cb, t in f.live_calls(r"response_metadata$|ApiEndpointErrorResponse::for_type$|RequestExtractor::metadata$"):
            gen[tag][Q.short(t["callee"])] = [re.sub(r"/#\d+", "", g) for g in t.get("gargs", [])]
    fields = _field_names(ds, "api_description::ApiEndpoint") or []
    defaults = {"visible": lambda t: t[0] == "lit" and '"int": 1' in t[1], "deprecated": lambda t: t[0] == "lit" and '"int": 0' in t[1],
                "summary": lambda t: t[0] == "agg" and t[2] == "None", "description": lambda t: t[0] == "agg" and t[2] == "None",
                "request_body_max_bytes": lambda t: t[0] == "agg" and t[2] == "None",
                "tags": lambda t: t[0] == "call" and re.search(r"Vec::<T>::new$|Vec::<T, A>::new$", t[1]) is not None}
    passthrough = {"operation_id": "operation_id", "method": "method", "versions": "versions"}
    for n in fields:
        if n == "handler":
            continue
        a, b = vals["new"].get(n), vals["new_for_types"].get(n)
        same = a is not None and b is not None and _byname(a, roles["new"]) == _byname(b, roles["new_for_types"])
        ra = _byname(a, roles["new"]) if a is not None else None
        role_leaves = set(x[1] for x in Q.walk(ra) if len(x) == 2 and x[0] == "param") if ra is not None else set()
        ok = same
        extra = ""
        if n in defaults:
            ok = ok and defaults[n](a)
            extra = " (declared default)"
        if n in passthrough:
            ok = ok and a[0] == "param" and ra == ("param", passthrough[n])
            extra = " (the argument, unmodified)"
        if n == "path":
            ok = ok and role_leaves == {"path"} and len(Q.leaves(a)) == 1 and not _only(a, PLUMB + STR_CONV)
        if n == "body_content_type":
            ok = ok and role_leaves == {"content_type"} and len(Q.leaves(a)) == 1 and any(re.search(r"from_mime_type$", c) for c in Q.callees(a)) and not _only(a, PLUMB + [r"from_mime_type$", r"Result::<T, E>::(expect|unwrap)$"])
        if n in ("parameters", "extension_mode"):
            ok = ok and role_leaves == {"content_type"} and len(Q.leaves(a)) == 1 and any(re.search(r"RequestExtractor::metadata$", c) for c in Q.callees(a)) and a[0] == "field" and a[2] == n
        ctx.check(R, "field:%s" % n, ok, "new: %s | new_for_types: %s%s" % (cap(Q.show(a), 110) if a else None, cap(Q.show(b), 110) if b else None, extra), fa)
    # the type-level sources: FuncParams in both; response/error from the handler's result type
    ga, gb = gen["new"], gen["new_for_types"]
    plain = lambda gs: len(gs) == 1 and re.match(r"^\w+$", gs[0]) is not None   # a bare type parameter
    proj = lambda gs, assoc: len(gs) == 1 and "Projection" in gs[0] and gs[0].count(assoc) >= 1
    md = plain(ga.get("RequestExtractor::metadata", [])) and plain(gb.get("RequestExtractor::metadata", []))
    ctx.check(R, "types:parameters-from-FuncParams", md, "metadata::<%s> vs metadata::<%s>" % (ga.get("RequestExtractor::metadata"), gb.get("RequestExtractor::metadata")), fb)
    rs = plain(ga.get("HttpResponse::response_metadata", [])) and proj(gb.get("HttpResponse::response_metadata", []), "HttpResultType::Response")
    ctx.check(R, "types:response-from-result-type", rs, "response_metadata::<%s> vs ::<%s>" % (ga.get("HttpResponse::response_metadata"), gb.get("HttpResponse::response_metadata")), fb)
    er = proj(ga.get("ApiEndpointErrorResponse::for_type", []), "HttpHandlerFunc::Error") and proj(gb.get("ApiEndpointErrorResponse::for_type", []), "HttpResultType::Error")
    ctx.check(R, "types:error-from-result-type", er, "for_type::<%s> vs ::<%s>" % (ga.get("ApiEndpointErrorResponse::for_type"), gb.get("ApiEndpointErrorResponse::for_type")), fb)


# =========================================================================== R5
def _match_table(q, f):
    """For a fn whose return value is chosen by string comparisons / a discriminant: [(key, value term)]."""
    t = Q.lift_alts(q.ev_local(Q.Frame(f), 0))
    rows = []
    if t[0] != "alt":
        return rows
    for g, v in Q.flat_arms(t):
        key = None
        for gt, gv in g:
            if gt[0] == "call" and re.search(r"PartialEq::eq$", gt[1]) and gv is True:
                ls = Q.lits(gt)
                key = sorted(ls)[0] if len(ls) == 1 else None
            elif gt[0] != "call" and isinstance(gv, str):
                key = gv
        rows.append((key, v, g))
    return rows


def r5_tables(ctx):
    R = ctx.rule("C19.R5", "cross-crate tables agree: every MIME string the macro can emit is accepted by ApiEndpointBodyContentType::from_mime_type (and round-trips through ValidContentType), every "
                 "method name it can emit is its own variant's name and has a slot in gen_openapi's method table", floor=17)
    ep, ds = ctx.ep, ctx.ds
    qe, qd = _q(ctx, "ep", inline=False), _q(ctx, "ds", inline=False)
    # --- MIME
    fas = ctx.need_fn(ep, R, r"^util::ValidContentType::as_static_str$")
    ffs = ctx.need_fn(ep, R, r"^<util::ValidContentType as std::str::FromStr>::from_str$")
    ftt = ctx.need_fn(ep, R, r"^<util::ValidContentType as quote::ToTokens>::to_tokens$")
    fmt = ctx.need_fn(ds, R, r"^api_description::ApiEndpointBodyContentType::from_mime_type$")
    # the macro's own pair as_static_str / from_str is decided the same way as dropshot's (see below): by interpretation over every
    # variant and every string either function mentions — a match on constants, or a lookup in one constant table of (variant, string)
    # rows (indexed by discriminant / searched by find_map) are the same two functions.  Match arms are read only as a fallback.
    from . import absint as _A
    from .lib_c07 import OTHER
    emit, back = {}, {}
    try:
        decm = Q.decide_enum_string_tables(ep, fas, ffs, "util::ValidContentType")
        emit = dict(decm["to"])
        for s_, outs in decm["from"].items():
            if s_ != OTHER and len(outs) == 1 and "refused" not in outs:
                back[s_] = sorted(outs)[0]
        ctx.notes["C19.R5.ValidContentType_decided_by"] = "interpretation"
    except _A.LeavesFragment as e:
        ctx.notes["C19.R5.ValidContentType_decided_by"] = "match arms (not interpretable: %s)" % e
        for key, v, g in _match_table(qe, fas):
            ls = Q.lits(v)
            emit[key] = sorted(ls)[0] if len(ls) == 1 else None
        for key, v, g in _match_table(qe, ffs):
            if key is not None and v[0] == "agg" and v[2] == "Ok" and v[3] and v[3][0][0] == "agg":
                back[key] = v[3][0][2]
    variants = [v["name"] for v in ep.adts["util::ValidContentType"]["variants"]] if "util::ValidContentType" in ep.adts else []
    # dropshot's from_mime_type does nothing but compare strings for equality, branch, iterate over array literals and build values: it is
    # decided by interpretation (lib_c07.decide_string_tables, on rules/absint.py) on every string it or mime_type() mentions, on every
    # string the macro can emit and on one string equal to none of those — a match on constants, an if-chain, or `find` over the variants
    # through mime_type() are the same function.  Only when it leaves that fragment is the table read off its match arms instead.
    accept = {}
    try:
        fmt_to = ctx.need_fn(ds, R, r"^api_description::ApiEndpointBodyContentType::mime_type$")
        dec = Q.decide_enum_string_tables(ds, fmt_to, fmt, "api_description::ApiEndpointBodyContentType")
        for x in set(dec["from"]) | set(v for v in emit.values() if v):
            outs = dec["from"].get(x if x in dec["from"] else OTHER) or set()   # a string from_mime_type never mentions behaves as OTHER
            if x != OTHER and outs and "refused" not in outs:
                accept[x] = sorted(outs)[0] if len(outs) == 1 else "?%s" % sorted(outs)
        ctx.notes["C19.R5.from_mime_type_decided_by"] = "interpretation"
    except _A.LeavesFragment as e:
        ctx.notes["C19.R5.from_mime_type_decided_by"] = "match arms (not interpretable: %s)" % e
        for key, v, g in _match_table(qd, fmt):
            if key is not None and v[0] == "agg" and v[2] == "Ok":
                accept[key] = v[3][0][2] if v[3] and v[3][0][0] == "agg" else "?"
    ctx.check(R, "mime:all-variants-have-a-string", sorted(emit) == sorted(variants) and all(emit.values()), "as_static_str: %s" % emit, fas)
    for var, s in sorted(emit.items()):
        ctx.check(R, "mime:%s:accepted-by-dropshot" % var, s in accept, "macro emits %r; from_mime_type accepts %s" % (s, sorted(accept)), fmt)
        ctx.check(R, "mime:%s:round-trips" % var, back.get(s) == var, "ValidContentType::from_str(%r) = %s" % (s, back.get(s)), ffs)
    ctx.check(R, "mime:accepted-strings-distinct-kinds", len(set(accept.values())) == len(accept) and len(accept) >= 3, "from_mime_type: %s" % accept, fmt)
    tk = qe.ev_builder(Q.Frame(ftt), 2)
    body = Q.expand(tk[1]) if tk[0] == "ts" else ()
    okt = len(body) == 1 and body[0][0] == "hole" and body[0][1][0] == "call" and re.search(r"ValidContentType::as_static_str$", body[0][1][1]) is not None and Q.leaves(body[0][1]) == {"self"}
    ctx.check(R, "mime:interpolation-emits-as_static_str", okt, "<ValidContentType as ToTokens>::to_tokens appends %s" % cap(Q.show_toks(body)), ftt)
    # --- methods
    fms = ctx.need_fn(ep, R, r"^metadata::MethodType::as_str$")
    mt = {}
    for key, v, g in _match_table(qe, fms):
        ls = Q.lits(v)
        mt[key] = sorted(ls)[0] if len(ls) == 1 else None
    mvars = [v["name"] for v in ep.adts["metadata::MethodType"]["variants"]] if "metadata::MethodType" in ep.adts else []
    ctx.check(R, "method:all-variants-have-a-string", sorted(mt) == sorted(mvars) and len(mvars) >= 7, "MethodType::as_str: %s" % mt, fms)
    go = ctx.need_fn(ds, R, r"^api_description::ApiDescription::<Context>::gen_openapi$")
    slots = set()
    for bb, t in go.live_calls(r"cmp::PartialEq::eq$"):
        if "str" in (t.get("resolved") or ""):
            for a in t["args"]:
                if a.get("k") == "const" and isinstance(a.get("val"), dict) and "str" in a["val"]:
                    slots.add(a["val"]["str"])
                elif a.get("k") == "const" and isinstance(a.get("tyconst"), str) and a["tyconst"].startswith('"'):
                    slots.add(a["tyconst"].strip('"'))
    for var, s in sorted(mt.items()):
        ctx.check(R, "method:%s" % var, s == var and s in slots, "variant %s emits Method::%s; gen_openapi has slots for %s" % (var, s, sorted(slots)), fms)


# =========================================================================== R6
def _raw_place(fn, op):
    """Follow `&mut`/`&` reborrows of an operand back to the place it designates."""
    if op.get("k") not in ("copy", "move"):
        return None
    pl = op["pl"]
    for _ in range(10):
        if any(e != "*" for e in pl["p"]):
            return pl
        ds = [d for d in fn.defs().get(pl["l"], []) if not fn.blocks[d[0]]["cleanup"]]
        if len(ds) != 1 or ds[0][1] != "assign" or ds[0][2]["pl"]["p"]:
            return pl
        rv = ds[0][2]["rv"]
        if rv["rv"] in ("ref", "copyderef"):
            pl = rv["pl"]
        elif rv["rv"] == "use" and rv["op"].get("k") in ("copy", "move"):
            pl = rv["op"]["pl"]
        else:
            return pl
    return pl


def r6_document(ctx):
    R = ctx.rule("C19.R6", "gen_openapi copies operation_id, summary, description, tags and deprecated from the same-named fields of the endpoint being listed, and builds the operation only for visible endpoints", floor=7)
    ds = ctx.ds
    q = _q(ctx, "ds", inline=False)
    go = ctx.need_fn(ds, R, r"^api_description::ApiDescription::<Context>::gen_openapi$")
    fr = Q.Frame(go)
    # the operation is identified by its role — the openapiv3::Operation value that is put into a path item's method slot — and its fields by
    # whatever gives them their value: `Operation::default()` followed by field assignments / clone_from, or one struct literal
    # `Operation { f: v, .., ..Default::default() }` (fields taken over from the default are not writes), or a mixture
    is_default = lambda t: t[0] == "call" and re.search(r"default::Default::default$", t[1]) is not None
    stored_ops = set()
    for bb, t in go.live_calls(r"Option::<T>::(replace|insert|get_or_insert)$"):
        src = _raw_place(go, t["args"][1]) if len(t["args"]) >= 2 else None
        if src and not src["p"] and go.local_ty(src["l"]) == "openapiv3::Operation":
            stored_ops.add(src["l"])
    for bb, i, st in go.aggregates(r"option::Option$", "Some"):
        src = _raw_place(go, st["rv"]["ops"][0]) if st["rv"]["ops"] else None
        if src and not src["p"] and go.local_ty(src["l"]) == "openapiv3::Operation":
            stored_ops.add(src["l"])
    got = {}
    if len(stored_ops) == 1:
        L = list(stored_ops)[0]
        wd = [d for d in go.defs().get(L, []) if q._whole(d) and not go.blocks[d[0]]["cleanup"] and d[0] in go.reachable(0)]
        if len(wd) != 1:
            ctx.lost(R, "the single construction of the openapiv3::Operation that gen_openapi stores (found %d)" % len(wd))
            return
        obb, kind, node = wd[0]
        if kind == "assign" and node["rv"]["rv"] == "agg" and node["rv"].get("adt") == "openapiv3::Operation":
            for n, o in zip(node["rv"]["fields"], node["rv"]["ops"]):
                v = q.ev_op(fr, o)
                if not (v[0] == "field" and is_default(v[1])):
                    got.setdefault(n, []).append((obb, v, "struct literal"))
        elif not (kind == "call" and is_default(q.ev_def(fr, wd[0]))):
            ctx.lost(R, "how the stored openapiv3::Operation is built (neither Operation::default() nor a struct literal)")
            return
    else:
        ops = [(bb, t) for bb, t in go.live_calls(r"default::Default::default$") if "openapiv3::Operation " in (t.get("resolved") or "") or "openapiv3::Operation>" in (t.get("callee_args") or "")]
        if len(ops) != 1:
            ctx.lost(R, "the openapiv3::Operation stored into a method slot (stored locals: %d) / the single Operation::default() in gen_openapi (found %d)" % (len(stored_ops), len(ops)))
            return
        obb, ot = ops[0]
        L = ot["dest"]["l"]
    for bb, i, st in go.stmts():
        pl = st["pl"]
        if pl["l"] == L and len(pl["p"]) == 1 and isinstance(pl["p"][0], dict) and st["rv"]["rv"] == "use":
            got.setdefault(pl["p"][0].get("n"), []).append((bb, q.ev_op(fr, st["rv"]["op"]), "assign"))
    for bb, t in go.live_calls(r"clone::Clone::clone_from$"):
        dst = _raw_place(go, t["args"][0])
        if dst and dst["l"] == L and dst["p"]:
            fld = [e.get("n") for e in dst["p"] if isinstance(e, dict) and "f" in e]
            got.setdefault(fld[0], []).append((bb, q.ev_op(fr, t["args"][1]), "clone_from"))
    # idiom B: the loop iterates `endpoints(..).filter(|(_, _, e)| e.visible)` instead of testing `visible` in the body
    from .lib import closure_args_of_call as _cac
    filtered_visible = False
    for fbb, ft in go.live_calls(r"iter::Iterator::filter$"):
        if not go.slice(ft["args"][0]).has_call(r"HttpRouter::<Context>::endpoints$"):
            continue
        for h, node in _cac(go, ft):
            hs = h.slice({"l": 0, "p": []})
            if hs.reads_field("visible") and ("unop", "Not") not in hs.atoms and not [c for c in hs.callee_names() if not re.search(r"Deref::deref$|clone::Clone::clone$", c)]:
                filtered_visible = True
    ep_root = None
    for name in ("operation_id", "summary", "description", "tags", "deprecated"):
        ws = got.get(name, [])
        ok = len(ws) >= 1
        detail = "no write to operation.%s" % name
        for bb, v, how in ws:
            inner = v
            if name == "operation_id":
                ok = ok and v[0] == "agg" and v[2] == "Some"
                inner = v[3][0] if v[0] == "agg" and v[3] else v
            core = Q.strip_plumb(inner, OPT_PLUMB)
            src_ok = core[0] == "field" and core[2] == name and any(re.search(r"HttpRouter::<Context>::endpoints$", c) for c in Q.callees(core)) and \
                not _only(inner, PLUMB + [r"HttpRouter::<Context>::endpoints$"] + ([r"iter::Iterator::filter$"] if filtered_visible else []))
            if src_ok:
                ep_root = ep_root or Q.nosite(core[1])
                src_ok = Q.nosite(core[1]) == ep_root
            vis = any(gv is True and gt[0] == "field" and gt[2] == "visible" and Q.nosite(gt[1]) == Q.nosite(core[1]) for gt, gv in q.guards_of(fr, bb)) if core[0] == "field" else False
            if not vis and filtered_visible and core[0] == "field" and any(re.search(r"iter::Iterator::filter$", c) for c in Q.callees(core)):
                vis = True   # the element comes out of the visible-filter
            ok = ok and src_ok and vis
            detail = "operation.%s <- %s (%s) ; same endpoint item: %s ; only on endpoint.visible == true: %s" % (name, cap(Q.show(v), 120), how, src_ok, vis)
        ctx.check(R, "operation.%s" % name, ok, detail, (go, ws[0][0]) if ws else go)
    vis0 = any(gv is True and gt[0] == "field" and gt[2] == "visible" for gt, gv in q.guards_of(fr, obb)) or filtered_visible
    ctx.check(R, "operation-built-only-when-visible", vis0, "Operation::default() is reached only through the endpoint.visible == true edge: %s" % vis0, (go, obb))
    # the operation that was filled is the one stored in the path item's method slot
    stored = False
    detail = "no Option::replace/insert(slot, operation) or `*slot = Some(operation)` found"
    cands = []  # (block, slot term)
    for bb, t in go.live_calls(r"Option::<T>::(replace|insert|get_or_insert)$"):
        if len(t["args"]) >= 2:
            src = _raw_place(go, t["args"][1])
            if src and src["l"] == L and not src["p"]:
                cands.append((bb, q.ev_op(fr, t["args"][0])))
    for bb, i, st in go.aggregates(r"option::Option$", "Some"):
        src = _raw_place(go, st["rv"]["ops"][0]) if st["rv"]["ops"] else None
        if not (src and src["l"] == L and not src["p"]):
            continue
        dst = st["pl"]
        if not dst["p"]:  # a temporary: where is it moved to?
            for ubb, uk, un in go.uses_of_local(dst["l"]):
                if uk == "assign" and un["rv"]["rv"] == "use" and un["pl"]["p"]:
                    dst = un["pl"]
                    bb = ubb
        if dst["p"] and dst["p"][0] == "*":
            cands.append((bb, q.ev_local(fr, dst["l"])))
    for bb, slot in cands:
        by_method = slot[0] == "alt" and all(any(gt[0] == "call" and re.search(r"PartialEq::eq$", gt[1]) and any(x[0] == "field" and ep_root is not None and ep_root[0] == "field" and x != ep_root and Q.nosite(x[1]) == ep_root[1] for x in Q.walk(gt))
                                                  for gt, gv in g) for g, v in slot[1])
        stored = by_method and go.dominates(obb, bb)
        detail = "Option::replace(<slot chosen by comparing this endpoint's method string>, operation): %s" % by_method
    ctx.check(R, "operation-is-stored", stored, detail, (go, obb))


# =========================================================================== R7
def _emptiness_test(q, fr, g, sbb, st):
    """The switch at sbb tests whether a field is empty — `x.f == T::EMPTY`, `x.f != T::EMPTY`, `x.f.is_empty()`,
    possibly negated or bound to a flag: (field name, edge taken when empty, edge taken when not empty)."""
    if g.switch_on(sbb)["kind"] != "bool":
        return None
    tb, fb = g.bool_edges(sbb)
    t = q.ev_op(fr, st["discr"])
    for _ in range(6):
        if t[0] == "unop" and t[1] == "Not":
            t = t[2]
            tb, fb = fb, tb
        else:
            break
    fields = lambda x: [y[2] for y in Q.walk(x) if y[0] == "field"]
    if t[0] == "call" and re.search(r"::is_empty$", t[1]) and len(t[2]) == 1:
        fs = fields(t[2][0])
        return (fs[0], tb, fb) if fs else None
    ab = None
    if t[0] == "binop" and t[1] in ("Eq", "Ne"):
        ab, ne = (t[2], t[3]), t[1] == "Ne"
    elif t[0] == "call" and re.search(r"cmp::PartialEq::(eq|ne)$", t[1]) and len(t[2]) == 2:
        ab, ne = (t[2][0], t[2][1]), t[1].endswith("ne")
    if ab is None:
        return None
    for x, y in (ab, ab[::-1]):
        if any(z[0] == "const" and z[1].endswith("EMPTY") for z in Q.walk(x)) and fields(y):
            return (fields(y)[0], fb, tb) if ne else (fields(y)[0], tb, fb)
    return None


def _parse_semver_by_paths(ctx, R, ep, q0, ps):
    """Fallback of R7's literal check: each emptiness test of parse_semver accepts only past its `empty` edge."""
    region = [ps] + ep.descendants(ps)
    chk = {"pre": False, "build": False}
    for g in region:
        gfr = Q.Frame(g)
        for sbb, st in g.switches():
            et = _emptiness_test(q0, gfr, g, sbb, st)
            if et is None or et[0] not in chk:
                continue
            fld, empty_edge, nonempty_edge = et
            # accepted only past the `empty` edge, refused on the other (closure of and_then, early return, if/else alike)
            oks = [bb for bb, i, s in g.aggregates(r"^std::result::Result$", "Ok") if g.edge_dominates(sbb, empty_edge, bb)]
            errs = [bb for bb, i, s in g.aggregates(r"^std::result::Result$", "Err") if g.edge_dominates(sbb, nonempty_edge, bb)]
            if oks and errs:
                chk[fld] = True
    ctx.check(R, "literal:no-prerelease-or-build", all(chk.values()), "parse_semver refuses literals whose pre-release / build metadata is not EMPTY: %s" % chk, ps)


def _version_parse_by_paths(ctx, R, ep, pf, kinds):
    """Fallback of R7's parsing clauses when <VersionRange as Parse>::parse cannot be interpreted: each VersionRange variant is built once,
    dominated by the parse sites of its operands in source order; the one ordering comparison refuses exactly on until < earliest."""
    q0 = _q(ctx, "ep", inline=False)
    fr = Q.Frame(pf)
    DD = [bb for bb, t in pf.live_calls(r"ParseBuffer::<'a>::parse$") if any("token::DotDot" in g for g in t.get("gargs", []))]
    VS = [bb for bb, t in pf.live_calls(r"ParseBuffer::<'a>::parse$") if any("VersionSpecifier" in g for g in t.get("gargs", []))]
    ctx.check(R, "parse:token-sites", len(DD) >= 1 and len(VS) >= 2, "`..` parse sites: %d, version parse sites: %d" % (len(DD), len(VS)), pf)

    def site_of(term):
        s = [x[4] for x in Q.walk(term) if x[0] == "call" and len(x) == 5 and re.search(r"ParseBuffer::<'a>::parse$", x[1])]
        return s[0] if len(set(s)) == 1 and s[0] in VS else None
    dom = pf.dominates
    aggs = {}
    for bb, i, st in pf.aggregates(r"^metadata::VersionRange$"):
        aggs.setdefault(st["rv"]["variant"], []).append((bb, [q0.ev_op(fr, o) for o in st["rv"]["ops"]]))
    for k in kinds:
        if len(aggs.get(k, [])) != 1:
            ctx.check(R, "parse:%s" % k, False, "VersionRange::%s built at %d sites" % (k, len(aggs.get(k, []))), pf)
            continue
        bb, ops = aggs[k][0]
        sites = [site_of(o) for o in ops]
        vs_before = [v for v in VS if dom(v, bb)]
        dd_before = [d for d in DD if dom(d, bb)]
        if k == "All":
            ok = not ops and len(dd_before) == 1 and not vs_before
            gs = q0.guards_of(fr, bb)
            empty = any(gt[0] == "call" and re.search(r"is_empty$", gt[1]) and gv is True for gt, gv in gs)
            ok = ok and empty
            detail = "`..` parsed first, nothing else parsed, input empty: %s" % ok
        elif k == "Until":
            ok = len(ops) == 1 and sites[0] is not None and len(dd_before) == 1 and dom(dd_before[0], sites[0]) and vs_before == [sites[0]]
            detail = "operand parsed after the `..`, nothing before it: %s" % ok
        elif k == "From":
            ok = len(ops) == 1 and sites[0] is not None and len(dd_before) == 1 and dom(sites[0], dd_before[0]) and vs_before == [sites[0]]
            detail = "operand parsed before the `..`, nothing after it: %s" % ok
        else:
            ok = len(ops) == 2 and None not in sites and sites[0] != sites[1] and len(dd_before) == 1 and dom(sites[0], dd_before[0]) and dom(dd_before[0], sites[1]) and sorted(vs_before) == sorted(sites)
            detail = "field 0 parsed before the `..`, field 1 after it: %s" % ok
        ctx.check(R, "parse:%s" % k, ok, detail, (pf, bb))
    # ---- literal ordering check
    cmps = []
    for sbb, st in pf.switches():
        c = comparison_of(pf, sbb)
        if c and c["op"] in ("Lt", "Le", "Gt", "Ge"):
            cmps.append(c)
    okc = False
    detail = "ordering comparisons in parse: %d" % len(cmps)
    if len(cmps) == 1 and len(aggs.get("FromUntil", [])) == 1:
        c = cmps[0]
        fbb, fops = aggs["FromUntil"][0]
        s0, s1 = site_of(fops[0]), site_of(fops[1])
        verdicts = []
        for rel, x, y, edge in normalise_le(c):
            tx, ty = q0.ev_op(fr, x), q0.ev_op(fr, y)
            sx, sy = site_of(tx), site_of(ty)
            lit = all(any(z[0] == "as" and z[2] == "Literal" for z in Q.walk(t)) for t in (tx, ty))
            target = c[edge]
            # variant-sensitive: an `Err(..)` built on this edge (possibly in an inlined helper) takes the error exit of the `?` after it
            reaches = fbb in (Q.variant_reach(pf, target) or pf.reachable(target))
            if rel == "lt" and (sx, sy) == (s1, s0) and lit:
                # until < earliest on this edge: must be the refusing edge
                errs = [b for b, i, s in pf.aggregates(r"^std::result::Result$", "Err") if pf.edge_dominates(c["bb"], target, b)]
                verdicts.append(((not reaches) and bool(errs), "on the edge where until < earliest: FromUntil reachable=%s, Err built=%s" % (reaches, bool(errs))))
            elif rel == "le" and (sx, sy) == (s0, s1) and lit:
                other = c["false" if edge == "true" else "true"]
                v = reaches and fbb not in (Q.variant_reach(pf, other) or pf.reachable(other))
                verdicts.append((v, "FromUntil is reachable only from the edge where earliest <= until: %s" % v))
        if verdicts:
            okc = all(v for v, _ in verdicts)
            detail = " ; ".join(d for _, d in verdicts)
        if c and not okc and detail.startswith("ordering"):
            detail = "comparison %s(%s, %s) does not relate until to earliest as `until < earliest => Err`" % (c["op"], cap(Q.show(q0.ev_op(fr, c["a"])), 60), cap(Q.show(q0.ev_op(fr, c["b"])), 60))
    ctx.check(R, "parse:literal-pair-refused-iff-until<earliest", okc, detail, pf)


def r7_versions(ctx):
    R = ctx.rule("C19.R7", "version-range syntax -> range kind: `..`=All, `..b`=Until(b), `a..`=From(a), `a..b`=FromUntil(a,b) with operands in source order; literal pairs are refused iff until < earliest; "
                 "each kind emits the same-named ApiEndpointVersions constructor (from_until(earliest, until).unwrap() for FromUntil) with literals as semver::Version::new(major, minor, patch)", floor=14)
    ep, ds = ctx.ep, ctx.ds
    prod, T, P = _producer_template(ctx, R)
    S = _leafname(P["self"])
    kinds = [v["name"] for v in ep.adts["metadata::VersionRange"]["variants"]] if "metadata::VersionRange" in ep.adts else []
    dkinds = [v["name"] for v in ds.adts["api_description::ApiEndpointVersions"]["variants"]] if "api_description::ApiEndpointVersions" in ds.adts else []
    ctx.check(R, "kinds", sorted(kinds) == ["All", "From", "FromUntil", "Until"] and sorted(dkinds) == sorted(kinds), "macro kinds %s, dropshot kinds %s" % (kinds, dkinds), prod, nontrivial=False)
    arms = _ctor_arms(T, P) or {}
    valt = None
    for arm, toks in sorted(arms.items()):
        if toks and toks[-1][0] == "grp":
            for a in Q.split_commas(toks[-1][2]):
                if len(a) == 1 and a[0][0] == "alt" and all(len(g) == 1 and Q.leaves(g[0][0]) == {S + ".versions"} for g, _ in a[0][1]):
                    valt = a[0]
    if valt is None:
        ctx.lost(R, "the versions alternative in the emitted constructor call")
        return
    fu = ctx.need_fn(ds, R, r"^api_description::ApiEndpointVersions::from_until$")
    # which parameter of from_until is the earliest / the until bound: read off the ordered pair it builds
    fu_params = ["?"] * fu.argc
    qd = _q(ctx, "ds", inline=False)
    # (read off the value from_until returns, wherever the pair is built: in its body, or in the closure of `cond.then(|| ..)` /
    # `.map(..)` whose captures are from_until's parameters)
    pair_fields = _field_names(ds, "api_description::OrderedVersionPair") or []
    for x in Q.walk(qd.ev_local(Q.Frame(fu), 0), guards=False):
        if x[0] == "agg" and x[1] == "api_description::OrderedVersionPair" and len(x[3]) == len(pair_fields):
            for n, o in zip(pair_fields, x[3]):
                t = Q.strip_plumb(o)
                if t[0] == "param" and 1 <= t[1] <= fu.argc:
                    fu_params[t[1] - 1] = n if fu_params[t[1] - 1] in ("?", n) else "?%s+%s" % (fu_params[t[1] - 1], n)
    by = {g[0][1]: toks for g, toks in valt[1]}
    ctx.check(R, "emit:one-arm-per-kind", sorted(by) == sorted(kinds), "arms: %s" % sorted(by), prod)

    def bound(tok, kind, idx):
        """tok is the semver_expr alternative for field idx of VersionRange::kind."""
        if tok[0] != "alt":
            return False, "not a Literal/Identifier alternative"
        base = ("field", ("as", ("field", P["self"], "versions"), kind), idx)
        seen = {}
        for g, toks in tok[1]:
            if len(g) != 1 or Q.nosite(g[0][0]) != base:
                return False, "chosen by %s, expected %s" % (Q.show_guards(g), Q.show(base))
            seen[g[0][1]] = toks
        if sorted(seen) != ["Identifier", "Literal"]:
            return False, "arms %s" % sorted(seen)
        lit = seen["Literal"]
        ok = Q.sig(lit) == ["semver", "::", "Version", "::", "new", "("]
        if ok:
            parts = Q.split_commas(lit[5][2])
            v = ("field", ("as", base, "Literal"), 0)
            ok = len(parts) == 3 and all(len(p) == 1 and p[0][0] == "hole" and Q.nosite(p[0][1]) == ("field", v, n) for p, n in zip(parts, ("major", "minor", "patch")))
        idt = seen["Identifier"]
        ok2 = len(idt) == 1 and idt[0][0] == "hole" and Q.nosite(idt[0][1]) == ("field", ("as", base, "Identifier"), 0)
        return ok and ok2, "Literal -> %s ; Identifier -> %s" % (cap(Q.show_toks(lit), 120), cap(Q.show_toks(idt), 80))
    head = lambda toks, name: Q.sig(toks)[:5] == ["<>", "::", "ApiEndpointVersions", "::", name] and toks[0][1] == P["dropshot"]
    if "All" in by:
        ctx.check(R, "emit:All", head(by["All"], "All") and len(by["All"]) == 5, cap(Q.show_toks(by["All"])), prod)
    for k in ("From", "Until"):
        if k in by:
            toks = by[k]
            ok = head(toks, k) and len(toks) == 6 and toks[5][0] == "grp" and toks[5][1] == "(" and len(toks[5][2]) == 1
            okb, why = bound(toks[5][2][0], k, 0) if ok else (False, "shape")
            ctx.check(R, "emit:%s" % k, ok and okb, "%s ; bound: %s" % (cap(Q.show_toks(toks[:5])), why), prod)
    if "FromUntil" in by:
        toks = by["FromUntil"]
        s = Q.sig(toks)
        ok = head(toks, "from_until") and s[5:] == ["(", ".", "unwrap", "("] and not toks[8][2]
        parts = Q.split_commas(toks[5][2]) if ok else []
        ok = ok and len(parts) == 2 and all(len(p) == 1 for p in parts) and fu_params == ["earliest", "until"]
        b0, w0 = bound(parts[0][0], "FromUntil", 0) if ok else (False, "shape")
        b1, w1 = bound(parts[1][0], "FromUntil", 1) if ok else (False, "shape")
        ctx.check(R, "emit:FromUntil", ok and b0 and b1, "from_until(%s) <- (field 0: %s, field 1: %s)" % (", ".join(str(p) for p in fu_params), b0, b1), prod)
    # ---- parsing
    # <VersionRange as Parse>::parse is small and its leaves (the token cursor) can be modelled exactly: it is decided by interpretation on
    # every input of the range language (lib_c19.decide_version_range_parse) — one function or several, `?` / match / combinators, a tuple
    # pattern or zip().filter() for the both-literals test are one program.  Only when it leaves the interpretable fragment are the
    # clauses read off dominance between its parse sites and aggregates instead.
    pf = ctx.need_fn(ep, R, r"^<metadata::VersionRange as syn::parse::Parse>::parse$")
    try:
        from . import absint as _A
        rows = Q.decide_version_range_parse(ctx.epn, ctx.need_fn(ctx.epn, R, r"^<metadata::VersionRange as syn::parse::Parse>::parse$"))
        ctx.notes["C19.R7.version_range_parse_decided_by"] = "interpretation over %d inputs" % len(rows)
        dev = {}
        for r in rows:
            want = Q.expected_version_range(r)
            n = len(r["tokens"])
            form = "All" if n == 1 else ("Until" if r["tokens"][0][0] == "DD" else ("From" if n == 2 else "FromUntil"))
            both_lit = form == "FromUntil" and r["tokens"][0][0] == "LIT" and r["tokens"][2][0] == "LIT"
            key = "literal-pair-refused-iff-until<earliest" if both_lit else form
            dev.setdefault(key, [])
            if r["result"] != want or r["consumed"] != n:
                dev[key].append("`%s`%s -> %s after %d of %d tokens (expected %s)" % (r["input"], (" with " + r["order"]) if r["order"] != "-" else "", cap(r["result"], 90), r["consumed"], n, cap(want, 90)))
        DD = [bb for bb, t in pf.live_calls(r"ParseBuffer::<'a>::parse$") if any("token::DotDot" in g for g in t.get("gargs", []))]
        VS = [bb for bb, t in pf.live_calls(r"ParseBuffer::<'a>::parse$") if any("VersionSpecifier" in g for g in t.get("gargs", []))]
        ctx.check(R, "parse:token-sites", len(DD) >= 1 and len(VS) >= 2, "`..` parse sites: %d, version parse sites: %d" % (len(DD), len(VS)), pf)
        text = {"All": "`..` alone parses to All", "Until": "`.. b` parses to Until(b)", "From": "`a ..` parses to From(a)",
                "FromUntil": "`a .. b` (not both literals) parses to FromUntil(a, b), operands in source order",
                "literal-pair-refused-iff-until<earliest": "two literals: FromUntil(a, b) when a <= b, Err exactly when b < a"}
        for key in ("All", "Until", "From", "FromUntil", "literal-pair-refused-iff-until<earliest"):
            bad = dev.get(key)
            ctx.check(R, "parse:%s" % key, bad == [], "%s, consuming the whole input; deviating inputs: %s" % (text[key], "none" if bad == [] else (bad if bad else "clause not exercised")), pf)
    except _A.LeavesFragment as e:
        ctx.notes["C19.R7.version_range_parse_decided_by"] = "path facts (not interpretable: %s)" % e
        _version_parse_by_paths(ctx, R, ep, pf, kinds)
    # (dropshot's own from_until refuses the same pairs, until < earliest: decided exactly by C05.E3)
    # ---- literals carry no pre-release / build metadata (semver_parts relies on it)
    # parse_semver is small and its leaves can be stubbed: it is decided by interpretation over every outcome of (parses?, pre-release
    # empty?, build metadata empty?) — a map_err/and_then chain, a match with early returns, a selected error message are one
    # program.  Only when it leaves the interpretable fragment are the emptiness tests read off its path facts instead.
    ps = ctx.need_fn(ep, R, r"^metadata::parse_semver$")
    try:
        from . import absint as _A
        rows = Q.decide_parse_semver(ep, ps)
        wrong = ["parses=%s pre-empty=%s build-empty=%s -> %s" % (c + (o,)) for c, o in rows if o != ("Ok(parsed)" if all(c) else "Err(syn::Error)")]
        ctx.check(R, "literal:no-prerelease-or-build", len(rows) == 8 and not wrong,
                  "parse_semver interpreted over %d cases: Ok(the parsed version) iff it parses with empty pre-release and build metadata, Err otherwise; deviating: %s" % (len(rows), wrong or "none"), ps)
    except _A.LeavesFragment as e:
        ctx.notes["C19.R7.parse_semver_decided_by"] = "path facts (not interpretable: %s)" % e
        _parse_semver_by_paths(ctx, R, ep, _q(ctx, "ep", inline=False), ps)
    # normalised view: `parse_semver(&s).map(VersionSpecifier::Literal)` is `match parse_semver(&s) { Ok(v) => Ok(Literal(v)), .. }`
    sv = ctx.need_fn(ctx.epn, R, r"^<metadata::VersionSpecifier as syn::parse::Parse>::parse$")
    lits = [bb for bb, i, s in sv.aggregates(r"^metadata::VersionSpecifier$", "Literal")]
    okl = bool(lits) and all(sv.slice(s["rv"]["ops"][0]).has_call(r"^metadata::parse_semver$") and
                             not callee_allow(sv.slice(s["rv"]["ops"][0], stop_at_calls=r"^metadata::parse_semver$"), PLUMBING + [r"^metadata::parse_semver$", r"ops::Try::branch$"])
                             for bb, i, s in sv.aggregates(r"^metadata::VersionSpecifier$", "Literal"))
    ctx.check(R, "literal:every-literal-goes-through-parse_semver", okl, "VersionSpecifier::Literal sites: %d, all built from parse_semver(..)?: %s" % (len(lits), okl), sv)


# =========================================================================== R8
def _arms_losing_text(a):
    """Steps of an accumulation given as alternatives (guards, new value): those whose value lacks the accumulated text, or
    lacks the line although the line is not known to be empty."""
    bad = []
    for gs, v in a["arms"]:
        inside = list(Q.walk(v, guards=False))
        has_acc = any(a["is_acc"](y) for y in inside)
        has_line = any(a["is_line"](y) for y in inside)
        line_empty = any(gt[0] == "call" and re.search(r"is_empty$", gt[1]) and any(a["is_line"](y) for y in Q.walk(gt)) and gv is True for gt, gv in gs)
        if not has_acc or not (has_line or line_empty):
            bad.append("%s => %s" % (Q.show_guards(gs), cap(Q.show(v), 90)))
    return len(a["arms"]), bad


def _inplace_rounds_losing_text(q0, rec, header, is_line):
    """In-place accumulation (`acc.push_str(..)` in the loop body): nothing but appends touches the accumulator (ev_strbuf), so
    the accumulated text is never dropped; a line is lost iff control can go once round the loop — from the `next()` that yields
    the line back to it — without passing an append whose value is the line and without taking the edge on which the line is
    known to be empty."""
    g, gfr = rec["fn"], rec["frame"]
    loops = g.loop_blocks()
    line_sites = [bb for bb, v, il in rec["appends"] if il and any(is_line(y) for y in Q.walk(v, guards=False))]
    empty_edges = []
    for sbb, st in g.switches():
        if sbb not in loops or g.switch_on(sbb)["kind"] != "bool":
            continue
        tb, fb = g.bool_edges(sbb)
        t = q0.ev_op(gfr, st["discr"])
        for _ in range(6):
            if t[0] == "unop" and t[1] == "Not":
                t, tb, fb = t[2], fb, tb
            else:
                break
        if t[0] == "call" and re.search(r"::is_empty$", t[1]) and len(t[2]) == 1 and any(is_line(y) for y in Q.walk(t[2][0], guards=False)):
            empty_edges.append((sbb, tb))
    round_trip = g.reachable(list(g.succ(header)), avoid=line_sites, avoid_edges=empty_edges)
    bad = ["a way round the loop appends nothing of a line that may be non-empty (appends of the line: %d, `line.is_empty()` edges: %d)" % (len(line_sites), len(empty_edges))] \
        if header in round_trip else []
    return len([1 for bb, v, il in rec["appends"] if il]), bad


def _accumulations(ep, q0, f, fr, term, is_stream):
    """Every accumulation over an iterator inside `term`, whatever the idiom:
      `it.fold(init, |acc, x| step)`                      -> arms of the closure's result, acc = its 1st, x = its 2nd argument
      `let mut acc = init; for x in it { acc = step }`    -> the loop-carried local: arms defined in the loop (they mention the
                                                             local itself) are steps, the others initial values
      `let mut acc = init; for x in it { acc.push_str(x) }` -> a String appended to in place inside one loop driven by the stream
    Each: {node, how, stream, inits, site, losing() -> (number of steps, [steps losing text])}."""
    out = []
    for x in Q.walk(term):
        if x[0] == "call" and re.search(r"iter::Iterator::fold$", x[1]) and len(x[2]) == 3 and x not in [o["node"] for o in out]:
            cl = x[2][2]
            arms, g = None, None
            if cl[0] == "closure" and cl[1] in ep.F:
                g = ep.F[cl[1]]
                arms = Q.flat_arms(q0.value(g, 0)[0])
            a = {"node": x, "how": "Iterator::fold", "stream": x[2][0], "inits": [x[2][1]], "arms": arms, "site": g or f,
                 "is_acc": lambda y: y == ("arg", 2), "is_line": lambda y: y == ("arg", 3)}
            a["losing"] = (lambda a=a: _arms_losing_text(a)) if arms else None
            out.append(a)
    for mark in sorted(set(y for y in Q.walk(term) if y[0] == "cycle")):
        T = q0.loops.get(mark[1:])
        if T is None or T[0] != "alt" or T in [o["node"] for o in out]:
            continue
        mine = lambda v, mark=mark: mark in list(Q.walk(v))
        steps = [(g, v) for g, v in T[1] if mine(v)]
        inits = [v for g, v in T[1] if not mine(v)]
        if not steps or not inits:
            continue
        # the loop is driven by `next()` of the stream: `for x in it` / `while let Some(x) = it.next()`
        drv = set()
        for g, v in steps:
            d = [Q.strip_plumb(gt[2][0]) for gt, gv in g if gv == "Some" and gt[0] == "call" and re.search(r"iter::Iterator::next$", gt[1]) and gt[2]]
            drv.add(d[-1] if d else None)
        stream = list(drv)[0] if len(drv) == 1 else None
        arms = []
        for g, v in steps:
            arms.extend(Q.flat_arms(v, g))
        a = {"node": T, "how": "loop-carried local", "stream": stream or ("unknown", "loop not driven by Iterator::next"), "inits": inits, "arms": arms, "site": f,
             "is_acc": lambda y, mark=mark: y == mark, "is_line": lambda y: y[0] == "item" and is_stream(y[1])}
        a["losing"] = (lambda a=a: _arms_losing_text(a)) if arms else None
        out.append(a)
    for x in Q.walk(term):
        if x[0] == "call" and x[1] == Q.STRBUF and x[4] in q0.strbufs and x not in [o["node"] for o in out]:
            rec = q0.strbufs[x[4]]
            g, gfr = rec["fn"], rec["frame"]
            loops = g.loop_blocks()
            drv = set()
            for bb, v, il in rec["appends"]:
                d = [(Q.strip_plumb(gt[2][0]), gt[4]) for gt, gv in q0.guards_of(gfr, bb)
                     if gv == "Some" and gt[0] == "call" and len(gt) == 5 and re.search(r"iter::Iterator::next$", gt[1]) and gt[2] and gt[4] in loops] if il else []
                drv.add(d[-1] if d else None)      # None: an append outside the loop / in a loop not driven by next()
            stream, header = list(drv)[0] if len(drv) == 1 and None not in drv else (("unknown", "appends not all inside one loop driven by Iterator::next"), None)
            is_line = lambda y: y[0] == "item" and is_stream(y[1])
            a = {"node": x, "how": "String appended to in place", "stream": stream, "inits": [rec["init"]], "site": g}
            a["losing"] = (lambda rec=rec, header=header, is_line=is_line: _inplace_rounds_losing_text(q0, rec, header, is_line)) if header is not None else None
            out.append(a)
    return out


def r8_doc_lines(ctx):
    R = ctx.rule("C19.R8", "ExtractedDoc::from_attrs draws summary and description from one stream of the item's doc-attribute lines: the summary is a whole line of it, the description accumulates "
                 "(fold or loop) every remaining line onto a whole first line, and no accumulation step drops the accumulated text or a non-empty line", floor=5)
    ep = ctx.ep
    q0 = _q(ctx, "ep", inline=False)
    f = ctx.need_fn(ep, R, r"^doc::ExtractedDoc::from_attrs$")
    fr = Q.Frame(f)
    aggs = list(f.aggregates(r"^doc::ExtractedDoc$"))
    if len(aggs) != 1:
        ctx.lost(R, "the single ExtractedDoc aggregate in from_attrs (found %d)" % len(aggs))
        return
    bb, i, st = aggs[0]
    vals = {n: q0.ev_op(fr, o) for n, o in zip(st["rv"]["fields"], st["rv"]["ops"])}
    sm, de = vals.get("summary"), vals.get("description")
    if sm is None or de is None:
        ctx.lost(R, "fields summary/description of ExtractedDoc")
        return
    streams = lambda t: set(x[4] for x in Q.walk(t) if x[0] == "call" and len(x) == 5 and re.search(r"Iterator::(flat_map|map|filter_map)$", x[1]) and Q.leaves(x) == {"attrs"})
    s1, s2 = streams(sm), streams(de)
    ctx.check(R, "doc:one-line-stream", len(s1) == 1 and s1 == s2 and Q.leaves(sm) == {"attrs"} and Q.leaves(de) == {"attrs"},
              "summary and description both read the single line stream built from `attrs`: %s" % (len(s1) == 1 and s1 == s2), (f, bb))
    cap_ok = [r"^proc_macro2::Ident::new$", r"^proc_macro2::Span::call_site$"]  # the `doc` identifier captured by the line closure
    LINE = PLUMB + cap_ok + [r"Iterator::flat_map$", r"Iterator::next$"]        # a line of the stream, as it is
    bad = _only(sm, LINE)
    ctx.check(R, "doc:summary-is-a-whole-line", not bad and any(re.search(r"Iterator::next$", c) for c in Q.callees(sm)), "summary = %s%s" % (cap(Q.show(sm)), (" ; unexpected: %s" % bad) if bad else ""), (f, bb))
    is_stream = lambda t: len(s1) == 1 and streams(t) == s1 and not _only(t, LINE)
    accs = _accumulations(ep, q0, f, fr, de, is_stream)
    okf = len(accs) == 1
    detail = "accumulations (Iterator::fold / loop-carried text) in the description: %d" % len(accs)
    if okf:
        a = accs[0]
        # around the accumulation only whole-value plumbing (trim of trailing blanks, &str -> String); it starts from a whole line
        outer = Q.rewrite(de, lambda y: ("lit", '"<accumulated>"') if y == a["node"] else None)
        badd = _only(outer, LINE + [r"str::<impl str>::trim_end$"] + STR_CONV)
        init_ok = all(Q.strip_plumb(v)[0] == "item" and is_stream(Q.strip_plumb(v)[1]) for v in a["inits"])
        okf = is_stream(a["stream"]) and init_ok and not badd
        detail = "description = %s ; %s over the line stream: %s, starting from a whole line of it: %s%s" % (cap(Q.show(outer)), a["how"], is_stream(a["stream"]), init_ok, (" ; unexpected: %s" % badd) if badd else "")
    ctx.check(R, "doc:description-folds-the-remaining-lines", okf, detail, (f, bb))
    if len(accs) == 1 and accs[0]["losing"]:
        a = accs[0]
        nsteps, bad_arms = a["losing"]()
        ctx.check(R, "doc:fold-keeps-accumulator-and-line", not bad_arms,
                  "accumulation step (%s) arms: %d; arms losing text: %s" % (a["how"], nsteps, bad_arms or "none"), a["site"])
    else:
        ctx.lost(R, "the accumulation step (fold closure / loop body) of the description")
    # which attributes contribute lines
    fm = [x for x in Q.walk(sm) if x[0] == "call" and re.search(r"Iterator::flat_map$", x[1])]
    okc = False
    detail = "line-producing closure not found"
    if fm and len(fm[0][2]) == 2 and fm[0][2][1][0] == "closure" and fm[0][2][1][1] in ep.F:
        ret = q0.closure_ret(fr, fm[0][2][1], ("arg", 2))
        arms = Q.flat_arms(ret) if ret[0] == "alt" else []
        text = [(gs, v) for gs, v in arms if Q.leaves(v)]
        named = [gt for gs, v in text for gt, gv in gs if gt[0] == "call" and re.search(r"Path::is_ident$", gt[1]) and gv is True]
        okc = len(text) == 1 and any(re.search(r"LitStr::value$", c) for c in Q.callees(text[0][1])) and \
            len(named) == 1 and Q.lits(named[0]) == {"doc"} and \
            all(v[0] == "call" and re.search(r"Vec::<T>::new$", v[1]) for gs, v in arms if not Q.leaves(v))
        detail = "lines come from the string value of `doc = \"..\"` attributes only: %s" % okc
    ctx.check(R, "doc:only-doc-attributes-contribute", okc, detail, f)



def r9_declared_body_limit_is_the_effective_limit(ctx):
    """The declared `request_body_max_bytes` is carried into the endpoint by the macro (R2) and the builder (R3); what the
    server then *uses* is RequestContext::request_body_max_bytes() = override, else default — C11.R4, re-evaluated here
    because its violation is a C19 violation too (seed C19-D: the override could only raise the default)."""
    from . import c11
    from .lib_c01 import Renamed
    c11.r4_effective_limit(Renamed(ctx, "C19.R9", "the body limit written on the declaration is the limit enforced for that endpoint"))


def r10_document_uses_the_version_filter_everywhere(ctx):
    """`documented under the declared tags … for the versions it is declared for`: every scan of the endpoints made while generating
    the document for version v is filtered by v (operations and the top-level tag list alike).  This is C06.R1, re-evaluated here
    (adversary change C19-F collected ad hoc tags over endpoints(None))."""
    from . import c06
    from .lib_c01 import Renamed
    c06.r1_same_filter(Renamed(ctx, "C19.R10", "everything the document for version v says about endpoints (operations, tags) is drawn from the endpoints declared for v"))


def r11_tag_policy_as_declared(ctx):
    """`registered ... as declared`: the tag policy is applied to published endpoints only, with the table of (policy, number of tags,
    allow_other_tags) outcomes intact.  This is C02.R6, re-evaluated here (adversary change C19-H moved the tag-membership check above the
    `unpublished` exemption, so a valid unpublished declaration could not be registered)."""
    from . import c02
    from .lib_c01 import Renamed
    c02.r6_tag_policy(Renamed(ctx, "C19.R11", "a declaration's tags and `unpublished` flag are honoured by registration exactly as the tag policy table says"))


def r12_extension_declared_is_extension_documented(ctx):
    """`what is declared is what is documented`, quantified over extractor lists: the extension (pagination / websocket) declared by one of a
    handler's extractors is the extension_mode ApiEndpoint::new / new_for_types record for the operation, whatever the position of that
    extractor.  This is C07.R12, re-evaluated here (adversary change C19-G factored the merge of the extractors' ExtensionModes into a
    helper ending in `(_, y) => y`: a paginated Query followed by another extractor was documented without `x-dropshot-pagination`)."""
    from . import c07
    from .lib_c01 import Renamed
    c07.r12_extension_mode_merge(Renamed(ctx, "C19.R12", "the extension an extractor declares (pagination, websocket) is the extension documented for the operation, wherever that extractor stands among the handler's arguments"))


def r13_declared_content_type_is_documented_through_tuples(ctx):
    """`the content type on the declaration is what the document shows`: a handler's extractor tuple hands the declared body content type to
    every member's metadata(), so a TypedBody that follows a Query or Path is documented with the declared media type.  This is C07.R1,
    re-evaluated here (adversary change C19-I: the tuple impls passed Default::default() -- JSON -- to their members)."""
    from . import c07
    from .lib_c01 import Renamed
    c07.r1_type_parameter(Renamed(ctx, "C19.R13", "the declared body content type reaches the metadata of every member of the handler's extractor tuple, so the document shows it wherever the body stands among the arguments"))


def r14_declared_range_is_routed_by_the_request_version(ctx):
    """`the declared version range is what the server routes by`: the version the router selects a handler with is the request's version as
    resolved, unmodified.  This is C01.R2, re-evaluated here (adversary change C19-J: lookup_route rebuilt the version from major.minor.patch
    "to ignore build metadata", which also drops the pre-release tag, so 2.0.0-rc.1 was served by endpoints declared from 2.0.0)."""
    from . import c01
    from .lib_c01 import Renamed
    c01.r2_one_endpoint(Renamed(ctx, "C19.R14", "the handler is selected by matching the declared ranges against the request's own version, not against a version rebuilt from parts of it"))


def r15_declared_ranges_need_a_versioned_server(ctx):
    """`the version range written on a declaration is what the server routes by`: a server without a version policy routes every request
    as matching every range, so it refuses to start when any endpoint declares a range -- whatever was registered after it.  This is
    C01.R7, re-evaluated here (adversary change C19-K: the router's `has_versioned_routes` flag became a plain assignment reflecting only
    the last endpoint registered)."""
    from . import c01
    from .lib_c01 import Renamed
    c01.r7_versioned_routes_need_versioned_server(Renamed(ctx, "C19.R15", "a declaration with a `versions` range is never served by a server that cannot tell versions apart: the router records it stickily and an unversioned server refuses it"))


def r16_overlapping_declarations_are_refused(ctx):
    """`the version range written on a declaration is what the server routes by`: two declarations for the same path and method whose
    ranges share a version are refused at registration, so no request can be routed to a declaration other than the one whose range it
    is in.  This is C05.E2, re-evaluated here (adversary change C19-N: the From-vs-FromUntil arms of overlaps_with lost `x <= a ||`, so
    `"1.0.0"..` and `"2.0.0".."3.0.0"` both registered and the first one answered 2.5.0)."""
    from . import c05
    from .lib_c01 import Renamed
    c05.e2_overlaps(Renamed(ctx, "C19.R16", "overlaps_with(r1, r2) holds exactly when some version lies in both declared ranges, for every pair of range kinds and every order of their bounds"))


RULES = [("C19.R16", r16_overlapping_declarations_are_refused), ("C19.R15", r15_declared_ranges_need_a_versioned_server), ("C19.R14", r14_declared_range_is_routed_by_the_request_version), ("C19.R13", r13_declared_content_type_is_documented_through_tuples), ("C19.R12", r12_extension_declared_is_extension_documented), ("C19.R11", r11_tag_policy_as_declared), ("C19.R10", r10_document_uses_the_version_filter_everywhere), ("C19.R9", r9_declared_body_limit_is_the_effective_limit), ("C19.R1", r1_one_producer), ("C19.R2a", r2a_validate), ("C19.R2b", r2b_emission), ("C19.R3", r3_builders),
         ("C19.R4", r4_new_vs_stub), ("C19.R5", r5_tables), ("C19.R6", r6_document), ("C19.R7", r7_versions), ("C19.R8", r8_doc_lines)]

_M = "dropshot_endpoint/src/metadata.rs"
_A = "dropshot/src/api_description.rs"
SELFTEST = [
    # ---------------------------------------------------------------- mutants
    {"name": "deprecated-not-interpolated", "kind": "mutant", "expect": ["C19.R2b"],
     "edits": [(_M, "            #visible\n            #deprecated\n", "            #visible\n")],
     "why": "† `deprecated = true` on a declaration no longer reaches the ApiEndpoint: the document never marks the operation deprecated"},
    {"name": "visible-true", "kind": "mutant", "expect": ["C19.R2b"],
     "edits": [(_M, "quote_spanned! {span=> .visible(false) }", "quote_spanned! {span=> .visible(true) }")],
     "why": "† `unpublished = true` emits .visible(true): the endpoint stays in the document"},
    {"name": "channel-unpublished-dropped", "kind": "mutant", "expect": ["C19.R2a"],
     "edits": [(_M, "                tags,\n                unpublished,\n                deprecated,\n                content_type: ValidContentType::ApplicationJson,",
                "                tags,\n                unpublished: false,\n                deprecated,\n                content_type: ValidContentType::ApplicationJson,")],
     "why": "† a channel's `unpublished` argument is accepted and silently ignored"},
    {"name": "stub-hardcodes-json", "kind": "mutant", "expect": ["C19.R4"],
     "edits": [(_A, "        let func_parameters = FuncParams::metadata(body_content_type.clone());\n        let response = <ResultType::Response>::response_metadata();",
                "        let body_content_type = ApiEndpointBodyContentType::Json;\n        let func_parameters = FuncParams::metadata(body_content_type.clone());\n        let response = <ResultType::Response>::response_metadata();")],
     "why": "† the stub (trait) description documents a JSON body whatever content_type was declared: real and stub documents differ"},
    {"name": "summary-from-description", "kind": "mutant", "expect": ["C19.R2b"],
     "edits": [(_M, "let summary = doc.summary.as_ref().map(|summary| {", "let summary = doc.description.as_ref().map(|summary| {")],
     "why": "† the description text is emitted as the summary; the summary text is lost"},
    {"name": "builder-visible-negated", "kind": "mutant", "expect": ["C19.R3"],
     "edits": [(_A, "        self.visible = visible;", "        self.visible = !visible;")],
     "why": "the builder stores the opposite of what the macro passes"},
    {"name": "factory-channel-kind-fixed", "kind": "mutant", "expect": ["C19.R1"],
     "edits": [("dropshot_endpoint/src/api_trait.rs", "Some(c.to_api_endpoint(&self.dropshot, kind))", "Some(c.to_api_endpoint(&self.dropshot, FactoryKind::Regular))")],
     "why": "† the stub factory builds channels with the real-handler constructor: stub and real factories no longer mirror each other"},
    {"name": "document-drops-deprecated", "kind": "mutant", "expect": ["C19.R6"],
     "edits": [(_A, "            operation.deprecated = endpoint.deprecated;\n", "")],
     "why": "† the deprecated flag is stored on the endpoint but never shown in the document"},
    {"name": "document-summary-from-description", "kind": "mutant", "expect": ["C19.R6"],
     "edits": [(_A, "operation.summary.clone_from(&endpoint.summary);", "operation.summary.clone_from(&endpoint.description);")],
     "why": "† the document's summary shows the description text"},
    {"name": "from-arm-emits-until", "kind": "mutant", "expect": ["C19.R7"],
     "edits": [(_M, "                    #dropshot::ApiEndpointVersions::From(\n", "                    #dropshot::ApiEndpointVersions::Until(\n")],
     "why": "† (DESIGN C05) `versions = \"1.0.0\"..` is served *until* 1.0.0 instead of from it"},
    {"name": "from-until-bounds-swapped", "kind": "mutant", "expect": ["C19.R7"],
     "edits": [(_M, "                        #x,\n                        #y,\n", "                        #y,\n                        #x,\n")],
     "why": "`a..b` registers from_until(b, a): panics at registration or serves the wrong range"},
    {"name": "literal-order-check-too-strict", "kind": "mutant", "expect": ["C19.R7"],
     "edits": [(_M, "if latest_semver < earliest_semver {", "if latest_semver <= earliest_semver {")],
     "why": "† the one-version range \"1.0.0\"..\"1.0.0\" is refused although dropshot defines it as exactly 1.0.0"},
    {"name": "mime-typo-in-macro", "kind": "mutant", "expect": ["C19.R5"],
     "edits": [("dropshot_endpoint/src/util.rs", "pub(crate) const MULTIPART_FORM_DATA: &str = \"multipart/form-data\";", "pub(crate) const MULTIPART_FORM_DATA: &str = \"multipart/formdata\";")],
     "why": "the macro accepts and emits a content type string that ApiEndpoint::new panics on"},
    {"name": "operation-id-ignored", "kind": "mutant", "expect": ["C19.R2b"],
     "edits": [(_M, "        let operation_id =\n            self.operation_id.as_deref().unwrap_or(endpoint_name);", "        let operation_id = endpoint_name;")],
     "why": "† an explicit `operation_id = \"..\"` is ignored; the function name is always used"},
    {"name": "validate-crosswires-flags", "kind": "mutant", "expect": ["C19.R2a"],
     "edits": [(_M, "                deprecated,\n                request_body_max_bytes: request_body_max_bytes", "                deprecated: unpublished,\n                request_body_max_bytes: request_body_max_bytes")],
     "why": "† `deprecated` is replaced by the value of `unpublished` during validation"},
    {"name": "trait-doc-from-other-attrs", "kind": "mutant", "expect": ["C19.R1"],
     "edits": [("dropshot_endpoint/src/api_trait.rs", "        let doc = ExtractedDoc::from_attrs(&self.f.attrs);\n\n        let endpoint_fn =\n            self.metadata.to_api_endpoint_fn(dropshot, &name_str, kind, &doc);\n\n        // Note that we use name_str (string) rather than name (ident) here\n        // because we deliberately want to lose the span information. If we\n        // don't do that, then rust-analyzer will get confused and believe that\n        // the name is both a method and a variable.\n        //\n        // Note that there isn't any possible variable name collision here,\n        // since all names are prefixed with \"endpoint_\".\n        let endpoint_name = format_ident!(\"endpoint_{}\", name_str);\n\n        quote_spanned! {self.attr.span()=>\n            {\n                let #endpoint_name = #endpoint_fn;\n                if let Err(error) = dropshot_api.register(#endpoint_name) {\n                    dropshot_errors.push(error);\n                }\n            }\n        }\n    }\n}\n\nfn parse_channel_metadata(",
                "        let doc = ExtractedDoc::from_attrs(std::slice::from_ref(self.attr));\n\n        let endpoint_fn =\n            self.metadata.to_api_endpoint_fn(dropshot, &name_str, kind, &doc);\n\n        let endpoint_name = format_ident!(\"endpoint_{}\", name_str);\n\n        quote_spanned! {self.attr.span()=>\n            {\n                let #endpoint_name = #endpoint_fn;\n                if let Err(error) = dropshot_api.register(#endpoint_name) {\n                    dropshot_errors.push(error);\n                }\n            }\n        }\n    }\n}\n\nfn parse_channel_metadata(")],
     "why": "† trait-form endpoints lose their doc comment (summary/description taken from the #[endpoint] attribute only): trait and function forms document differently"},
    {"name": "method-table-crossed", "kind": "mutant", "expect": ["C19.R5"],
     "edits": [(_M, "            MethodType::PUT => \"PUT\",", "            MethodType::PUT => \"POST\",")],
     "why": "† `method = PUT` registers and documents a POST endpoint"},
    {"name": "stub-path-from-operation-id", "kind": "mutant", "expect": ["C19.R2b"],
     "edits": [(_M, "                        #content_type,\n                        #path,\n                        #versions,\n                    )\n                }\n            }\n        };",
                "                        #content_type,\n                        #operation_id,\n                        #versions,\n                    )\n                }\n            }\n        };")],
     "why": "† the stub description lists the endpoint under a different path than the real one"},
    {"name": "channel-name-from-adapter", "kind": "mutant", "expect": ["C19.R1"],
     "edits": [("dropshot_endpoint/src/channel.rs", "                metadata.to_api_endpoint_fn(\n                    &dropshot,\n                    &name_str,", "                metadata.to_api_endpoint_fn(\n                    &dropshot,\n                    &params.adapter_name.to_string(),")],
     "why": "† a function-form channel's default operation id becomes the generated adapter's name, unlike the trait form"},
    {"name": "doc-fold-drops-line", "kind": "mutant", "expect": ["C19.R8"],
     "edits": [("dropshot_endpoint/src/doc.rs", "                        format!(\"{} {}\", acc, comment)", "                        format!(\"{} \", acc)")],
     "why": "† every ordinary continuation line of a doc comment is dropped from the description"},
    # ---------------------------------------------------------------- benign variants
    {"name": "doc-fold-renamed", "kind": "benign",
     "edits": [("dropshot_endpoint/src/doc.rs", "                .fold(first, |acc, comment| {\n                    if acc.ends_with('-')\n                        || acc.ends_with('\\n')\n                        || acc.is_empty()\n                    {\n                        // Continuation lines and newlines.\n                        format!(\"{}{}\", acc, comment)",
                "                .fold(first, |acc, comment| {\n                    if acc.is_empty()\n                        || acc.ends_with('\\n')\n                        || acc.ends_with('-')\n                    {\n                        format!(\"{acc}{comment}\")")],
     "why": "behaviour-preserving: the or-ed conditions reordered and inline format arguments used"},
    {"name": "rename-locals", "kind": "benign",
     "edits": [(_M, "        let visible = self.unpublished.then(|| {", "        let hide_tokens = self.unpublished.then(|| {"), (_M, "            #visible\n", "            #hide_tokens\n")],
     "why": "behaviour-preserving: a local is renamed"},
    {"name": "then-to-if-else", "kind": "benign",
     "edits": [(_M, "        let deprecated = self.deprecated.then(|| {\n            quote_spanned! {span=> .deprecated(true) }\n        });",
                "        let deprecated = if self.deprecated {\n            Some(quote_spanned! {span=> .deprecated(true) })\n        } else {\n            None\n        };")],
     "why": "behaviour-preserving: bool::then(closure) written as if/else producing Some/None"},
    {"name": "unwrap-or-to-match", "kind": "benign",
     "edits": [(_M, "        let operation_id =\n            self.operation_id.as_deref().unwrap_or(endpoint_name);",
                "        let operation_id = match self.operation_id.as_deref() {\n            Some(id) => id,\n            None => endpoint_name,\n        };")],
     "why": "behaviour-preserving: unwrap_or written as a match"},
    {"name": "reorder-independent-lets", "kind": "benign",
     "edits": [(_M, "        let path = &self.path;\n        let content_type = self.content_type;\n", "        let content_type = self.content_type;\n        let path = &self.path;\n")],
     "why": "behaviour-preserving: two independent statements swapped"},
    {"name": "commuted-order-check", "kind": "benign",
     "edits": [(_M, "if latest_semver < earliest_semver {", "if earliest_semver > latest_semver {")],
     "why": "behaviour-preserving: a < b written as b > a"},
    {"name": "builder-struct-update", "kind": "benign",
     "edits": [(_A, "        self.visible = visible;\n        self\n", "        ApiEndpoint { visible, ..self }\n")],
     "why": "behaviour-preserving: field assignment written as functional record update"},
    {"name": "document-assign-clone", "kind": "benign",
     "edits": [(_A, "operation.summary.clone_from(&endpoint.summary);", "operation.summary = endpoint.summary.clone();")],
     "why": "behaviour-preserving: clone_from written as assignment of a clone"},
    {"name": "versions-default-as-match", "kind": "benign",
     "edits": [(_M, "                versions: versions\n                    .map(|h| h.into_inner())\n                    .unwrap_or(VersionRange::All),\n            })\n        } else {\n            unreachable!",
                "                versions: match versions {\n                    Some(h) => h.into_inner(),\n                    None => VersionRange::All,\n                },\n            })\n        } else {\n            unreachable!")],
     "why": "behaviour-preserving: map/unwrap_or written as a match"},
    {"name": "versions-helper-extracted", "kind": "benign",
     "edits": [(_M, "        let versions = match &self.versions {\n            VersionRange::All => {\n                quote_spanned! {span=> #dropshot::ApiEndpointVersions::All }\n            }",
                "        let versions = match &self.versions {\n            VersionRange::All => all_versions(span, dropshot),"),
               (_M, "fn semver_parts(x: &semver::Version) -> (u64, u64, u64) {",
                "fn all_versions(span: proc_macro2::Span, dropshot: &TokenStream) -> TokenStream {\n    quote_spanned! {span=> #dropshot::ApiEndpointVersions::All }\n}\n\nfn semver_parts(x: &semver::Version) -> (u64, u64, u64) {")],
     "why": "behaviour-preserving: one match arm's quote! moved into a helper function"},
    {"name": "visible-compared-with-false", "kind": "benign",
     "edits": [(_A, "            if !endpoint.visible {\n                continue;\n            }\n            let path = openapi.paths.paths.entry(path)",
                "            if endpoint.visible == false {\n                continue;\n            }\n            let path = openapi.paths.paths.entry(path)")],
     "why": "behaviour-preserving: !b written as b == false"},
    {"name": "mime-match-as-if-chain", "kind": "benign",
     "edits": [(_A, "        match mime_type {\n            CONTENT_TYPE_OCTET_STREAM => Ok(Self::Bytes),\n            CONTENT_TYPE_JSON => Ok(Self::Json),\n            CONTENT_TYPE_URL_ENCODED => Ok(Self::UrlEncoded),\n            CONTENT_TYPE_MULTIPART_FORM_DATA => Ok(Self::MultipartFormData),\n            _ => Err(mime_type.to_string()),\n        }",
                "        if mime_type == CONTENT_TYPE_OCTET_STREAM {\n            Ok(Self::Bytes)\n        } else if mime_type == CONTENT_TYPE_JSON {\n            Ok(Self::Json)\n        } else if mime_type == CONTENT_TYPE_URL_ENCODED {\n            Ok(Self::UrlEncoded)\n        } else if mime_type == CONTENT_TYPE_MULTIPART_FORM_DATA {\n            Ok(Self::MultipartFormData)\n        } else {\n            Err(mime_type.to_string())\n        }")],
     "why": "behaviour-preserving: match on string constants written as an if/else-if chain"},
    {"name": "rename-producer-and-ctor-params", "kind": "benign",
     "edits": [(_M, "        dropshot: &TokenStream,\n        endpoint_name: &str,\n        kind: &ApiEndpointKind<'_>,\n        doc: &ExtractedDoc,\n    ) -> TokenStream {\n        let path = &self.path;",
                "        dropshot: &TokenStream,\n        fn_name: &str,\n        which: &ApiEndpointKind<'_>,\n        docs: &ExtractedDoc,\n    ) -> TokenStream {\n        let (endpoint_name, kind, doc) = (fn_name, which, docs);\n        let path = &self.path;"),
               (_A, "    pub fn new_for_types<FuncParams, ResultType>(\n        operation_id: String,\n        method: Method,\n        content_type: &'a str,",
                "    pub fn new_for_types<FuncParams, ResultType>(\n        operation_id: String,\n        method: Method,\n        mime: &'a str,"),
               (_A, "        let body_content_type =\n            ApiEndpointBodyContentType::from_mime_type(content_type)\n                .expect(\"unsupported mime type\");\n        let func_parameters = FuncParams::metadata(body_content_type.clone());\n        let response = <ResultType::Response>::response_metadata();",
                "        let content_type = mime;\n        let body_content_type =\n            ApiEndpointBodyContentType::from_mime_type(content_type)\n                .expect(\"unsupported mime type\");\n        let func_parameters = FuncParams::metadata(body_content_type.clone());\n        let response = <ResultType::Response>::response_metadata();")],
     "why": "behaviour-preserving: parameters of the producer and of new_for_types renamed"},
    {"name": "document-slot-assigned", "kind": "benign",
     "edits": [(_A, "            method_ref.replace(operation);", "            *method_ref = Some(operation);")],
     "why": "behaviour-preserving: Option::replace written as an assignment of Some(..)"},
    # ---- shapes taken from the independent benign corpus (benign/C19-R1..R4, C19-X1)
    {"name": "tags-collected-by-for-loop", "kind": "benign",
     "edits": [(_M, "        let tags = self\n            .tags\n            .iter()\n            .map(|tag| {\n                quote_spanned! {span=> .tag(#tag) }\n            })\n            .collect::<Vec<_>>();",
                "        let mut tags = Vec::with_capacity(self.tags.len());\n        for tag in &self.tags {\n            tags.push(quote_spanned! {span=> .tag(#tag) });\n        }")],
     "why": "behaviour-preserving: iter().map(..).collect() written as a for loop pushing into a vector (one token stream created per iteration)"},
    {"name": "body-limit-helper-with-question-mark", "kind": "benign",
     "edits": [(_M, "        let request_body_max_bytes =\n            self.request_body_max_bytes.as_ref().map(|max_bytes| {\n                quote_spanned! {span=> .request_body_max_bytes(#max_bytes) }\n            });",
                "        let request_body_max_bytes = self.body_limit_call(span);"),
               (_M, "impl ValidatedEndpointMetadata {\n    pub(crate) fn to_api_endpoint_fn(",
                "impl ValidatedEndpointMetadata {\n    fn body_limit_call(&self, span: proc_macro2::Span) -> Option<TokenStream> {\n        let max_bytes = self.request_body_max_bytes.as_ref()?;\n        Some(quote_spanned! {span=> .request_body_max_bytes(#max_bytes) })\n    }\n\n    pub(crate) fn to_api_endpoint_fn(")],
     "why": "behaviour-preserving: Option::map(closure) moved into a helper method written with `?` and Some(..)"},
    {"name": "literal-order-check-in-helper", "kind": "benign",
     "edits": [(_M, "                // If both endpoints are literals, we can check if they're\n                // in the right order.\n                if let (\n                    VersionSpecifier::Literal(earliest_semver),\n                    VersionSpecifier::Literal(latest_semver),\n                ) = (&earliest, &latest)\n                {\n                    let span = dotdot.to_token_stream();\n                    if latest_semver < earliest_semver {\n                        return Err(syn::Error::new_spanned(\n                            span,\n                            format!(\n                                \"\\\"from\\\" version ({}) must be earlier than \\\n                                 \\\"until\\\" version ({})\",\n                                earliest_semver, latest_semver,\n                            ),\n                        ));\n                    }\n                }\n",
                "                check_literal_order(&dotdot, &earliest, &latest)?;\n"),
               (_M, "fn parse_semver(v: &syn::LitStr) -> syn::Result<semver::Version> {",
                "fn check_literal_order(\n    dotdot: &syn::Token![..],\n    from: &VersionSpecifier,\n    until: &VersionSpecifier,\n) -> syn::Result<()> {\n    match (from, until) {\n        (VersionSpecifier::Literal(a), VersionSpecifier::Literal(b)) if a > b => Err(syn::Error::new_spanned(\n            dotdot.to_token_stream(),\n            format!(\"\\\"from\\\" version ({}) must be earlier than \\\"until\\\" version ({})\", a, b),\n        )),\n        _ => Ok(()),\n    }\n}\n\nfn parse_semver(v: &syn::LitStr) -> syn::Result<semver::Version> {")],
     "why": "behaviour-preserving: the both-literals ordering check moved into a helper returning Result<()> (match with a guard, `from > until`), propagated with `?`"},
    {"name": "doc-fold-as-loop", "kind": "benign",
     "edits": [("dropshot_endpoint/src/doc.rs", "            lines\n                .fold(first, |acc, comment| {\n                    if acc.ends_with('-')\n                        || acc.ends_with('\\n')\n                        || acc.is_empty()\n                    {\n                        // Continuation lines and newlines.\n                        format!(\"{}{}\", acc, comment)\n                    } else if comment.is_empty() {\n                        // Blank lines get a markdown paragraph break (unless\n                        // acc already ends in '\\n' -- see above)\n                        format!(\"{}\\n\\n\", acc)\n                    } else {\n                        // Default to space-separating comment fragments.\n                        format!(\"{} {}\", acc, comment)\n                    }\n                })\n                .trim_end()\n                .to_string()",
                "            let mut acc = first;\n            while let Some(comment) = lines.next() {\n                acc = if acc.ends_with('-')\n                    || acc.ends_with('\\n')\n                    || acc.is_empty()\n                {\n                    format!(\"{}{}\", acc, comment)\n                } else if comment.is_empty() {\n                    format!(\"{}\\n\\n\", acc)\n                } else {\n                    format!(\"{} {}\", acc, comment)\n                };\n            }\n            acc.trim_end().to_owned()")],
     "why": "behaviour-preserving: Iterator::fold written as a loop over the same iterator with a loop-carried accumulator; to_string -> to_owned"},
    {"name": "stub-path-string-from", "kind": "benign",
     "edits": [(_A, "            handler,\n            method,\n            path: path.to_string(),", "            handler,\n            method,\n            path: String::from(path),")],
     "why": "behaviour-preserving: &str -> String by String::from in one constructor and to_string in the other"},
    {"name": "trait-kind-built-then-one-call", "kind": "benign",
     "edits": [("dropshot_endpoint/src/api_trait.rs", "                let path_to_name = quote_spanned! {self.attr.span()=>\n                    <ServerImpl as #trait_ident>::#name\n                };\n                self.to_api_endpoint_impl(\n                    dropshot,\n                    &ApiEndpointKind::Regular(&path_to_name),\n                )\n            }\n            FactoryKind::Stub => {\n                let extractor_types = self.params.extractor_types().collect();\n                let ret_ty = self.params.ret_ty;\n                self.to_api_endpoint_impl(\n                    dropshot,\n                    &ApiEndpointKind::Stub {\n                        attr: &self.attr,\n                        extractor_types,\n                        ret_ty,\n                    },\n                )\n            }\n        }\n",
                "                path_to_name = quote_spanned! {self.attr.span()=>\n                    <ServerImpl as #trait_ident>::#name\n                };\n                ApiEndpointKind::Regular(&path_to_name)\n            }\n            FactoryKind::Stub => {\n                let extractor_types = self.params.extractor_types().collect();\n                let ret_ty = self.params.ret_ty;\n                ApiEndpointKind::Stub {\n                    attr: &self.attr,\n                    extractor_types,\n                    ret_ty,\n                }\n            }\n        };\n        self.to_api_endpoint_impl(dropshot, &endpoint_kind)\n"),
               ("dropshot_endpoint/src/api_trait.rs", "        match kind {\n            FactoryKind::Regular => {\n                let name = &self.f.sig.ident;\n                let trait_ident = self.trait_ident;\n",
                "        let path_to_name;\n        let endpoint_kind = match kind {\n            FactoryKind::Regular => {\n                let name = &self.f.sig.ident;\n                let trait_ident = self.trait_ident;\n")],
     "why": "behaviour-preserving: the two match arms build the ApiEndpointKind and one shared call follows the match"},
    # ---- the same shapes must not blunt the rules: mutants written on top of a refactored form
    {"name": "for-loop-tags-from-path", "kind": "mutant", "expect": ["C19.R2b"],
     "edits": [(_M, "        let tags = self\n            .tags\n            .iter()\n            .map(|tag| {\n                quote_spanned! {span=> .tag(#tag) }\n            })\n            .collect::<Vec<_>>();",
                "        let mut tags = Vec::with_capacity(self.tags.len());\n        for tag in &self.tags {\n            if !tag.is_empty() {\n                tags.push(quote_spanned! {span=> .tag(#tag) });\n            }\n        }")],
     "why": "† (for-loop form) empty tags are silently dropped from the registration"},
    {"name": "helper-order-check-result-ignored", "kind": "mutant", "expect": ["C19.R7"],
     "edits": [(_M, "                // If both endpoints are literals, we can check if they're\n                // in the right order.\n                if let (\n                    VersionSpecifier::Literal(earliest_semver),\n                    VersionSpecifier::Literal(latest_semver),\n                ) = (&earliest, &latest)\n                {\n                    let span = dotdot.to_token_stream();\n                    if latest_semver < earliest_semver {\n                        return Err(syn::Error::new_spanned(\n                            span,\n                            format!(\n                                \"\\\"from\\\" version ({}) must be earlier than \\\n                                 \\\"until\\\" version ({})\",\n                                earliest_semver, latest_semver,\n                            ),\n                        ));\n                    }\n                }\n",
                "                let _ = check_literal_order(&dotdot, &earliest, &latest);\n"),
               (_M, "fn parse_semver(v: &syn::LitStr) -> syn::Result<semver::Version> {",
                "fn check_literal_order(\n    dotdot: &syn::Token![..],\n    from: &VersionSpecifier,\n    until: &VersionSpecifier,\n) -> syn::Result<()> {\n    match (from, until) {\n        (VersionSpecifier::Literal(a), VersionSpecifier::Literal(b)) if a > b => Err(syn::Error::new_spanned(\n            dotdot.to_token_stream(),\n            format!(\"\\\"from\\\" version ({}) must be earlier than \\\"until\\\" version ({})\", a, b),\n        )),\n        _ => Ok(()),\n    }\n}\n\nfn parse_semver(v: &syn::LitStr) -> syn::Result<semver::Version> {")],
     "why": "† (helper form) the ordering check's verdict is discarded: `\"2.0.0\"..\"1.0.0\"` is accepted and panics at registration"},
    {"name": "loop-fold-drops-line", "kind": "mutant", "expect": ["C19.R8"],
     "edits": [("dropshot_endpoint/src/doc.rs", "            lines\n                .fold(first, |acc, comment| {\n                    if acc.ends_with('-')\n                        || acc.ends_with('\\n')\n                        || acc.is_empty()\n                    {\n                        // Continuation lines and newlines.\n                        format!(\"{}{}\", acc, comment)\n                    } else if comment.is_empty() {\n                        // Blank lines get a markdown paragraph break (unless\n                        // acc already ends in '\\n' -- see above)\n                        format!(\"{}\\n\\n\", acc)\n                    } else {\n                        // Default to space-separating comment fragments.\n                        format!(\"{} {}\", acc, comment)\n                    }\n                })\n                .trim_end()\n                .to_string()",
                "            let mut acc = first;\n            while let Some(comment) = lines.next() {\n                acc = if acc.ends_with('-')\n                    || acc.ends_with('\\n')\n                    || acc.is_empty()\n                {\n                    format!(\"{}{}\", acc, comment)\n                } else if comment.is_empty() {\n                    format!(\"{}\\n\\n\", acc)\n                } else {\n                    format!(\"{} \", acc)\n                };\n            }\n            acc.trim_end().to_owned()")],
     "why": "† (loop form) every ordinary continuation line of a doc comment is dropped from the description"},
    # ---- shapes of the second independent corpus (benign/C19-R5..R8, C10-R8), each with a mutant written on top of the refactored form
    {'name': 'doc-accumulated-in-place', 'kind': 'benign', 'edits': [('dropshot_endpoint/src/doc.rs', '            lines\n                .fold(first, |acc, comment| {\n                    if acc.ends_with(\'-\')\n                        || acc.ends_with(\'\\n\')\n                        || acc.is_empty()\n                    {\n                        // Continuation lines and newlines.\n                        format!("{}{}", acc, comment)\n                    } else if comment.is_empty() {\n                        // Blank lines get a markdown paragraph break (unless\n                        // acc already ends in \'\\n\' -- see above)\n                        format!("{}\\n\\n", acc)\n                    } else {\n                        // Default to space-separating comment fragments.\n                        format!("{} {}", acc, comment)\n                    }\n                })\n                .trim_end()\n                .to_string()', '            let mut acc = first;\n            for comment in lines {\n                if matches!(acc.chars().next_back(), None | Some(\'-\' | \'\\n\')) {\n                    acc.push_str(&comment);\n                } else if comment.is_empty() {\n                    acc.push_str("\\n\\n");\n                } else {\n                    acc.push(\' \');\n                    acc.push_str(&comment);\n                }\n            }\n            acc.trim_end().to_string()')], 'why': 'behaviour-preserving: the fold written as a `for` loop appending to the accumulator in place (push_str / push), the three-way test as one matches! on the last char'},
    {'name': 'in-place-loop-drops-line', 'kind': 'mutant', 'expect': ['C19.R8'], 'edits': [('dropshot_endpoint/src/doc.rs', '            lines\n                .fold(first, |acc, comment| {\n                    if acc.ends_with(\'-\')\n                        || acc.ends_with(\'\\n\')\n                        || acc.is_empty()\n                    {\n                        // Continuation lines and newlines.\n                        format!("{}{}", acc, comment)\n                    } else if comment.is_empty() {\n                        // Blank lines get a markdown paragraph break (unless\n                        // acc already ends in \'\\n\' -- see above)\n                        format!("{}\\n\\n", acc)\n                    } else {\n                        // Default to space-separating comment fragments.\n                        format!("{} {}", acc, comment)\n                    }\n                })\n                .trim_end()\n                .to_string()', '            let mut acc = first;\n            for comment in lines {\n                if matches!(acc.chars().next_back(), None | Some(\'-\' | \'\\n\')) {\n                    acc.push_str(&comment);\n                } else if comment.is_empty() {\n                    acc.push_str("\\n\\n");\n                } else {\n                    acc.push(\' \');\n                }\n            }\n            acc.trim_end().to_string()')], 'why': '† (in-place form) every ordinary continuation line of a doc comment is dropped from the description'},
    {'name': 'in-place-loop-clears-accumulator', 'kind': 'mutant', 'expect': ['C19.R8'], 'edits': [('dropshot_endpoint/src/doc.rs', '            lines\n                .fold(first, |acc, comment| {\n                    if acc.ends_with(\'-\')\n                        || acc.ends_with(\'\\n\')\n                        || acc.is_empty()\n                    {\n                        // Continuation lines and newlines.\n                        format!("{}{}", acc, comment)\n                    } else if comment.is_empty() {\n                        // Blank lines get a markdown paragraph break (unless\n                        // acc already ends in \'\\n\' -- see above)\n                        format!("{}\\n\\n", acc)\n                    } else {\n                        // Default to space-separating comment fragments.\n                        format!("{} {}", acc, comment)\n                    }\n                })\n                .trim_end()\n                .to_string()', '            let mut acc = first;\n            for comment in lines {\n                if matches!(acc.chars().next_back(), None | Some(\'-\' | \'\\n\')) {\n                    acc.push_str(&comment);\n                } else if comment.is_empty() {\n                    acc.clear();\n                    acc.push_str("\\n\\n");\n                } else {\n                    acc.push(\' \');\n                    acc.push_str(&comment);\n                }\n            }\n            acc.trim_end().to_string()')], 'why': '† (in-place form) a blank line discards everything accumulated before it'},
    {'name': 'builder-calls-chained', 'kind': 'benign', 'edits': [('dropshot_endpoint/src/metadata.rs', '        let tags = self\n            .tags\n            .iter()\n            .map(|tag| {\n                quote_spanned! {span=> .tag(#tag) }\n            })\n            .collect::<Vec<_>>();\n', '        let tags = self.tags.iter().map(|tag| {\n            quote_spanned! {span=> .tag(#tag) }\n        });\n'), ('dropshot_endpoint/src/metadata.rs', '            #fn_call\n            #summary\n            #description\n            #(#tags)*\n            #visible\n            #deprecated\n            #request_body_max_bytes\n', '            #fn_call\n            #(#builder_calls)*\n'), ('dropshot_endpoint/src/metadata.rs', '        let fn_call = match kind {\n', '        let builder_calls: Vec<TokenStream> = summary\n            .into_iter()\n            .chain(description)\n            .chain(tags)\n            .chain(visible)\n            .chain(deprecated)\n            .chain(request_body_max_bytes)\n            .collect();\n\n        let fn_call = match kind {\n')], 'why': 'behaviour-preserving: the six optional builder-call interpolations chained into one Vec and emitted by one repetition (same tokens, same order)'},
    {'name': 'chained-builder-calls-omit-deprecated', 'kind': 'mutant', 'expect': ['C19.R2b'], 'edits': [('dropshot_endpoint/src/metadata.rs', '        let tags = self\n            .tags\n            .iter()\n            .map(|tag| {\n                quote_spanned! {span=> .tag(#tag) }\n            })\n            .collect::<Vec<_>>();\n', '        let tags = self.tags.iter().map(|tag| {\n            quote_spanned! {span=> .tag(#tag) }\n        });\n'), ('dropshot_endpoint/src/metadata.rs', '            #fn_call\n            #summary\n            #description\n            #(#tags)*\n            #visible\n            #deprecated\n            #request_body_max_bytes\n', '            #fn_call\n            #(#builder_calls)*\n'), ('dropshot_endpoint/src/metadata.rs', '        let fn_call = match kind {\n', '        let _ = &deprecated;\n        let builder_calls: Vec<TokenStream> = summary\n            .into_iter()\n            .chain(description)\n            .chain(tags)\n            .chain(visible)\n            .chain(request_body_max_bytes)\n            .collect();\n\n        let fn_call = match kind {\n')], 'why': '† (chained form) `deprecated = true` is left out of the chain and never reaches the ApiEndpoint'},
    {'name': 'parse-semver-as-match', 'kind': 'benign', 'edits': [('dropshot_endpoint/src/metadata.rs', 'fn parse_semver(v: &syn::LitStr) -> syn::Result<semver::Version> {\n    v.value()\n        .parse::<semver::Version>()\n        .map_err(|e| {\n            syn::Error::new_spanned(v, format!("expected semver: {}", e))\n        })\n        .and_then(|s| {\n            if s.pre == semver::Prerelease::EMPTY {\n                Ok(s)\n            } else {\n                Err(syn::Error::new_spanned(\n                    v,\n                    String::from(\n                        "semver pre-release string is not supported here",\n                    ),\n                ))\n            }\n        })\n        .and_then(|s| {\n            if s.build == semver::BuildMetadata::EMPTY {\n                Ok(s)\n            } else {\n                Err(syn::Error::new_spanned(\n                    v,\n                    String::from("semver build metadata is not supported here"),\n                ))\n            }\n        })\n}\n\n', 'fn parse_semver(v: &syn::LitStr) -> syn::Result<semver::Version> {\n    let parsed = match v.value().parse::<semver::Version>() {\n        Ok(parsed) => parsed,\n        Err(e) => {\n            return Err(syn::Error::new_spanned(v, format!("expected semver: {}", e)));\n        }\n    };\n    let unsupported = if !parsed.pre.is_empty() {\n        Some("semver pre-release string is not supported here")\n    } else if !parsed.build.is_empty() {\n        Some("semver build metadata is not supported here")\n    } else {\n        None\n    };\n    match unsupported {\n        Some(msg) => Err(syn::Error::new_spanned(v, msg)),\n        None => Ok(parsed),\n    }\n}\n\n')], 'why': 'behaviour-preserving: map_err/and_then chain written as a match with early return, then one selected error message; `== EMPTY` as is_empty()'},
    {'name': 'match-form-accepts-build-metadata', 'kind': 'mutant', 'expect': ['C19.R7'], 'edits': [('dropshot_endpoint/src/metadata.rs', 'fn parse_semver(v: &syn::LitStr) -> syn::Result<semver::Version> {\n    v.value()\n        .parse::<semver::Version>()\n        .map_err(|e| {\n            syn::Error::new_spanned(v, format!("expected semver: {}", e))\n        })\n        .and_then(|s| {\n            if s.pre == semver::Prerelease::EMPTY {\n                Ok(s)\n            } else {\n                Err(syn::Error::new_spanned(\n                    v,\n                    String::from(\n                        "semver pre-release string is not supported here",\n                    ),\n                ))\n            }\n        })\n        .and_then(|s| {\n            if s.build == semver::BuildMetadata::EMPTY {\n                Ok(s)\n            } else {\n                Err(syn::Error::new_spanned(\n                    v,\n                    String::from("semver build metadata is not supported here"),\n                ))\n            }\n        })\n}\n\n', 'fn parse_semver(v: &syn::LitStr) -> syn::Result<semver::Version> {\n    let parsed = match v.value().parse::<semver::Version>() {\n        Ok(parsed) => parsed,\n        Err(e) => {\n            return Err(syn::Error::new_spanned(v, format!("expected semver: {}", e)));\n        }\n    };\n    let unsupported = if !parsed.pre.is_empty() {\n        Some("semver pre-release string is not supported here")\n    } else {\n        None\n    };\n    match unsupported {\n        Some(msg) => Err(syn::Error::new_spanned(v, msg)),\n        None => Ok(parsed),\n    }\n}\n\n')], 'why': '† (match form) a literal with build metadata is accepted; semver_parts then silently drops it from the emitted version'},
    {'name': 'mime-lookup-by-find', 'kind': 'benign', 'edits': [('dropshot/src/api_description.rs', '        match mime_type {\n            CONTENT_TYPE_OCTET_STREAM => Ok(Self::Bytes),\n            CONTENT_TYPE_JSON => Ok(Self::Json),\n            CONTENT_TYPE_URL_ENCODED => Ok(Self::UrlEncoded),\n            CONTENT_TYPE_MULTIPART_FORM_DATA => Ok(Self::MultipartFormData),\n            _ => Err(mime_type.to_string()),\n        }', '        [Self::Bytes, Self::Json, Self::UrlEncoded, Self::MultipartFormData]\n            .into_iter()\n            .find(|candidate| candidate.mime_type() == mime_type)\n            .ok_or_else(|| mime_type.to_string())')], 'why': 'behaviour-preserving: from_mime_type defined through mime_type() by `find` over the variants instead of a match on the four constants'},
    {'name': 'find-form-forgets-multipart', 'kind': 'mutant', 'expect': ['C19.R5'], 'edits': [('dropshot/src/api_description.rs', '        match mime_type {\n            CONTENT_TYPE_OCTET_STREAM => Ok(Self::Bytes),\n            CONTENT_TYPE_JSON => Ok(Self::Json),\n            CONTENT_TYPE_URL_ENCODED => Ok(Self::UrlEncoded),\n            CONTENT_TYPE_MULTIPART_FORM_DATA => Ok(Self::MultipartFormData),\n            _ => Err(mime_type.to_string()),\n        }', '        [Self::Bytes, Self::Json, Self::UrlEncoded]\n            .into_iter()\n            .find(|candidate| candidate.mime_type() == mime_type)\n            .ok_or_else(|| mime_type.to_string())')], 'why': '† (find form) the macro accepts and emits multipart/form-data, ApiEndpoint::new panics on it'},
    {'name': 'producer-called-in-map-or-else', 'kind': 'benign', 'edits': [('dropshot_endpoint/src/endpoint.rs', '            let construct = if let Some(metadata) = metadata {\n                metadata.to_api_endpoint_fn(\n                    &dropshot,\n                    &name_str,\n                    &ApiEndpointKind::Regular(name),\n                    &doc,\n                )\n            } else {\n                quote! {\n                    unreachable!()\n                }\n            };\n', '            let construct = metadata.as_ref().map_or_else(\n                || quote! { unreachable!() },\n                |metadata| {\n                    metadata.to_api_endpoint_fn(\n                        &dropshot,\n                        &name_str,\n                        &ApiEndpointKind::Regular(name),\n                        &doc,\n                    )\n                },\n            );\n')], 'why': 'behaviour-preserving: `if let Some(m) = metadata {..} else {..}` written as metadata.as_ref().map_or_else(.., |m| ..)'},
    {'name': 'map-or-else-form-doc-from-nothing', 'kind': 'mutant', 'expect': ['C19.R1'], 'edits': [('dropshot_endpoint/src/endpoint.rs', '            let construct = if let Some(metadata) = metadata {\n                metadata.to_api_endpoint_fn(\n                    &dropshot,\n                    &name_str,\n                    &ApiEndpointKind::Regular(name),\n                    &doc,\n                )\n            } else {\n                quote! {\n                    unreachable!()\n                }\n            };\n', '            let construct = metadata.as_ref().map_or_else(\n                || quote! { unreachable!() },\n                |metadata| {\n                    metadata.to_api_endpoint_fn(\n                        &dropshot,\n                        &name_str,\n                        &ApiEndpointKind::Regular(name),\n                        &ExtractedDoc::from_attrs(&[]),\n                    )\n                },\n            );\n')], 'why': '† (closure form) function-form endpoints lose their doc comment: trait and function forms document differently'},
    {'name': 'versions-default-by-map-or', 'kind': 'benign', 'edits': [('dropshot_endpoint/src/metadata.rs', '                versions: versions\n                    .map(|h| h.into_inner())\n                    .unwrap_or(VersionRange::All),\n            })\n        } else {\n            unreachable!', '                versions: versions.map_or(VersionRange::All, ParseWrapper::into_inner),\n            })\n        } else {\n            unreachable!')], 'why': 'behaviour-preserving: map(..).unwrap_or(All) written as map_or(All, ParseWrapper::into_inner)'},
    {'name': 'map-or-form-ignores-versions', 'kind': 'mutant', 'expect': ['C19.R2a'], 'edits': [('dropshot_endpoint/src/metadata.rs', '                versions: versions\n                    .map(|h| h.into_inner())\n                    .unwrap_or(VersionRange::All),\n            })\n        } else {\n            unreachable!', '                versions: versions.map_or(VersionRange::All, |_| VersionRange::All),\n            })\n        } else {\n            unreachable!')], 'why': '† (map_or form) a declared `versions` range is replaced by All'},
]
# ---- shapes of the third independent corpus (benign/C19-R10..R12, C05-R9, C05-R12, C09-R10), each with a mutant written on top of the refactored form
_U = "dropshot_endpoint/src/util.rs"
_T = "dropshot_endpoint/src/api_trait.rs"
_AS_STATIC_MATCH = ("        match self {\n            ValidContentType::ApplicationJson => APPLICATION_JSON,\n            ValidContentType::ApplicationXWwwFormUrlencoded => {\n"
                    "                APPLICATION_X_WWW_FORM_URLENCODED\n            }\n            ValidContentType::MultipartFormData => MULTIPART_FORM_DATA,\n        }\n")
_FROM_STR_MATCH = ("        match s {\n            APPLICATION_JSON => Ok(ValidContentType::ApplicationJson),\n            APPLICATION_X_WWW_FORM_URLENCODED => {\n"
                   "                Ok(ValidContentType::ApplicationXWwwFormUrlencoded)\n            }\n            MULTIPART_FORM_DATA => Ok(ValidContentType::MultipartFormData),\n"
                   "            _ => Err(InvalidContentTypeError),\n        }\n")
_ROWS = {"ApplicationJson": "    (ValidContentType::ApplicationJson, APPLICATION_JSON),\n",
         "ApplicationXWwwFormUrlencoded": "    (ValidContentType::ApplicationXWwwFormUrlencoded, APPLICATION_X_WWW_FORM_URLENCODED),\n",
         "MultipartFormData": "    (ValidContentType::MultipartFormData, MULTIPART_FORM_DATA),\n"}


def _mime_table_edits(order):
    return [(_U, "impl ValidContentType {\n    pub(crate) fn as_static_str", "const CONTENT_TYPE_TABLE: [(ValidContentType, &str); 3] = [\n" + "".join(_ROWS[v] for v in order) +
             "];\n\nimpl ValidContentType {\n    pub(crate) fn as_static_str"),
            (_U, _AS_STATIC_MATCH, "        CONTENT_TYPE_TABLE[*self as usize].1\n"),
            (_U, _FROM_STR_MATCH, "        CONTENT_TYPE_TABLE\n            .iter()\n            .find_map(|(content_type, mime)| (*mime == s).then_some(*content_type))\n            .ok_or(InvalidContentTypeError)\n")]


_DS_MIME_MATCH = ("        match mime_type {\n            CONTENT_TYPE_OCTET_STREAM => Ok(Self::Bytes),\n            CONTENT_TYPE_JSON => Ok(Self::Json),\n            CONTENT_TYPE_URL_ENCODED => Ok(Self::UrlEncoded),\n"
                  "            CONTENT_TYPE_MULTIPART_FORM_DATA => Ok(Self::MultipartFormData),\n            _ => Err(mime_type.to_string()),\n        }")


def _ds_mime_table(rows):
    return ("        const BODY_TYPES: [(&str, ApiEndpointBodyContentType); %d] = [\n%s        ];\n"
            "        BODY_TYPES\n            .iter()\n            .find_map(|(known, content_type)| (*known == mime_type).then(|| content_type.clone()))\n            .ok_or_else(|| mime_type.to_string())"
            % (len(rows), "".join("            (%s, ApiEndpointBodyContentType::%s),\n" % r for r in rows)))


_DS_ROWS = [("CONTENT_TYPE_OCTET_STREAM", "Bytes"), ("CONTENT_TYPE_JSON", "Json"), ("CONTENT_TYPE_URL_ENCODED", "UrlEncoded"), ("CONTENT_TYPE_MULTIPART_FORM_DATA", "MultipartFormData")]
_FROM_UNTIL_OLD = ("        if until < earliest {\n            return Err(\n                \"versions in a from-until version range must be provided \\\n                 in order\",\n            );\n        }\n\n"
                   "        Ok(ApiEndpointVersions::FromUntil(OrderedVersionPair {\n            earliest,\n            until,\n        }))\n")


def _from_until_then(fields):
    return ("        let in_order = earliest <= until;\n        in_order\n            .then(|| ApiEndpointVersions::FromUntil(OrderedVersionPair { %s }))\n"
            "            .ok_or(\"versions in a from-until version range must be provided in order\")\n" % fields)


_TRAIT_NEW_OLD = ("        let metadata = parse_endpoint_metadata(&name_str, attr, errors);\n        let params = EndpointParams::new(\n            dropshot,\n            &f.sig,\n"
                  "            RqctxKind::Trait { trait_ident, context_ident },\n            errors,\n        );\n\n        match (metadata, params) {\n            (Some(metadata), Some(params)) => {\n"
                  "                Ok(Self { f, attr, trait_ident, metadata, params })\n            }\n            // This means that something failed.\n            (_, params) => {\n"
                  "                Err(ApiItemErrorSummary { has_param_errors: params.is_none() })\n            }\n        }\n")


def _trait_new_zip(attr_expr):
    return ("        let metadata = parse_endpoint_metadata(&name_str, %s, errors);\n        let params = EndpointParams::new(\n            dropshot,\n            &f.sig,\n"
            "            RqctxKind::Trait { trait_ident, context_ident },\n            errors,\n        );\n\n        let has_param_errors = params.is_none();\n        metadata\n            .zip(params)\n"
            "            .map(|(metadata, params)| Self { f, attr, trait_ident, metadata, params })\n            .ok_or(ApiItemErrorSummary { has_param_errors })\n" % attr_expr)


_ORDER_CHECK_OLD = [e for e in SELFTEST if e["name"] == "literal-order-check-in-helper"][0]["edits"][0][1]
_PARSE_SEMVER_OLD = [e for e in SELFTEST if e["name"] == "parse-semver-as-match"][0]["edits"][0][1]


def _order_check_zip(op):
    return [(_M, _ORDER_CHECK_OLD, "                let out_of_order = earliest\n                    .as_literal()\n                    .zip(latest.as_literal())\n"
                 "                    .filter(|(earliest_semver, latest_semver)| latest_semver %s earliest_semver);\n"
                 "                if let Some((earliest_semver, latest_semver)) = out_of_order {\n                    return Err(syn::Error::new_spanned(\n                        dotdot.to_token_stream(),\n"
                 "                        format!(\"\\\"from\\\" version ({}) must be earlier than \\\"until\\\" version ({})\", earliest_semver, latest_semver),\n                    ));\n                }\n" % op),
            (_M, "fn parse_semver(v: &syn::LitStr) -> syn::Result<semver::Version> {",
             "impl VersionSpecifier {\n    fn as_literal(&self) -> Option<&semver::Version> {\n        match self {\n            VersionSpecifier::Literal(v) => Some(v),\n"
             "            VersionSpecifier::Identifier(_) => None,\n        }\n    }\n}\n\nfn parse_semver(v: &syn::LitStr) -> syn::Result<semver::Version> {")]


def _parse_semver_table(rows):
    body = {"pre": "        (|s| s.pre != semver::Prerelease::EMPTY, \"semver pre-release string is not supported here\"),\n",
            "build": "        (|s| s.build != semver::BuildMetadata::EMPTY, \"semver build metadata is not supported here\"),\n"}
    return [(_M, _PARSE_SEMVER_OLD, "fn parse_semver(v: &syn::LitStr) -> syn::Result<semver::Version> {\n    const UNSUPPORTED: [(fn(&semver::Version) -> bool, &str); %d] = [\n%s    ];\n"
                 "    let parsed = v.value().parse::<semver::Version>().map_err(|e| {\n        syn::Error::new_spanned(v, format!(\"expected semver: {}\", e))\n    })?;\n"
                 "    let unsupported = UNSUPPORTED.iter().find_map(|(is_present, message)| is_present(&parsed).then_some(message));\n"
                 "    match unsupported {\n        Some(message) => Err(syn::Error::new_spanned(v, String::from(*message))),\n        None => Ok(parsed),\n    }\n}\n\n"
                 % (len(rows), "".join(body[r] for r in rows)))]


_OPERATION_OLD = ("            let mut operation = openapiv3::Operation::default();\n            operation.operation_id = Some(endpoint.operation_id.clone());\n"
                  "            operation.summary.clone_from(&endpoint.summary);\n            operation.description.clone_from(&endpoint.description);\n"
                  "            operation.tags.clone_from(&endpoint.tags);\n            operation.deprecated = endpoint.deprecated;\n")


def _operation_literal(summary_src):
    return ("            let mut operation = openapiv3::Operation {\n                operation_id: Some(endpoint.operation_id.clone()),\n                summary: endpoint.%s.clone(),\n"
            "                description: endpoint.description.clone(),\n                tags: endpoint.tags.clone(),\n                deprecated: endpoint.deprecated,\n"
            "                ..Default::default()\n            };\n" % summary_src)


SELFTEST += [
    {"name": "mime-strings-in-one-const-table", "kind": "benign", "edits": _mime_table_edits(["ApplicationJson", "ApplicationXWwwFormUrlencoded", "MultipartFormData"]),
     "why": "behaviour-preserving: as_static_str / from_str rebuilt on one const table of (variant, string) rows, indexed by discriminant / searched by find_map"},
    {"name": "const-table-rows-out-of-declaration-order", "kind": "mutant", "expect": ["C19.R5"], "edits": _mime_table_edits(["MultipartFormData", "ApplicationJson", "ApplicationXWwwFormUrlencoded"]),
     "why": "† (table form) the table is indexed by discriminant but its rows are not in declaration order: `content_type = \"application/json\"` validates as ApplicationJson and emits \"multipart/form-data\""},
    {"name": "dropshot-mime-table-forgets-multipart", "kind": "mutant", "expect": ["C19.R5"], "edits": [(_A, _DS_MIME_MATCH, _ds_mime_table(_DS_ROWS[:3]))],
     "why": "† (const-table form of from_mime_type) the macro accepts and emits multipart/form-data, ApiEndpoint::new panics on it"},
    {"name": "from-until-by-bool-then", "kind": "benign", "edits": [(_A, _FROM_UNTIL_OLD, _from_until_then("earliest, until"))],
     "why": "behaviour-preserving: early `return Err` on until < earliest written as (earliest <= until).then(|| FromUntil(..)).ok_or(..); the pair is built inside the closure"},
    {"name": "then-form-pair-fields-swapped", "kind": "mutant", "expect": ["C19.R7"], "edits": [(_A, _FROM_UNTIL_OLD, _from_until_then("earliest: until, until: earliest"))],
     "why": "† (then form) from_until(earliest, until) stores its first argument as `until`: the macro's from_until(a, b) registers the wrong range"},
    {"name": "trait-item-built-by-zip", "kind": "benign", "edits": [(_T, _TRAIT_NEW_OLD, _trait_new_zip("attr"))],
     "why": "behaviour-preserving: `match (metadata, params) { (Some, Some) => Ok(Self{..}), .. }` written as metadata.zip(params).map(|(m, p)| Self{..}).ok_or(..)"},
    {"name": "zip-form-metadata-from-first-attribute", "kind": "mutant", "expect": ["C19.R1"], "edits": [(_T, _TRAIT_NEW_OLD, _trait_new_zip("&f.attrs[0]"))],
     "why": "† (zip form) a trait endpoint's metadata is parsed from the method's first attribute (e.g. a doc comment) instead of its #[endpoint] attribute"},
    {"name": "literal-order-check-by-zip-filter", "kind": "benign", "edits": _order_check_zip("<"),
     "why": "behaviour-preserving: the both-literals test written as a.as_literal().zip(b.as_literal()).filter(|(a, b)| b < a) + if let Some(..)"},
    {"name": "zip-filter-form-refuses-equal-bounds", "kind": "mutant", "expect": ["C19.R7"], "edits": _order_check_zip("<="),
     "why": "† (zip/filter form) the one-version range \"1.0.0\"..\"1.0.0\" is refused"},
    {"name": "parse-semver-by-predicate-table", "kind": "benign", "edits": _parse_semver_table(["pre", "build"]),
     "why": "behaviour-preserving: the and_then chain written as `?` plus a const table of (predicate fn, message) rows searched by find_map"},
    {"name": "predicate-table-forgets-build-metadata", "kind": "mutant", "expect": ["C19.R7"], "edits": _parse_semver_table(["pre"]),
     "why": "† (table form) a literal with build metadata is accepted; semver_parts then silently drops it from the emitted version"},
    {"name": "operation-built-by-struct-literal", "kind": "benign", "edits": [(_A, _OPERATION_OLD, _operation_literal("summary"))],
     "why": "behaviour-preserving: default() + five assignments / clone_from written as one struct literal with ..Default::default()"},
    {"name": "struct-literal-summary-from-description", "kind": "mutant", "expect": ["C19.R6"], "edits": [(_A, _OPERATION_OLD, _operation_literal("description"))],
     "why": "† (struct-literal form) the document's summary shows the description text"},
]
LEVEL_TEXT += " Also (R10 = C06.R1): every endpoint scan of the document generator is filtered by the document's version."
LEVEL_TEXT += " Also (R11 = C02.R6): registration applies the tag policy table to published endpoints only."
LEVEL_TEXT += " Also (R12 = C07.R12): the extension mode of a tuple of extractors is the merge of the members' modes, decided by interpretation over every assignment of modes to the members. Also (R13 = C07.R1): the declared body content type reaches the metadata of every member of the extractor tuple; (R14 = C01.R2): the handler is selected with the request's own version. Also (R15 = C01.R7): a declaration with a versions range is never served by an unversioned server. Also (R16 = C05.E2): overlaps_with holds exactly when some version lies in both declared ranges."
