"""Helpers shared by C16 / C17 / C18: `.await` edges, ownership (where a value is given up),
spawned / boxed coroutine resolution, tokio::select! branch identification, path-sensitive enum-variant
propagation (variant_flow: dead match arms, execution under a hypothesis about a configuration value),
panic-site enumeration per source-level function item.

Everything here works on calls, slices and dominance; nothing keys on block numbers,
line numbers or the textual shape of a macro expansion."""
import json
import re

from .lib import closure_of_operand, operand_local

POLL = r"future::Future::poll$|futures::Future::poll$|Future::poll$"


# --------------------------------------------------------------------------- small utilities
def call_at(fn, bb):
    t = fn.blocks[bb]["term"]
    return t if t["t"] == "call" else None


def slice_has_call_at(sl, bb):
    """The slice passes through the call terminator of block `bb`."""
    return any(a[0] == "call" and a[2] == bb for a in sl.atoms)


def variant_index(facts, adt, name, default=None):
    a = facts.adts.get(adt)
    if a:
        for i, v in enumerate(a["variants"]):
            if v["name"] == name:
                return i
    return default


def _fix_adt(facts, info):
    """engine.switch_on derives the ADT path by cutting the type at the first `<`, which is wrong
    for ADTs nested in generic items (`server::HttpServerStarter<C>::start::{closure#0}::..::Out<..>`).
    Re-derive it as the longest ADT id that prefixes the type."""
    ty = re.sub(r"^(&('[^ ]+ )?(mut )?)+", "", info.get("ty", ""))
    if info["adt"] in facts.adts and (ty == info["adt"] or ty.startswith(info["adt"] + "<")) and "<" not in info["adt"]:
        best = info["adt"]
    else:
        best = None
    for a in facts.adts:
        if ty.startswith(a) and (len(ty) == len(a) or ty[len(a)] == "<") and (best is None or len(a) > len(best)):
            best = a
    if best is not None and best != info["adt"]:
        info = dict(info)
        info["adt"] = best
        info["variants"] = {i: v["name"] for i, v in enumerate(facts.adts[best]["variants"])}
    return info


def discr_switches(fn, adt_rx=None):
    """[(switch_bb, info)] for every reachable switch on an enum discriminant."""
    rx = re.compile(adt_rx) if adt_rx else None
    reach = fn.reachable(0)
    out = []
    for bb, t in fn.switches():
        if bb not in reach:
            continue
        info = fn.switch_on(bb)
        if info["kind"] != "discr":
            continue
        info = _fix_adt(fn.facts, info)
        if rx is not None and not rx.search(info["adt"]):
            continue
        out.append((bb, info))
    return out


def variant_edge(fn, switch_bb, info, name):
    """Target block of the edge taken when the scrutinee is variant `name` (None if unknown)."""
    for i, n in info["variants"].items():
        if n == name:
            return fn.switch_target(switch_bb, i)
    # well-known foreign enums that may be absent from the ADT table
    known = {"std::task::Poll": ["Ready", "Pending"], "std::result::Result": ["Ok", "Err"],
             "std::option::Option": ["None", "Some"], "std::ops::ControlFlow": ["Continue", "Break"]}
    vs = known.get(info["adt"])
    if vs and name in vs:
        return fn.switch_target(switch_bb, vs.index(name))
    return None


# --------------------------------------------------------------------------- .await
def awaits(fn, fut_call_bb=None, fut_type_rx=None):
    """The `.await`s of a coroutine body, found as Future::poll calls.

    Select with `fut_call_bb` (the awaited future is the result of the call in that block:
    the poll receiver's backward slice passes through it) and/or `fut_type_rx` (regex on the
    concrete Self type of the poll instance).  Returns dicts with
      poll_bb, term, switch_bb, ready (target of the Ready edge), pending, dest (poll result local)."""
    rx = re.compile(fut_type_rx) if fut_type_rx else None
    out = []
    for bb, t in fn.live_calls(POLL):
        if rx is not None and not rx.search((t.get("callee_args") or "") + " " + (t.get("resolved") or "")):
            continue
        if fut_call_bb is not None and not slice_has_call_at(fn.slice(t["args"][0]), fut_call_bb):
            continue
        d = t["dest"]["l"]
        sw = [(sbb, info) for sbb, info in discr_switches(fn) if info["place"]["l"] == d and not info["place"]["p"]]
        if len(sw) != 1:
            out.append({"poll_bb": bb, "term": t, "switch_bb": None, "ready": None, "pending": None, "dest": d})
            continue
        sbb, info = sw[0]
        out.append({"poll_bb": bb, "term": t, "switch_bb": sbb, "ready": variant_edge(fn, sbb, info, "Ready"),
                    "pending": variant_edge(fn, sbb, info, "Pending"), "dest": d})
    return out


def after_await(fn, aw, bb):
    """Block `bb` executes only after the awaited future completed (every path to it uses the Ready edge)."""
    return aw["switch_bb"] is not None and aw["ready"] is not None and fn.edge_dominates(aw["switch_bb"], aw["ready"], bb)


def await_payloads(fn, aw):
    """Locals that receive the value an await produced (`let x = fut.await`): plain moves out of the Ready
    payload of the poll result, on blocks that follow the Ready edge."""
    out = []
    for bb, i, st in fn.stmts():
        rv = st["rv"]
        if rv["rv"] == "use" and rv["op"].get("k") in ("copy", "move") and rv["op"]["pl"]["l"] == aw["dest"] and rv["op"]["pl"]["p"] \
                and not st["pl"]["p"] and after_await(fn, aw, bb):
            out.append(st["pl"]["l"])
    return out


def result_switches_of(fn, local, adt_rx=r"^std::result::Result$"):
    """Switches on the discriminant of a value that flows from `local` (e.g. the payload of an await)."""
    out = []
    for sbb, info in discr_switches(fn, adt_rx):
        if info["place"]["l"] == local or fn.slice(info["place"]).touches_local(local):
            out.append((sbb, info))
    return out


def return_defs(fn, adt="std::result::Result"):
    """How the return place `_0` is written on the normal CFG: [(bb, tag)] with tag the known
    variant name ("Ok"/"Err"/..), "residual" for `?` (FromResidual::from_residual), "call:<callee>"
    for another call result, or "other"."""
    reach = fn.reachable(0)
    out = []
    a = fn.facts.adts.get(adt)
    for bb, kind, node in fn.defs().get(0, []):
        if bb not in reach or fn.blocks[bb]["cleanup"]:
            continue
        if kind == "call":
            c = node.get("callee") or "<indirect>"
            out.append((bb, "residual" if c.endswith("FromResidual::from_residual") else "call:" + c))
            continue
        if kind != "assign" or node["pl"]["p"]:
            out.append((bb, "other"))
            continue
        rv = node["rv"]
        if rv["rv"] == "agg" and rv.get("agg") == "adt" and rv.get("adt") == adt:
            out.append((bb, rv["variant"]))
        elif rv["rv"] == "use":
            kv = fn._known_variant_of(rv["op"], fn.defs())
            if kv and kv[0] == adt and a:
                out.append((bb, a["variants"][kv[1]]["name"]))
            elif rv["op"].get("k") == "const":
                out.append((bb, "other"))
            else:
                out.append((bb, "value"))
        else:
            out.append((bb, "other"))
    return out


# --------------------------------------------------------------------------- ownership
def _is_place_of(pl, holder):
    """holder = (local, field_index|None).  A place denotes the holder if it is the whole local
    (field None) or the local projected (possibly through derefs) to exactly that first field."""
    l, fidx = holder
    if pl["l"] != l:
        return False
    fields = [e for e in pl["p"] if isinstance(e, dict) and "f" in e]
    if fidx is None:
        return not pl["p"]
    return len(fields) == 1 and fields[0]["f"] == fidx and not any(isinstance(e, dict) and ("dc" in e or "idx" in e) for e in pl["p"])


def _moves(op, holder):
    return op.get("k") in ("move", "copy") and _is_place_of(op["pl"], holder)


def give_up_sites(fn, local, field_index=None):
    """Where the value stored in `local` (or in its field `field_index`) is given up.

    Follows plain moves between locals (`let w = worker;`), and reports every block in which a
    holder is passed by value to a call (mem::drop, send, ...), moved into an aggregate or a
    projected place (escapes), or dropped by a Drop terminator (scope end; for a field holder
    also the Drop of the whole base local).  Borrows are not give-ups.  Only blocks reachable
    from the entry on the normal CFG are considered.  Returns [(bb, how)]."""
    reach = fn.reachable(0)
    holders = [(local, field_index)]
    seen = set(holders)
    sites = []
    i = 0
    while i < len(holders):
        h = holders[i]
        i += 1
        for blk in fn.blocks:
            bb = blk["bb"]
            if blk["cleanup"] or bb not in reach:
                continue
            for st in blk["st"]:
                if st["s"] != "assign":
                    continue
                rv = st["rv"]
                if rv["rv"] in ("use", "cast") and _moves(rv["op"], h):
                    if not st["pl"]["p"]:
                        nh = (st["pl"]["l"], None)
                        if nh not in seen:
                            seen.add(nh)
                            holders.append(nh)
                    else:
                        sites.append((bb, "stored into a place"))
                elif rv["rv"] == "agg" and any(_moves(o, h) for o in rv["ops"]):
                    sites.append((bb, "moved into %s" % (rv.get("adt") or rv.get("def") or rv["agg"])))
            t = blk["term"]
            if t["t"] == "call" and any(_moves(a, h) for a in t["args"]):
                sites.append((bb, "passed to %s" % (t.get("callee") or "<indirect>")))
            elif t["t"] == "drop" and t["pl"]["l"] == h[0] and not t["pl"]["p"]:
                sites.append((bb, "scope end of _%d" % h[0]))
            elif t["t"] == "yield" and _moves(t["value"], h):
                sites.append((bb, "yielded"))
    return sorted(set(sites))


def field_places(fn, name):
    """(local, field_index) pairs of places in fn whose first field projection is named `name`."""
    out = set()

    def walk(o):
        if isinstance(o, dict):
            if "l" in o and "p" in o and isinstance(o["p"], list):
                fs = [e for e in o["p"] if isinstance(e, dict) and "f" in e]
                if fs and fs[0].get("n") == name:
                    out.add((o["l"], fs[0]["f"]))
            for v in o.values():
                walk(v)
        elif isinstance(o, list):
            for v in o:
                walk(v)
    for blk in fn.blocks:
        if not blk["cleanup"]:
            walk(blk["st"])
            walk(blk["term"])
    return sorted(out)


def upvar_index_where(fn, agg_stmt, pred):
    """Indices of the captured operands of a closure/coroutine aggregate whose slice satisfies pred."""
    out = []
    for i, o in enumerate(agg_stmt["rv"]["ops"]):
        if o.get("k") in ("copy", "move") and pred(fn.slice(o)):
            out.append(i)
    return out


# --------------------------------------------------------------------------- spawn
SPAWN = r"^tokio::spawn$|^tokio::task::spawn$|^tokio::task::spawn_local$|^tokio::task::spawn_blocking$|tokio::runtime::Handle::spawn$|tokio::task::JoinSet::<T>::spawn|tokio::runtime::Runtime::spawn$"


def spawned_coroutine(fn, spawn_term):
    """(coroutine Fn, aggregate stmt) handed to a spawn call: see coroutine_of_operand."""
    return coroutine_of_operand(fn, spawn_term["args"][0])


def coroutine_of_operand(fn, op):
    """(coroutine Fn, aggregate stmt) of a future value that is not awaited in place but spawned / boxed /
    shared.  The operand is either an async block built in `fn` (also: the coroutine aggregate of an unknown
    `async fn` whose wrapper the engine inlined), or the future returned by a call to a crate-local
    `async fn`; in the second case a synthetic aggregate is returned whose operands are the caller's
    arguments in the order in which the async fn's coroutine captures its parameters."""
    g, node = closure_of_operand(fn, op)
    if g is not None and node["rv"].get("agg") == "coroutine":
        return g, node
    l = operand_local(op)
    seen = 0
    while l is not None and seen < 4:
        seen += 1
        ds = fn.defs().get(l, [])
        if len(ds) != 1:
            return None, None
        bb, kind, d = ds[0]
        if kind == "assign" and d["rv"]["rv"] == "use":
            l = operand_local(d["rv"]["op"])
            continue
        if kind != "call":
            return None, None
        callee = fn.facts.F.get(d.get("resolved") or "") or fn.facts.F.get(d.get("callee") or "")
        if callee is None:
            return None, None
        aggs = [st for _, _, st in callee.stmts() if st["rv"]["rv"] == "agg" and st["rv"].get("agg") == "coroutine" and st["pl"]["l"] == 0]
        if len(aggs) != 1 or aggs[0]["rv"]["def"] not in fn.facts.F or sum(1 for _ in callee.calls()) > 0:
            return None, None
        ops = []
        for o in aggs[0]["rv"]["ops"]:
            pl = operand_local(o)
            if pl is None or not (1 <= pl <= callee.argc) or pl > len(d["args"]):
                return None, None
            ops.append(d["args"][pl - 1])
        return fn.facts.F[aggs[0]["rv"]["def"]], {"s": "assign", "pl": {"l": l, "p": []}, "rv": {"rv": "agg", "agg": "coroutine", "def": aggs[0]["rv"]["def"], "ops": ops}}
    return None, None


def loop_of(fn, bb):
    """Blocks of the strongly connected component of `bb` (all loops through it); empty if bb is on no cycle."""
    fwd = fn.reachable(bb)
    scc = set(b for b in fwd if bb in fn.reachable(b))
    if len(scc) == 1 and bb not in fn.succ(bb):
        return set()
    return scc


def loop_exits(fn, loop):
    """Edges (u, v) leaving the loop towards a block from which the function can still finish
    normally or suspend (edges into panics / `unreachable` are not exits: they are census material)."""
    out = []
    for u in sorted(loop):
        for v in fn.succ(u):
            if v not in loop and not fn.is_diverging(v, limit=400):
                out.append((u, v))
    return out


# --------------------------------------------------------------------------- the server task of HttpServerStarter::start
SERVE = r"Builder::<E>::serve_connection(_with_upgrades)?$"
ACCEPT = r"^server::Https?Acceptor::accept$"


def server_task(facts):
    """(start Fn, (spawn_bb, spawn_term), server-task coroutine, its aggregate stmt) or a string saying what is missing."""
    st = facts.one(r"^server::HttpServerStarter::<C>::start$")
    if st is None:
        return "function server::HttpServerStarter::<C>::start"
    sp = st.live_calls(SPAWN)
    if len(sp) != 1:
        return "the single tokio::spawn of the server task in start() (%d found)" % len(sp)
    co, node = spawned_coroutine(st, sp[0][1])
    if co is None:
        return "the async block of the server task"
    return st, sp[0], co, node


def accept_arms(co):
    """{'http'|'https': dict(accept_bb, loop, serve)} for the accept loops of the server task, plus problems."""
    arms, problems = {}, []
    found = {}
    for bb, t in co.live_calls(ACCEPT):
        found.setdefault("https" if "HttpsAcceptor" in t["callee"] else "http", []).append((bb, t))
    for name, cs in found.items():
        if len(cs) != 1:
            problems.append("exactly one %s accept call in the server task (%d found)" % (name, len(cs)))
            continue
        abb = cs[0][0]
        loop = loop_of(co, abb)
        arms[name] = {"accept_bb": abb, "loop": loop, "serve": [(b, t) for b, t in co.live_calls(SERVE) if b in loop]}
    return arms, problems


def exits_only_on_close_signal(facts, co, loop):
    """Every normal exit edge of the loop is taken only by executions in which a tokio::select! of that loop resolved
    through a branch whose future is the oneshot close receiver.  Returns (ok, n_exits, details).

    Decided per exit edge, for a select! inside the loop, in one of two ways:
      * the edge lies under (is dominated by) an edge of the switch on the select's output enum whose variant was produced
        by polling only oneshot receivers (the `break` stands in the handler of the close branch); or
      * by hypothesis, when the select only *classifies* the event and the loop is left further down
        (`let next = select! { c = accept() => Some(c), _ = &mut rx => None }; let Some(c) = next else { break };`): the
        task is explored once per output variant under "this select resolves to that variant" (variant_flow follows only
        the edges such an execution can take -- through the value the arm produced, a flag set in it, a let-else on it);
        the exit edge must be taken under some variant, and only under variants fed by the close receiver."""
    exits = loop_exits(co, loop)
    ok = bool(exits)
    detail = []
    selects = [(sbb, info) for sbb, info in discr_switches(co, SELECT_OUT) if sbb in loop]
    fut_cache = {}

    def futs(sbb, info, vn):
        if (sbb, vn) not in fut_cache:
            fut_cache[(sbb, vn)] = select_branch_futures(facts, co, sbb, info, vn)[0]
        return fut_cache[(sbb, vn)]

    def is_close(tys):
        return bool(tys) and all("oneshot::Receiver" in x for x in tys)
    flows = {}
    for u, v in exits:
        found = False
        for sbb, info in selects:
            for vi, vn in info["variants"].items():
                tgt = co.switch_target(sbb, vi)
                if co.edge_dominates(sbb, tgt, u) or (u == sbb and v == tgt):
                    tys = futs(sbb, info, vn)
                    if is_close(tys):
                        found = True
                    detail.append("exit under select variant %s polled %s" % (vn, sorted(tys)))
        if not found:
            for sbb, info in selects:
                pk = _pkey(info["place"])
                if pk is None:
                    continue
                taken = []
                for vi, vn in sorted(info["variants"].items()):
                    if (sbb, vi) not in flows:
                        flows[(sbb, vi)] = variant_flow(co, assume=lambda pl, pk=pk, vi=vi: vi if _pkey(pl) == pk else None, nested=True)
                    fl = flows[(sbb, vi)]
                    if fl.used and u in fl.reach and (u, v) not in fl.dead:
                        taken.append(vn)
                if taken and len(taken) < len(info["variants"]):
                    tys = [futs(sbb, info, vn) for vn in taken]
                    detail.append("exit taken only when the select resolved to %s, polled %s" % ("/".join(taken), [sorted(x) for x in tys]))
                    if all(is_close(x) for x in tys):
                        found = True
                        break
        if not found:
            ok = False
            detail.append("an exit edge is not under the close-receiver branch")
    return ok, len(exits), sorted(set(detail))


# --------------------------------------------------------------------------- tokio::select!
SELECT_OUT = r"__tokio_select_util::Out$"


def select_branch_futures(facts, co, out_switch_bb, info, variant):
    """For a switch in coroutine `co` on a tokio::select! output enum: the concrete future types
    polled to produce variant `variant` (read from the poll_fn closure that builds `Out::<variant>`).
    Found through the slice of the scrutinee (-> poll_fn(closure)) and the slice of the variant's
    payload inside that closure (-> Future::poll instance)."""
    sl = co.slice(info["place"])
    tys = set()
    closures = []
    for c, bb, t in sl.calls(r"future::poll_fn$"):
        g, node = closure_of_operand(co, t["args"][0])
        if g is not None:
            closures.append(g)
    for g in closures:
        for bb, i, st in g.aggregates(SELECT_OUT, variant):
            for o in st["rv"]["ops"]:
                ps = g.slice(o)
                for c, pbb, pt in ps.calls(POLL):
                    tys.add(pt.get("callee_args") or pt.get("resolved") or "?")
    return tys, closures


# --------------------------------------------------------------------------- panic sites
PANICKY = re.compile(
    r"(Option::<T>::(unwrap|expect)$)|(Result::<T, E>::(unwrap|expect|unwrap_err|expect_err)$)|(^core::panicking::)|(^std::rt::(begin_panic|panic))"
    r"|(panic::resume_unwind$)|(panic::panic_any$)|(process::(abort|exit)$)|(ops::Index::index$)|(ops::IndexMut::index_mut$)|(::from_static$)"
    r"|(slice::<impl \[T\]>::(split_at|split_at_mut|copy_from_slice|clone_from_slice|swap)$)|(Vec::<T, A>::(remove|swap_remove|insert|split_off|drain)$)"
    r"|(String::(remove|insert|insert_str|split_off|drain|replace_range|truncate)$)|(RefCell::<T>::(borrow|borrow_mut)$)"
    r"|(Bytes(Mut)?::(split_to|split_off|slice|advance)$)|(Buf::(advance|copy_to_bytes)$)|(::unwrap_unchecked$)|(hint::unreachable_unchecked$)")
PANIC_KINDS_TEXT = ("calls to Option/Result unwrap/expect/unwrap_err/expect_err, core::panicking::* (panic!, assert!, unreachable!, unimplemented!, todo!), "
                    "resume_unwind, panic_any, process::abort/exit, Index/IndexMut::index, *::from_static, panicking slice/Vec/String/Bytes/RefCell methods, "
                    "any other call that never returns, and MIR Assert terminators (overflow, division by zero, bounds)")


# --------------------------------------------------------------------------- path-sensitive enum variants
_VARIANT_TESTS = {"Option::<T>::is_some": ("std::option::Option", 1, 0), "Option::<T>::is_none": ("std::option::Option", 0, 1),
                  "Result::<T, E>::is_ok": ("std::result::Result", 0, 1), "Result::<T, E>::is_err": ("std::result::Result", 1, 0)}


def _pkey(pl):
    """Hashable identity of a place without index projections (None if it has one)."""
    out = []
    for e in pl["p"]:
        if isinstance(e, dict):
            if "idx" in e:
                return None
            out.append(("f", e["f"]) if "f" in e else ("dc", e.get("v"), e.get("dc")))
        else:
            out.append(e)
    return (pl["l"], tuple(out))


class VariantFlow:
    """Result of variant_flow: `dead` = switch edges no execution takes, `visited` = blocks some execution reaches,
    `used` = number of tests that were decided by the caller's assumption."""

    def __init__(self, fn, dead, visited, used):
        self.fn, self.dead, self.visited, self.used = fn, dead, visited, used
        self.reach = fn.reachable(0, avoid_edges=dead) if dead else fn.reachable(0)


def variant_flow(fn, assume=None, nested=False):
    """Sparse conditional propagation of *which enum variant a place holds* (and of the boolean flags computed
    from that) over the already pruned CFG: a forward must analysis that only follows edges an execution can take.

    A place is known to hold variant i after it was assigned an aggregate of that variant (directly or through a
    local with that single definition, or a copy of a known place), on the i-edge of an earlier switch on its
    discriminant, and on the edges of a boolean switch fed by `is_some / is_none / is_ok / is_err(&place)`.
    Booleans are followed through copies, `!`, literal `true` / `false` assignments (`let f = matches!(..)`) and
    `==` / `!=` between two places of known variants.  Knowledge about a place dies with any write to its base
    local, a `&mut` / raw borrow of it, a move out of it, a drop, or a call that receives a mutable reference
    derived from it.  Facts meet by intersection, so a loop or a join only keeps what holds on every path.

    `assume(place) -> variant index | None` adds a hypothesis ("the configured mode is Detached"): the result then
    describes the executions under that hypothesis, whatever the idiom that tests the value (match, if let,
    matches!, `==`, a named flag, early return).

    `nested=True` also remembers the variant of a value that is wrapped into an aggregate (`Poll::Ready(opt)`, `(opt, n)`,
    `Wrapper { inner: opt }`) under the place of that field, so that it is known again when the field is taken out -- an
    `async fn` helper that was spliced into its caller hands its result over as `Poll::Ready(result)`.

    Without an assumption this is what makes `if x.is_none() { x = Some(..) } match x { Some(v) => v, None =>
    unreachable!() }` equivalent to `x.get_or_insert_with(..)` for the panic census: the None arm is dead code."""
    defs = fn.defs()
    nblk = len(fn.blocks)
    used = [0]

    def mut_roots(op):
        """Base locals that a call receiving `op` may write through (the operand is, or is built from, a
        `&mut` / raw pointer / by-value move of a place of that local)."""
        out = set()
        if op.get("k") not in ("copy", "move"):
            return out
        if op.get("k") == "move":
            out.add(op["pl"]["l"])
        seen, todo = set(), [(op["pl"]["l"], False, 0)]
        while todo:
            l, viamut, depth = todo.pop()
            if (l, viamut) in seen or depth > 6:
                continue
            seen.add((l, viamut))
            for bb, kind, node in defs.get(l, []):
                if kind == "assign":
                    rv = node["rv"]
                    if rv["rv"] in ("ref", "rawptr"):
                        m = viamut or rv["rv"] == "rawptr" or bool(rv.get("mut"))
                        if m:
                            out.add(rv["pl"]["l"])
                        todo.append((rv["pl"]["l"], m, depth + 1))
                    elif rv["rv"] in ("use", "cast"):
                        o = rv["op"]
                        if o.get("k") in ("copy", "move"):
                            todo.append((o["pl"]["l"], viamut, depth + 1))
                    elif rv["rv"] == "copyderef":
                        todo.append((rv["pl"]["l"], viamut, depth + 1))
                    elif rv["rv"] == "agg":
                        for o in rv["ops"]:
                            if o.get("k") in ("copy", "move"):
                                todo.append((o["pl"]["l"], viamut, depth + 1))
                elif kind == "call":
                    for o in node["args"]:
                        if o.get("k") in ("copy", "move"):
                            todo.append((o["pl"]["l"], viamut, depth + 1))
        return out

    def kill(state, l):
        for k in [k for k in state if (k[0] == "p" and k[1][0] == l) or (k[0] in ("v", "b", "c") and k[1] == l) or
                  (k[0] == "b" and state[k][0][0] == l)]:
            del state[k]

    def ref_target(op):
        """place P if the operand is a local whose single definition is `&P` (shared borrow, live until its use)."""
        if op.get("k") not in ("copy", "move") or op["pl"]["p"]:
            return None
        ds = defs.get(op["pl"]["l"], [])
        if len(ds) == 1 and ds[0][1] == "assign" and ds[0][2]["rv"]["rv"] == "ref" and not ds[0][2]["pl"]["p"]:
            return ds[0][2]["rv"]["pl"]
        return None

    def known(state, pl, count=False, depth=0):
        """variant index the place certainly holds here (state, single-definition aggregate, or the assumption)."""
        pk = _pkey(pl)
        if pk is not None and ("p", pk) in state:
            return state[("p", pk)]
        if not pl["p"]:
            kv = fn._known_variant_of({"k": "copy", "pl": pl}, defs)
            if kv is not None:
                return kv[1]
        if pl["p"] == ["*"] and depth < 3:      # `*r` with `r = &P`
            p2 = ref_target({"k": "copy", "pl": {"l": pl["l"], "p": []}})
            if p2 is not None:
                return known(state, p2, count, depth + 1)
        if assume is not None:
            v = assume(pl)
            if v is not None:
                if count:
                    used[0] += 1
                return v
        return None

    def fieldless(t):
        m = re.match(r"^<(.+) as [\w:]*PartialEq(<.*>)?>::(eq|ne)$", t.get("resolved") or "")
        a = fn.facts.adts.get(fn.facts.adt_of_type(m.group(1))) if m else None
        return bool(a) and a.get("kind") == "enum" and all(not v["fields"] for v in a["variants"])

    def transfer(bb, state, count=False):
        """state after the statements and the terminator's own effects; plus per-target additions."""
        state = dict(state)
        blk = fn.blocks[bb]
        for st in blk["st"]:
            if st["s"] != "assign":
                continue
            rv, w = st["rv"], st["pl"]
            gen = None
            if rv["rv"] == "agg" and rv.get("agg") == "adt":
                a = fn.facts.adts.get(rv["adt"])
                if a and a.get("kind") == "enum":
                    for i, v in enumerate(a["variants"]):
                        if v["name"] == rv["variant"]:
                            gen = ("p", i)
            elif rv["rv"] == "use" and rv["op"].get("k") in ("copy", "move"):
                src = rv["op"]["pl"]
                kv = known(state, src, count)
                if kv is not None:
                    gen = ("p", kv)
                elif not src["p"] and ("b", src["l"]) in state:
                    gen = ("b", state[("b", src["l"])])
                elif not src["p"] and ("c", src["l"]) in state:
                    gen = ("c", state[("c", src["l"])])
            elif rv["rv"] == "use" and rv["op"].get("k") == "const" and rv["op"].get("ty") == "bool" and not rv["op"].get("path") \
                    and "int" in (rv["op"].get("val") or {}):
                gen = ("c", 1 if rv["op"]["val"]["int"] else 0)
            elif rv["rv"] == "unop" and rv["op"] == "Not" and rv["a"].get("k") in ("copy", "move") and not rv["a"]["pl"]["p"]:
                al = rv["a"]["pl"]["l"]
                if ("b", al) in state:
                    pk, vt, vf = state[("b", al)]
                    gen = ("b", (pk, vf, vt))
                elif ("c", al) in state:
                    gen = ("c", 1 - state[("c", al)])
            elif rv["rv"] == "discr":
                kv = known(state, rv["pl"], count)
                if kv is not None:
                    gen = ("v", kv)
            inner = []
            if nested and rv["rv"] == "agg" and rv.get("agg") in ("adt", "tuple"):
                for fi, o in enumerate(rv["ops"]):
                    if o.get("k") in ("copy", "move"):
                        ikv = known(state, o["pl"], count)
                        if ikv is not None:
                            inner.append((fi, ikv))
            if rv["rv"] in ("ref", "rawptr") and (rv["rv"] == "rawptr" or rv.get("mut")):
                kill(state, rv["pl"]["l"])
            if rv["rv"] == "use" and rv["op"].get("k") == "move":
                kill(state, rv["op"]["pl"]["l"])
            kill(state, w["l"])
            if gen is not None:
                wk = _pkey(w)
                if gen[0] == "p" and wk is not None and "*" not in wk[1][1:]:
                    state[("p", wk)] = gen[1]
                elif gen[0] in ("b", "v", "c") and not w["p"]:
                    state[(gen[0], w["l"])] = gen[1]
            if inner:
                wk = _pkey(w)
                if wk is not None and "*" not in wk[1]:
                    prefix = wk[1]
                    if rv.get("agg") == "adt" and gen is not None and gen[0] == "p":     # an enum built as a known variant
                        prefix = prefix + (("dc", gen[1], rv["variant"]),)
                    elif rv.get("agg") == "adt" and (fn.facts.adts.get(rv["adt"]) or {}).get("kind") == "enum":
                        prefix = None
                    if prefix is not None:
                        for fi, ikv in inner:
                            state[("p", (wk[0], prefix + (("f", fi),)))] = ikv
        t = blk["term"]
        per_target = {}
        if t["t"] == "call":
            c = t.get("callee") or ""
            cmp_gen = None
            m = re.search(r"cmp::PartialEq::(eq|ne)$", c)
            if m and len(t["args"]) == 2 and not t["dest"]["p"]:
                vs = []
                for a in t["args"]:
                    p = ref_target(a)
                    vs.append(known(state, p, count) if p is not None else None)
                if vs[0] is not None and vs[1] is not None and (vs[0] != vs[1] or fieldless(t)):
                    cmp_gen = int((vs[0] == vs[1]) == (m.group(1) == "eq"))
            for a in t["args"]:
                for l in mut_roots(a):
                    kill(state, l)
            kill(state, t["dest"]["l"])
            if cmp_gen is not None:
                state[("c", t["dest"]["l"])] = cmp_gen
            for suffix, (adt, vt, vf) in _VARIANT_TESTS.items():
                if c.endswith(suffix) and t["args"] and not t["dest"]["p"]:
                    p = ref_target(t["args"][0])
                    pk = _pkey(p) if p is not None else None
                    if pk is not None:
                        kv = known(state, p)
                        if kv is not None:
                            state[("c", t["dest"]["l"])] = int(kv == vt)
                        else:
                            state[("b", t["dest"]["l"])] = (pk, vt, vf)
        elif t["t"] == "drop":
            kill(state, t["pl"]["l"])
        elif t["t"] == "yield":
            if "resume_pl" in t:
                kill(state, t["resume_pl"]["l"])
            if t["value"].get("k") == "move":
                kill(state, t["value"]["pl"]["l"])
        elif t["t"] == "switch" and t["discr"].get("k") in ("copy", "move") and not t["discr"]["pl"]["p"]:
            dl = t["discr"]["pl"]["l"]
            only = None
            if ("v", dl) in state:
                only = fn.switch_target(bb, state[("v", dl)])
            elif ("c", dl) in state:
                only = fn.switch_target(bb, state[("c", dl)])
            elif ("b", dl) in state:
                pk, vt, vf = state[("b", dl)]
                tb, fb = fn.bool_edges(bb)
                if tb is not None and tb != fb:
                    per_target[tb] = {("p", pk): vt}
                    per_target[fb] = {("p", pk): vf}
            else:
                ds = defs.get(dl, [])
                if len(ds) == 1 and ds[0][0] == bb and ds[0][1] == "assign" and ds[0][2]["rv"]["rv"] == "discr":
                    pk = _pkey(ds[0][2]["rv"]["pl"])
                    later = False
                    seen_def = False
                    for st in blk["st"]:
                        if st is ds[0][2]:
                            seen_def = True
                        elif seen_def and st["s"] == "assign" and st["pl"]["l"] == (pk[0] if pk else None):
                            later = True
                    if pk is not None and not later and "*" not in pk[1][1:]:
                        cnt = {}
                        for v, b in t["targets"]:
                            cnt[b] = cnt.get(b, 0) + 1
                        for v, b in t["targets"]:
                            if cnt[b] == 1 and b != t["otherwise"]:
                                per_target[b] = {("p", pk): v}
            if only is not None:
                per_target["only"] = only
        return state, per_target

    def meet(a, b):
        return {k: v for k, v in a.items() if k in b and b[k] == v}

    ins = {0: {}}
    work = [0]
    steps = 0
    while work:
        bb = work.pop()
        steps += 1
        if steps > 40 * nblk + 1000:
            return VariantFlow(fn, set(), set(fn.reachable(0)), 0)     # no fixed point within the bound: claim nothing
        if fn.blocks[bb]["cleanup"]:
            continue
        out, per = transfer(bb, ins[bb])
        only = per.get("only")
        for s in fn.succ(bb):
            if only is not None and s != only:
                continue
            es = dict(out)
            es.update(per.get(s, {}))
            if s not in ins:
                ins[s] = es
                work.append(s)
            else:
                m = meet(ins[s], es)
                if m != ins[s]:
                    ins[s] = m
                    work.append(s)
    dead = set()
    for bb in ins:
        if fn.blocks[bb]["cleanup"]:
            continue
        out, per = transfer(bb, ins[bb], count=True)
        only = per.get("only")
        if only is not None:
            dead |= set((bb, s) for s in fn.succ(bb) if s != only)
    return VariantFlow(fn, dead, set(ins), used[0])


def infeasible_variant_edges(fn):
    """Switch edges of fn that no execution can take (variant_flow without an assumption); cached."""
    cached = getattr(fn, "_c16_infeasible", None)
    if cached is None:
        cached = fn._c16_infeasible = variant_flow(fn).dead
    return cached


def live_blocks(fn):
    """Blocks of the normal CFG that some execution of the shipped (release) server can reach: reachable from the
    entry without the infeasible variant edges, minus debug_assert! bodies."""
    return fn.reachable(0, avoid_edges=infeasible_variant_edges(fn)) - fn.debug_only_blocks()


def owner_fn(facts, fn):
    """The source-level function item a body belongs to: closures, async blocks and coroutine bodies belong to the
    named function that contains them; closures of a helper that was inlined (and dropped) belong to the function
    it was inlined into."""
    cur = fn
    for _ in range(12):
        if cur.raw.get("kind") != "Closure":
            return cur
        p = cur.raw.get("parent")
        if p in facts.F:
            cur = facts.F[p]
            continue
        hosts = sorted((g for g in facts.F.values() if p in g.raw.get("inlined", [])), key=lambda g: g.id)
        if not hosts:
            return cur
        cur = hosts[0]
    return cur


def panic_sites(fn):
    """[(kind, what, bucket)] for every reachable non-cleanup potential-panic site of fn.
    kind: 'call' | 'assert'.  bucket=True for sites written by a foreign macro's own tokens
    (expansion flag set and not one of the std panic macros themselves): counted per function,
    not per site."""
    reach = live_blocks(fn)   # debug_assert! bodies are not in release builds; arms of a variant the scrutinee cannot hold are dead
    out = []
    for blk in fn.blocks:
        if blk["cleanup"] or blk["bb"] not in reach:
            continue
        t = blk["term"]
        if t["t"] == "call":
            c = t.get("callee") or "<indirect>"
            if PANICKY.search(c) or PANICKY.search(t.get("resolved") or "") or "to" not in t:
                core = c.startswith("core::panicking::") or c.startswith("std::rt::")
                out.append(("call", c, bool(t.get("exp")) and not core, blk["bb"]))
        elif t["t"] == "assert":
            m = t["msg"]
            m = m if isinstance(m, str) else json.dumps(m)
            out.append(("assert", m.split("(")[0].strip('"'), bool(t.get("exp")), blk["bb"]))
    return out


def norm_fid(fid):
    """Def paths of serde's traits are printed through whichever derive-generated `const _` block
    re-exports serde first (`api_description::_::_serde::Deserializer`, `dtrace::_::_serde::..` with
    usdt-probes): not stable, so census keys spell them `serde::`."""
    return re.sub(r"\b\w+::_::_serde::", "serde::", fid)


def load_panic_table(path, features=""):
    """tables/*_panics.txt: `region | function | kind | what | count | reason` per line.  `function` is the
    source-level function item (closures and async blocks inside it are counted with it).  count is an integer
    (upper bound, exact multiplicity today), `*` for a per-function macro bucket, or `N+M@feature` for N sites
    in every configuration and M more when the cargo feature is enabled.  Returns the allowance that applies
    to the configuration `features`."""
    rows = {}
    errs = []
    feats = set(x for x in (features or "").split(",") if x)
    for n, line in enumerate(open(path), 1):
        s = line.strip()
        if not s or s.startswith("#"):
            continue
        parts = [p.strip() for p in s.split(" | ")]
        if len(parts) != 6 or not parts[5]:
            errs.append("line %d is not `region | function | kind | what | count | reason`" % n)
            continue
        region, fid, kind, what, cnt, reason = parts
        key = (region, fid, kind, what)
        if key in rows:
            errs.append("line %d repeats %s" % (n, " | ".join(key)))
        m = re.match(r"^(\d+)(?:\+(\d+)@([\w-]+))?$", cnt)
        if cnt == "*":
            rows[key] = (None, reason)
        elif m:
            rows[key] = (int(m.group(1)) + (int(m.group(2)) if m.group(3) and m.group(3) in feats else 0), reason)
        else:
            errs.append("line %d: count `%s` is not an integer, `*` or `N+M@feature`" % (n, cnt))
    return rows, errs


def rta_region(facts, roots):
    """Crate-local call-graph closure from `roots` (Facts.region: resolved callees, closures, fn
    items, class-hierarchy targets of crate-local traits) extended, to a fixed point, with the
    methods of every impl of a *foreign* trait whose Self type is an ADT instantiated inside the
    region (third-party code such as serde / hyper calls those back on the same path)."""
    def adt_of(ty):
        return re.sub(r"^(&('[^ ]+ )?(mut )?)+", "", ty).split("<")[0]
    reg = facts.region(list(roots))
    while True:
        inst = set()
        for fid in reg:
            for bb, i, st in facts.F[fid].stmts():
                rv = st["rv"]
                if rv["rv"] == "agg" and rv.get("agg") == "adt":
                    inst.add(rv["adt"])
        new = set()
        for im in facts.impls:
            if facts.is_local_trait(im["trait"]):
                continue
            if adt_of(im["self"]) in inst:
                for it in im["items"]:
                    if it["kind"] == "Fn" and it["id"] in facts.F and it["id"] not in reg:
                        new.add(it["id"])
        if not new:
            return reg
        reg = facts.region(list(reg) + list(new))
