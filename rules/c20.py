"""C20 — WebSocket upgrades follow the RFC 6455 handshake."""
import json
import re

from .c14 import _pure_int_const, lit_str_of
from .engine import comparison_of, normalise_le
from .lib import PLUMBING, callee_allow, closure_of_operand, operand_local, status_const_of_ctor, try_edges

LEVEL = "other"
TECHNIQUE = ("static analysis: per-header guard dominance over the only WebsocketUpgrade constructor (accept edge dominates it, reject edge returns for_bad_request), evaluated constants "
             "(GUID, \"13\", 101, header names, token literals), ordered SHA-1 updates, value-preserving chains key -> derive_accept_key -> Sec-WebSocket-Accept and upgraded I/O -> handler")
LEVEL_TEXT = ("Decided on the MIR of the current tree, for every path: the single construction site of WebsocketUpgrade (private field, one aggregate, inside from_request) is reached only "
              "through the accept edges of four tests, one per mandatory header — Connection contains the token `upgrade` and Upgrade contains `websocket` (eq_ignore_ascii_case on the items "
              "of a split of the header text, absent header = reject), Sec-WebSocket-Version equals the evaluated bytes \"13\", Sec-WebSocket-Key present — and every reject edge returns "
              "an error built by for_bad_request (evaluated 400) without constructing the upgrade; derive_accept_key feeds SHA-1 with the key and then the constant whose evaluated value is "
              "the RFC 6455 GUID and returns STANDARD base64 of finalize(); its argument is the raw bytes of the key header and its result is the only origin of the Sec-WebSocket-Accept "
              "value in handle; handle answers status 101 with Connection: upgrade / Upgrade: websocket, spawns the task before building the response, and the task passes "
              "WebsocketConnection(WebsocketConnectionRaw(TokioIo::new(upgraded))) — the Ok payload of the awaited upgrade future and nothing else — to the user handler. "
              "Not decided: header-list tokenisation for every spelling (only `,` and space separate tokens; one header line is read), SHA-1/base64 themselves, byte transparency of hyper's upgraded I/O.")
LEVEL_NOTE = ("Trusts rustc MIR + const evaluation, the extractor, engine slices/dominators, http::HeaderMap::get / Builder::header, Option::{map,and_then,unwrap_or,ok_or_else}, "
              "Iterator::any, str::eq_ignore_ascii_case, sha1::Digest, base64 STANDARD, tokio::spawn, hyper::upgrade::on.")
EXPLANATION = ("DOM/PASS per header constant over the coroutine body of from_request; CONST for GUID / version / status / literals read from evaluated operands; ORDER of the two "
               "Digest::update calls by dominance; CHAIN slices with allow-lists; WHO-CONSTRUCTS census for WebsocketUpgrade and WebsocketUpgradeInner; SHAPE of the private field.")
TRUSTED = ["rustc nightly MIR + const evaluation", "mirfacts extractor", "rules/engine.py", "http::HeaderMap::get, http::response::Builder", "std Option/Iterator combinators",
           "sha1::Digest update/finalize, base64 STANDARD engine", "tokio::spawn, hyper::upgrade::on, hyper_util TokioIo"]

GUID = "258EAFA5-E914-47DA-95CA-C5AB0DC85B11"
UPG_ADT = "websocket::WebsocketUpgrade"
INNER_ADT = "websocket::WebsocketUpgradeInner"
GET = r"^http::HeaderMap::<T>::(get|get_all)$"
BAD = r"^error::HttpError::for_bad_request$"
OTHER_CTOR = r"^error::HttpError::for_(internal_error|unavail|not_found|client_error)"
HEADERS = r"^http::Request::<T>::headers$"
OPT_FLOW = [r"Option::<T>::map$", r"Option::<T>::and_then$", r"Option::<T>::ok_or_else$", r"Option::<T>::ok_or$", r"Option::<T>::filter$"]
HV_VIEW = [r"^http::HeaderValue::(as_bytes|to_str)$", r"Result::<T, E>::ok$", r"str::<impl str>::as_bytes$"]
TOKENS = {"CONNECTION": "upgrade", "UPGRADE": "websocket"}
OTHER_TOKEN = {"CONNECTION": "keep-alive", "UPGRADE": "h2c"}
MANDATORY = ("CONNECTION", "UPGRADE", "SEC_WEBSOCKET_VERSION", "SEC_WEBSOCKET_KEY")


# ------------------------------------------------------------------------------------------------ helpers
def _hdr_consts(sl):
    out = set()
    for a in sl.atoms:
        if a[0] == "const":
            m = re.search(r"(?:^|::)header::([A-Z_0-9]+)$", a[1])
            if m:
                out.add(m.group(1))
    return out


def _from_request(ctx, R):
    ids = [it["id"] for i in ctx.ds.impls if i["trait"].endswith("ExclusiveExtractor") and i["self"] == UPG_ADT for it in i["items"] if it["name"] == "from_request"]
    if len(ids) != 1 or ids[0] not in ctx.ds.F:
        ctx.lost(R, "impl ExclusiveExtractor for WebsocketUpgrade :: from_request")
        raise LookupError
    w = ctx.ds.F[ids[0]]
    b = ctx.ds.body_of(w)
    if b is w:
        ctx.lost(R, "coroutine body of WebsocketUpgrade::from_request")
        raise LookupError
    return w, b


def _closures_on(facts, sl):
    """Closures whose aggregate lies on the slice, and the closures nested in them."""
    out = []
    for a in sl.atoms:
        if a[0] == "agg" and a[1] in facts.F:
            g = facts.F[a[1]]
            if g not in out:
                out.append(g)
                for d in facts.descendants(g):
                    if d not in out:
                        out.append(d)
    return out


def _err_is_400(facts, f, op):
    s = f.slice(op)
    if s.has_call(OTHER_CTOR):
        return False
    if s.has_call(BAD):
        return True
    for g in _closures_on(facts, s):
        rs = g.slice({"l": 0, "p": []})
        if rs.has_call(BAD) and not rs.has_call(OTHER_CTOR):
            return True
    return False


def _ret_defs(f, blocks):
    """Definitions of the return place inside `blocks`: [(bb, operand-to-judge)]."""
    out = []
    for bb, kind, node in f.defs().get(0, []):
        if bb not in blocks or f.blocks[bb]["cleanup"]:
            continue
        if kind == "assign" and not node["pl"]["p"]:
            rv = node["rv"]
            if rv["rv"] == "agg" and rv.get("adt") == "std::result::Result":
                out.append((bb, rv["variant"], rv["ops"][0]))
            elif rv["rv"] == "use":
                out.append((bb, "?", rv["op"]))
            else:
                out.append((bb, "?", None))
        elif kind == "call":
            out.append((bb, "Err" if (node.get("callee") or "").endswith("FromResidual::from_residual") else "?", node["args"][0] if node["args"] else None))
    return out


def _bool_root(f, sbb):
    """Follow Not / copies from a bool switch to the call that produced the value: (negated, call term) or None."""
    info = f.switch_on(sbb)
    if info["kind"] != "bool":
        return None
    dbb, kind, node = info["def"]
    neg = False
    for _ in range(6):
        if kind == "call":
            return neg, node
        if kind == "assign" and node["rv"]["rv"] == "unop" and node["rv"]["op"] == "Not":
            neg = not neg
            op = node["rv"]["a"]
        elif kind == "assign" and node["rv"]["rv"] == "use":
            op = node["rv"]["op"]
        else:
            return None
        l = operand_local(op)
        ds = f.defs().get(l, []) if l is not None else []
        if len(ds) != 1:
            return None
        dbb, kind, node = ds[0]
    return None


def _const_bool(op):
    if op.get("k") == "const" and op.get("ty") == "bool" and op.get("val") and "int" in op["val"]:
        return bool(op["val"]["int"])
    return None


def _absent_default(term):
    """For the Option fold that ends a header test: the bool produced when the header is absent."""
    c = term.get("callee") or ""
    if re.search(r"Option::<T>::unwrap_or$", c) or re.search(r"Option::<T>::map_or$", c):
        return _const_bool(term["args"][1])
    if re.search(r"Option::<T>::(is_some_and|unwrap_or_default)$", c):
        return False
    if re.search(r"iter::Iterator::any$", c):
        return False          # any() over the (possibly empty) sequence of field lines
    return None


def _guard_candidates(b, get_bb, site):
    """Switches decided by the result of the header lookup at get_bb that have one edge which
    dominates `site` and other edges that cannot reach it: [(switch_bb, accept, [reject..])]."""
    out = []
    reach = b.reachable(0)
    for sbb, t in b.switches():
        if sbb not in reach or site not in b.reachable(sbb):
            continue
        sl = b.slice(t["discr"])
        if not any(bb == get_bb for _, bb, _ in sl.calls(GET)):
            continue
        succ = [s for s in b.succ(sbb) if not b.is_diverging(s)]
        acc = [s for s in succ if site in b.reachable(s)]
        rej = [s for s in succ if site not in b.reachable(s)]
        out.append((sbb, acc, rej, sl))
    return out


# ------------------------------------------------------------------------------------------------ R1
def r1_four_checks(ctx):
    R = ctx.rule("C20.R1", "the construction of WebsocketUpgrade in from_request is dominated, for each of Connection / Upgrade / Sec-WebSocket-Version / Sec-WebSocket-Key, by the accept "
                 "edge of a test of HeaderMap::get(that header) of this request; each reject edge returns an error built by for_bad_request (400) and builds no upgrade; the tests are "
                 "case-insensitive token `upgrade` / `websocket`, bytes \"13\", presence of the key", floor=18)
    try:
        w, b = _from_request(ctx, R)
    except LookupError:
        return
    reach = b.reachable(0)
    aggs = [bb for bb, i, st in b.aggregates("^" + re.escape(UPG_ADT) + "$") if bb in reach]
    if len(aggs) != 1:
        ctx.lost(R, "the single WebsocketUpgrade(..) aggregate in from_request (%d)" % len(aggs))
        return
    site = aggs[0]
    # which upvar is the request
    wagg = [st for bb, i, st in w.stmts() if st["rv"]["rv"] == "agg" and st["rv"].get("agg") in ("coroutine", "closure") and st["rv"].get("def") == b.id]
    req_idx = None
    if len(wagg) == 1:
        for i, o in enumerate(wagg[0]["rv"]["ops"]):
            ps = w.slice(o).params()
            if len(ps) == 1 and re.search(r"Request<", w.local_ty(ps[0])) and not re.search(r"RequestContext", w.local_ty(ps[0])):
                req_idx = i
    if req_idx is None:
        ctx.lost(R, "the captured hyper::Request of from_request")
        return
    st400 = status_const_of_ctor(ctx.ds, "for_bad_request")
    ctx.check(R, "for_bad_request-is-400", st400 == {400}, "status constants named in for_bad_request: %s" % sorted(st400 or []), nontrivial=False)
    all_gets = b.live_calls(GET)
    for H in MANDATORY:
        gets = [(bb, t) for bb, t in all_gets if _hdr_consts(b.slice(t["args"][1])) == {H}]
        if len(gets) != 1:
            ctx.lost(R, "HeaderMap::get(header::%s) in from_request (%d call sites)" % (H, len(gets)))
            continue
        gbb, gt = gets[0]
        rs = b.slice(gt["args"][0])
        bad = callee_allow(rs, PLUMBING + [HEADERS, r"^http::Request::<T>::headers_mut$"])
        pf = rs.param_fields()
        ctx.check(R, "%s:looked-up-in-this-request" % H, bool(pf) and all(p == 1 and fs and fs[0].startswith("f%d:" % req_idx) for p, fs in pf) and not bad,
                  "receiver of get(%s) is headers() of the captured request (upvar %d) via %s" % (H, req_idx, [x[0] for x in bad] or "headers() only"), (b, gbb))
        cands = _guard_candidates(b, gbb, site)
        good = None
        why = "no switch decided by get(%s) separates the constructor from an early return" % H
        for sbb, acc, rej, sl in cands:
            if len(acc) != 1 or not rej:
                why = "both edges of the test of %s reach the WebsocketUpgrade constructor (the header is not enforced)" % H
                continue
            if not b.edge_dominates(sbb, acc[0], site):
                why = "the accept edge of the test of %s does not dominate the constructor" % H
                continue
            good = (sbb, acc[0], rej, sl)
            break
        ctx.check(R, "%s:accept-edge-dominates-constructor" % H, good is not None,
                  ("WebsocketUpgrade(..) is reachable only through the accept edge of the test of %s" % H) if good else why, (b, cands[0][0] if cands else gbb))
        if good is None:
            continue
        sbb, acc, rej, sl = good
        # reject edges: every path returns a 400
        ok_rej = True
        det = []
        for r in rej:
            region = b.reachable(r)
            defs = _ret_defs(b, region)
            good_defs = [bb for bb, var, op in defs if var == "Err" and op is not None and _err_is_400(ctx.ds, b, op)]
            bad_defs = [bb for bb, var, op in defs if bb not in good_defs]
            ok_rej = ok_rej and bool(good_defs) and not bad_defs and b.must_pass(good_defs, start=r)
            det.append("%d Err(for_bad_request) exit(s), %d other" % (len(good_defs), len(bad_defs)))
        ctx.check(R, "%s:reject-edge-is-400" % H, ok_rej, "reject edge of the test of %s: %s; every path to the return passes one" % (H, "; ".join(det)), (b, sbb))
        # the test itself
        if H in TOKENS:
            root = _bool_root(b, sbb)
            if root is None:
                ctx.lost(R, "the Option fold producing the %s test's bool" % H)
                continue
            neg, term = root
            dflt = _absent_default(term)
            tb, fb = b.bool_edges(sbb)
            truth_edge = fb if neg else tb
            cls = _closures_on(ctx.ds, sl)
            tests = []
            nots = False
            for g in cls:
                for cbb, ct in g.live_calls(r"str::<impl str>::eq_ignore_ascii_case$"):
                    lits = [lit_str_of(g, a) for a in ct["args"]]
                    tests.append([x.lower() for x in lits if x is not None])
                rsl = g.slice({"l": 0, "p": []})
                nots = nots or ("unop", "Not") in rsl.atoms or rsl.has_call(r"Iterator::all$")
            split = any(g.live_calls(r"str::<impl str>::(split|split_terminator|split_ascii_whitespace|split_whitespace)$") for g in cls)
            anyc = any(g.live_calls(r"iter::Iterator::any$") for g in cls)
            cs = any(g.live_calls(r"cmp::PartialEq::(eq|ne)$") for g in cls if g.raw["kind"] == "Closure" and g.slice({"l": 0, "p": []}).has_call(r"cmp::PartialEq::(eq|ne)$") and
                     any(lit_str_of(g, a) for _, t2 in g.live_calls(r"cmp::PartialEq::(eq|ne)$") for a in t2["args"]))
            ok = dflt is False and truth_edge == acc and [TOKENS[H]] in tests and not nots and split and anyc and not cs
            ctx.check(R, "%s:case-insensitive-token-test" % H, ok,
                      "accept edge = test true: %s; absent header folds to %s; eq_ignore_ascii_case literals %s (want %r) on any() of a split of the header text: %s/%s; negation or case-sensitive compare in the closures: %s"
                      % (truth_edge == acc, dflt, tests, TOKENS[H], anyc, split, nots or cs), (b, sbb))
        elif H == "SEC_WEBSOCKET_VERSION":
            c = comparison_of(b, sbb)
            ok, det = False, "the version test is not an equality comparison"
            if c:
                for val_op, lit_op in ((c["a"], c["b"]), (c["b"], c["a"])):
                    vs, ls = b.slice(val_op), b.slice(lit_op)
                    if not any(bb == gbb for _, bb, _ in vs.calls(GET)) or ls.callees or ls.params():
                        continue
                    lits = [a for a in ls.atoms if a[0] in ("lit", "const")]
                    vals = []
                    for a in lits:
                        try:
                            v = json.loads(a[1] if a[0] == "lit" else a[2])
                        except Exception:
                            v = None
                        vals.append(v.get("str") if isinstance(v, dict) else None)
                    if not lits or None in vals:
                        ctx.lost(R, "evaluated value of the version literal (byte-string constant without a value in the facts)")
                        det = None
                        break
                    some = any(a[0] == "agg" and a[1] == "std::option::Option" and a[2] == "Some" for a in ls.atoms)
                    eq_edges = [c[e] for rel, x, y, e in normalise_le(c) if rel == "eq"]
                    badv = callee_allow(vs, PLUMBING + [GET, HEADERS] + OPT_FLOW)
                    badc = [t2["callee"] for g in _closures_on(ctx.ds, vs) for _, t2 in g.live_calls() if not any(re.search(p, t2["callee"] or "") for p in HV_VIEW + PLUMBING)]
                    ok = vals == ["13"] and some and eq_edges == [acc] and not badv and not badc
                    det = "compares Option(header bytes) with Some(%r); accept edge is the equal edge: %s; transformations of the header value: %s" % (vals, eq_edges == [acc], [x[0] for x in badv] + badc or "none")
            if det is not None:
                ctx.check(R, "%s:equals-13" % H, ok, det, (b, sbb))
        else:
            info = b.switch_on(sbb)
            tb_ = [(tbb, tt) for tbb, tt in b.live_calls(r"ops::Try::branch$") if info["kind"] == "discr" and tt["dest"]["l"] == info["place"]["l"]]
            ok, det = False, "the key test is not a `?` on Option::ok_or_else(..)"
            if len(tb_) == 1:
                ks = b.slice(tb_[0][1]["args"][0])
                badk = callee_allow(ks, PLUMBING + [GET, HEADERS] + OPT_FLOW)
                te = try_edges(b, operand_local(tb_[0][1]["args"][0]))
                ok = bool(te) and te["cont"] == acc and ks.has_call(r"Option::<T>::ok_or(_else)?$") and not badk
                det = "`?` on get(KEY)..ok_or_else(..): Continue edge is the accept edge: %s; other callees on the chain: %s" % (bool(te) and te["cont"] == acc, [x[0] for x in badk] or "none")
            ctx.check(R, "%s:presence-required" % H, ok, det, (b, sbb))
    # nothing else may return Ok
    oks = [bb for bb, i, st in b.aggregates(r"^std::result::Result$", "Ok") if bb in reach]
    ctx.check(R, "ok-only-after-constructor", bool(oks) and all(b.dominates(site, o) for o in oks), "every Ok(..) of from_request is dominated by the WebsocketUpgrade constructor (%d site(s))" % len(oks), (b, site))


# ------------------------------------------------------------------------------------------------ R2
def r2_accept_digest(ctx):
    R = ctx.rule("C20.R2", "derive_accept_key = STANDARD-base64(SHA-1(key ++ GUID)) with the RFC 6455 GUID; its argument is the raw bytes of the Sec-WebSocket-Key header and its result "
                 "is the only origin of the Sec-WebSocket-Accept header value", floor=9)
    f = ctx.need_fn(ctx.ds, R, r"^websocket::derive_accept_key$")
    ups = f.live_calls(r"^sha1::Digest::update$|digest::Digest::update$")
    fin = f.live_calls(r"^sha1::Digest::finalize$|digest::Digest::finalize$")
    encs = f.live_calls(r"^base64::Engine::encode$")
    if len(ups) != 2 or len(fin) != 1 or len(encs) != 1:
        ctx.lost(R, "two Digest::update, one finalize, one Engine::encode in derive_accept_key (%d/%d/%d)" % (len(ups), len(fin), len(encs)))
        return
    # classify the updates by their data argument
    key_up = guid_up = None
    guid_val = None
    for bb, t in ups:
        s = f.slice(t["args"][1])
        if s.params() == [1] and not s.callees and not [a for a in s.atoms if a[0] in ("const", "lit")]:
            key_up = (bb, t)
        elif not s.params() and not s.callees:
            vals = []
            for a in s.atoms:
                if a[0] in ("const", "lit"):
                    try:
                        v = json.loads(a[2] if a[0] == "const" else a[1])
                    except Exception:
                        v = None
                    vals.append(v.get("str") if isinstance(v, dict) and "str" in v else (bytes(v["bytes"]).decode("latin-1") if isinstance(v, dict) and isinstance(v.get("bytes"), list) else None))
            guid_up = (bb, t)
            guid_val = vals
    if key_up is None or guid_up is None:
        ctx.check(R, "updates-are-key-and-guid", False, "the two Digest::update calls are not (the key argument unmodified, a constant)", f)
        return
    if not guid_val or None in guid_val:
        ctx.lost(R, "evaluated value of the GUID constant (byte-string constant without a value in the facts)")
    else:
        ctx.check(R, "guid-value", guid_val == [GUID], "constant hashed after the key = %r (RFC 6455: %r)" % (guid_val, GUID), (f, guid_up[0]))
    # one hasher
    def hasher(op):
        s = f.slice(op, stop_at_calls=r".")
        return set(l for l in s.locals() if re.search(r"sha1::|Sha1", f.local_ty(l)) and not f.local_ty(l).startswith("&"))
    hk, hg, hf = hasher(key_up[1]["args"][0]), hasher(guid_up[1]["args"][0]), hasher(fin[0][1]["args"][0])
    ctx.check(R, "one-sha1-state", bool(hk) and hk == hg and hk <= hf, "both updates and finalize operate on the same SHA-1 state (locals %s / %s / %s of type %s)"
              % (sorted(hk), sorted(hg), sorted(hf), sorted(set(f.local_ty(l) for l in hk))[:1]), f)
    inits = []
    for l in hk:
        for bb, kind, node in f.defs().get(l, []):
            if kind == "call":
                inits.append(node.get("callee"))
            elif kind == "assign" and node["rv"]["rv"] != "use":
                inits.append(node["rv"]["rv"])
    ctx.check(R, "fresh-sha1-state", bool(inits) and all(re.search(r"Default::default$|Digest::new$", i or "") for i in inits), "hasher initialised by %s" % inits, f)
    ctx.check(R, "key-then-guid-then-finalize", f.dominates(key_up[0], guid_up[0]) and f.dominates(guid_up[0], fin[0][0]) and key_up[0] != guid_up[0]
              and key_up[0] not in f.loop_blocks() and guid_up[0] not in f.loop_blocks(),
              "update(key) dominates update(GUID) dominates finalize(): %s / %s" % (f.dominates(key_up[0], guid_up[0]), f.dominates(guid_up[0], fin[0][0])), (f, guid_up[0]))
    ebb, et = encs[0]
    eng = sorted(set(a[1] for a in f.slice(et["args"][0]).atoms if a[0] == "const"))
    ds_ = f.slice(et["args"][1])
    badd = callee_allow(ds_, PLUMBING + [r"Digest::(update|finalize)$", r"Default::default$", r"Digest::new$", r"AsRef::as_ref$", r"GenericArray.*as_slice$"])
    ret = f.slice({"l": 0, "p": []})
    ctx.check(R, "standard-base64-of-the-digest", len(eng) == 1 and bool(re.search(r"(^|::)STANDARD$", eng[0])) and any(bb == fin[0][0] for _, bb, _ in ds_.calls(r"Digest::finalize$")) and not badd
              and any(bb == ebb for _, bb, _ in ret.calls(r"Engine::encode$")) and not callee_allow(ret, PLUMBING + [r"Engine::encode$", r"Digest::(update|finalize)$", r"Default::default$", r"Digest::new$", r"AsRef::as_ref$"]),
              "engine %s, data = finalize() via %s, result returned unmodified" % (eng, [x[0] for x in badd] or "a borrow only"), (f, ebb))
    # the argument: raw bytes of the key header; the result: accept_key of the inner struct
    try:
        w, b = _from_request(ctx, R)
    except LookupError:
        return
    inner = [(bb, st) for bb, i, st in b.aggregates("^" + re.escape(INNER_ADT) + "$") if bb in b.reachable(0)]
    all_inner = [(g.id, bb) for g in ctx.ds.F.values() for bb, i, st in g.aggregates("^" + re.escape(INNER_ADT) + "$")]
    fields = [fl["name"] for fl in ctx.ds.adts[INNER_ADT]["variants"][0]["fields"]]
    if len(inner) != 1 or len(all_inner) != 1 or "accept_key" not in fields:
        ctx.lost(R, "the single WebsocketUpgradeInner{..accept_key..} aggregate (in from_request: %d, anywhere: %d)" % (len(inner), len(all_inner)))
        return
    ibb, ist = inner[0]
    ks = b.slice(ist["rv"]["ops"][fields.index("accept_key")])
    badk = callee_allow(ks, PLUMBING + [GET, HEADERS] + OPT_FLOW)
    hdrs = _hdr_consts(ks)
    cls = [g for g in _closures_on(ctx.ds, ks)]
    derive_sites, other = [], []
    for g in cls:
        for cbb, ct in g.live_calls():
            c = ct.get("callee") or ""
            if c == f.id:
                a = g.slice(ct["args"][0])
                derive_sites.append((g, cbb, a.params() == [2] and not a.callees))
            elif re.search(r"^http::HeaderValue::as_bytes$", c) or re.search(BAD, c) or re.search(r"ToString::to_string$", c):
                pass
            else:
                other.append(c)
    ctx.check(R, "accept-key-is-digest-of-raw-key-bytes", hdrs == {"SEC_WEBSOCKET_KEY"} and not badk and len(derive_sites) == 1 and derive_sites[0][2] and not other,
              "WebsocketUpgradeInner.accept_key <- get(%s) -> as_bytes -> derive_accept_key (sites %d, argument is the mapped value unmodified: %s); other operations on the chain: %s"
              % (sorted(hdrs), len(derive_sites), [d[2] for d in derive_sites], [x[0] for x in badk] + other or "none"), (b, ibb))
    dcallers = [(g.id, bb) for g, bb, t in ctx.ds.callers_of("^" + re.escape(f.id) + "$")]
    ctx.check(R, "derive-called-once", len(dcallers) == 1, "call sites of derive_accept_key: %s" % [d[0].split("::")[-1] for d in dcallers], f)
    h = ctx.need_fn(ctx.ds, R, r"^websocket::WebsocketUpgrade::handle$")
    acc = [(bb, t) for bb, t in h.live_calls(r"^http::response::Builder::header$") if _hdr_consts(h.slice(t["args"][1])) == {"SEC_WEBSOCKET_ACCEPT"}]
    if len(acc) != 1:
        ctx.lost(R, "Builder::header(SEC_WEBSOCKET_ACCEPT, ..) in handle (%d)" % len(acc))
        return
    abb, at = acc[0]
    vs = h.slice(at["args"][2])
    badv = callee_allow(vs, PLUMBING)
    ctx.check(R, "accept-header-is-the-stored-digest", vs.reads_field("accept_key") and vs.params() == [1] and not badv and not [a for a in vs.atoms if a[0] in ("lit", "const")],
              "Sec-WebSocket-Accept value = self.0.take().accept_key (params %s) via %s" % (vs.params(), [x[0] for x in badv] or "Option::take only"), (h, abb))
    writes = []
    for g in ctx.ds.F.values():
        for bb, i, st in g.stmts():
            if any(isinstance(e, dict) and e.get("n") == "accept_key" for e in st["pl"]["p"]):
                writes.append(g.id)
    ctx.check(R, "accept_key-never-reassigned", not writes, "assignments through .accept_key: %s" % writes, h)


# ------------------------------------------------------------------------------------------------ R3
def r3_switching_and_handoff(ctx):
    R = ctx.rule("C20.R3", "handle answers 101 with Connection: upgrade and Upgrade: websocket after spawning the task; the task hands "
                 "WebsocketConnection(WebsocketConnectionRaw(TokioIo::new(Ok payload of the awaited upgrade future))) to the user handler", floor=7)
    h = ctx.need_fn(ctx.ds, R, r"^websocket::WebsocketUpgrade::handle$")
    reach = h.reachable(0)
    stat = h.live_calls(r"^http::response::Builder::status$")
    body = h.live_calls(r"^http::response::Builder::body$")
    hdrs = h.live_calls(r"^http::response::Builder::header$")
    if len(stat) != 1 or len(body) != 1:
        ctx.lost(R, "Builder::status / Builder::body in handle (%d/%d)" % (len(stat), len(body)))
        return
    sv = _pure_int_const(h.slice(stat[0][1]["args"][1]))
    ctx.check(R, "status-101", sv is not None and sv[1] == 101, "Builder::status(%s)" % (sv,), (h, stat[0][0]))
    want = {"CONNECTION": "upgrade", "UPGRADE": "websocket"}
    seen = {}
    for bb, t in hdrs:
        ks = _hdr_consts(h.slice(t["args"][1]))
        if len(ks) == 1:
            seen.setdefault(list(ks)[0], []).append((bb, lit_str_of(h, t["args"][2])))
    for k, v in want.items():
        vals = seen.get(k, [])
        ctx.check(R, "response-header:%s" % k, len(vals) == 1 and vals[0][1] is not None and vals[0][1].lower() == v,
                  "%s: %s (want %r, case-insensitive)" % (k, [x[1] for x in vals], v), (h, vals[0][0] if vals else stat[0][0]))
    bs = h.slice(body[0][1]["args"][0])
    chain = set(bb for _, bb, _ in bs.calls(r"^http::response::Builder::(status|header)$"))
    need = {stat[0][0]} | set(x[0][0] for k, x in seen.items() if k in ("CONNECTION", "UPGRADE", "SEC_WEBSOCKET_ACCEPT") and x)
    ret = h.slice({"l": 0, "p": []})
    ctx.check(R, "returned-response-is-that-builder", need <= chain and len(need) == 4 and any(bb == body[0][0] for _, bb, _ in ret.calls(r"Builder::body$")),
              "the returned response is body() of the builder carrying status + Connection + Upgrade + Sec-WebSocket-Accept (%d of 4 on the chain)" % len(need & chain), (h, body[0][0]))
    # spawn
    sp = h.live_calls(r"^tokio::(task::)?spawn$")
    if len(sp) != 1:
        ctx.lost(R, "tokio::spawn in handle (%d)" % len(sp))
        return
    spbb, spt = sp[0]
    co, node = closure_of_operand(h, spt["args"][0])
    if co is None:
        ctx.lost(R, "the coroutine passed to tokio::spawn")
        return
    ctx.check(R, "task-spawned-before-response", h.dominates(spbb, body[0][0]) and spbb not in h.loop_blocks(),
              "tokio::spawn dominates the construction of the 101 response: %s" % h.dominates(spbb, body[0][0]), (h, spbb))
    i_fut = i_handler = None
    for i, o in enumerate(node["rv"]["ops"]):
        s = h.slice(o)
        if s.reads_field("upgrade_fut") and not callee_allow(s, PLUMBING):
            i_fut = i
        elif s.params() == [2] and not s.callees:
            i_handler = i
    if i_fut is None or i_handler is None:
        ctx.lost(R, "captures of the spawned task (upgrade_fut: %s, handler: %s)" % (i_fut, i_handler))
        return
    calls = co.live_calls(r"^std::ops::FnOnce::call_once$|^std::ops::Fn(Mut)?::call(_mut)?$")
    calls = [(bb, t) for bb, t in calls if any(p == 1 and fs and fs[0].startswith("f%d:" % i_handler) for p, fs in co.slice(t["args"][0]).param_fields())]
    if len(calls) != 1:
        ctx.lost(R, "the call of the user handler inside the spawned task (%d)" % len(calls))
        return
    cbb, ct = calls[0]
    arg = co.slice(ct["args"][1])
    bada = callee_allow(arg, PLUMBING + [r"TokioIo::<T>::new$", r"Future::poll$", r"IntoFuture::into_future$"])
    wraps = sorted(a[1].split("::")[-1] for a in arg.atoms if a[0] == "agg" and a[1].startswith("websocket::"))
    from_fut = any(p == 1 and fs and fs[0].startswith("f%d:" % i_fut) for p, fs in arg.param_fields())
    tio = arg.calls(r"TokioIo::<T>::new$")
    ctx.check(R, "handler-gets-the-upgraded-io", wraps == ["WebsocketConnection", "WebsocketConnectionRaw"] and len(tio) == 1 and from_fut and not bada,
              "handler argument wraps TokioIo::new(..) of the awaited upgrade_fut in %s (from upvar: %s); other operations: %s" % (wraps, from_fut, [x[0] for x in bada] or "none"), (co, cbb))
    # Ok edge of the awaited result dominates the handler call
    okdom = False
    if tio:
        ts = co.slice(tio[0][2]["args"][0])
        for sbb, t in co.switches():
            info = co.switch_on(sbb)
            if info["kind"] == "discr" and info.get("adt") == "std::result::Result" and info["place"]["l"] in ts.locals():
                vidx = {n: v for v, n in info["variants"].items()}
                if "Ok" in vidx and co.edge_dominates(sbb, co.switch_target(sbb, vidx["Ok"]), cbb) and cbb not in co.reachable(co.switch_target(sbb, vidx["Err"])):
                    okdom = True
    ctx.check(R, "handler-runs-only-on-successful-upgrade", okdom, "the handler call is dominated by the Ok edge of `upgrade_fut.await`; the Err edge calls no handler", (co, cbb))


# ------------------------------------------------------------------------------------------------ R4
def r4_no_bypass(ctx):
    R = ctx.rule("C20.R4", "WebsocketUpgrade's field is private and the only place that constructs it (or its inner struct) is from_request", floor=3)
    a = ctx.ds.adts.get(UPG_ADT)
    if not a:
        ctx.lost(R, "ADT table of WebsocketUpgrade")
        return
    fl = a["variants"][0]["fields"]
    ctx.check(R, "field-private", len(fl) == 1 and fl[0]["vis"] != "Public", "fields of WebsocketUpgrade: %s" % [(x["name"], x["vis"].split("(")[0]) for x in fl], nontrivial=False)
    try:
        w, b = _from_request(ctx, R)
    except LookupError:
        return
    home = set([w.id, b.id] + [g.id for g in ctx.ds.descendants(b)])
    for adt in (UPG_ADT, INNER_ADT):
        sites = sorted(set(g.id for g in ctx.ds.F.values() for bb, i, st in g.aggregates("^" + re.escape(adt) + "$")))
        ctx.check(R, "constructed-only-in-from_request:%s" % adt.split("::")[-1], bool(sites) and all(s in home for s in sites), "aggregate sites: %s" % [s.split(">::")[-1] for s in sites], b)


# ------------------------------------------------------------------------------------------------ optional (not in RULES): value-level list parsing
def x5_list_headers(ctx):
    """Armed since the repair d8a2f7a (the pinned tree read only the first field line and ignored HTAB; see known_findings.json `fixed:`):
    Connection / Upgrade are comma-separated list fields that may be split over several field lines and use SP / HTAB as optional whitespace (RFC 9110 5.3, 5.6.1);
    the structural necessary conditions are (a) every field line is consulted (HeaderMap::get_all, not get = first line only) and (b) tokens are trimmed of SP and HTAB."""
    R = ctx.rule("C20.X5", "list-valued handshake headers: all field lines are consulted and tokens are separated by `,` with SP/HTAB optional whitespace", floor=4)
    try:
        w, b = _from_request(ctx, R)
    except LookupError:
        return
    for H in ("CONNECTION", "UPGRADE"):
        gets = [(bb, t) for bb, t in b.live_calls(GET) if _hdr_consts(b.slice(t["args"][1])) == {H}]
        if len(gets) != 1:
            ctx.lost(R, "lookup of %s" % H)
            continue
        gbb, gt = gets[0]
        ctx.check(R, "%s:all-field-lines" % H, gt["callee"].endswith("get_all"),
                  "%s is read with %s: %s" % (H, gt["callee"].split("::")[-1], "every field line" if gt["callee"].endswith("get_all") else
                                             "only the first field line is seen, so `%s: %s` followed by a second `%s: %s` line is answered 400" % (H.title(), OTHER_TOKEN[H], H.title(), TOKENS[H])), (b, gbb))
        seps, trims = set(), False
        for sbb, t in b.switches():
            sl = b.slice(t["discr"])
            if not any(bb == gbb for _, bb, _ in sl.calls(GET)):
                continue
            for g in _closures_on(ctx.ds, sl):
                trims = trims or bool(g.live_calls(r"str::<impl str>::trim$|trim_matches$"))
                for bb, i, st in g.stmts():
                    rv = st["rv"]
                    if rv["rv"] == "binop" and rv["op"] == "Eq":
                        for o in (rv["a"], rv["b"]):
                            if o.get("k") == "const" and o.get("ty") == "char" and o.get("val"):
                                seps.add(o["val"]["int"])
                for bb, t2 in g.live_calls(r"str::<impl str>::split$"):
                    for a in t2["args"][1:]:
                        if a.get("k") == "const" and a.get("ty") == "char" and a.get("val"):
                            seps.add(a["val"]["int"])
        ok = 44 in seps and (trims or {32, 9} <= seps)
        ctx.check(R, "%s:ows-is-sp-and-htab" % H, ok, "separator characters %s, items trimmed: %s%s" % (sorted(chr(c) for c in seps), trims,
                  "" if ok else " — `%s: %s,<TAB>%s` is answered 400" % (H.title(), OTHER_TOKEN[H], TOKENS[H])), (b, gbb))


OPTIONAL_RULES = []  # X5 is armed since the repair d8a2f7a in /repo


def r6_both_transports_upgradeable(ctx):
    """Added after adversary change C20-B (the TLS accept arm served connections with `serve_connection`, which answers
    101 but never hands the upgraded connection over): every accepted connection must be served with upgrade support."""
    from .lib_c16 import server_task
    R = ctx.rule("C20.R6", "every connection, plain or TLS, is served with hyper's upgrade support (serve_connection_with_upgrades), so a 101 is followed by the hand-off to the channel handler", floor=2)
    stt = server_task(ctx.ds)
    if isinstance(stt, str):
        ctx.lost(R, stt)
        return
    st, sp, co, node = stt
    sites = []
    for f in ctx.ds.F.values():
        if f.id.startswith(("test_util", "logging")):
            continue
        for bb, t in f.live_calls(r"::serve_connection(_with_upgrades)?$"):
            sites.append((f, bb, t))
    for f, bb, t in sites:
        ok = t["callee"].endswith("serve_connection_with_upgrades")
        ctx.check(R, "serve-site:%s" % ("with-upgrades" if ok else "without-upgrades"), ok and f is co,
                  "%s in %s" % (t["callee"].split("::")[-1], f.id), (f, bb))
    ctx.check(R, "two-transports", len(sites) == 2, "connection-serving call sites: %d (HTTP and HTTPS accept arms)" % len(sites), co)


RULES = [("C20.R6", r6_both_transports_upgradeable), ("C20.R1", r1_four_checks), ("C20.R2", r2_accept_digest), ("C20.R3", r3_switching_and_handoff), ("C20.R4", r4_no_bypass), ("C20.X5", x5_list_headers)]

WS = "dropshot/src/websocket.rs"
_VER_HEAD = """        if request
            .headers()
            .get(header::SEC_WEBSOCKET_VERSION)"""
_VER_TAIL = """            != Some(b"13")
        {"""
_CONN_FOLD = """                    .any(|vs| vs.eq_ignore_ascii_case("upgrade"))
            })
            .unwrap_or(false)"""
_UPDATES = """    sha1.update(request_key);
    sha1.update(WS_GUID);"""
_KEY_ERR = """                HttpError::for_bad_request(
                    None,
                    "missing websocket key".to_string(),
                )"""

SELFTEST = [
    {"name": "version-check-disabled", "kind": "mutant", "edits": [(WS, _VER_TAIL, '            != Some(b"13")\n            && false\n        {')],
     "expect": ["C20.R1"], "why": "a request with a wrong or missing Sec-WebSocket-Version is upgraded (Appendix B: version check removed)"},
    {"name": "version-12", "kind": "mutant", "edits": [(WS, 'Some(b"13")', 'Some(b"12")')], "expect": ["C20.R1"], "why": "version 13 handshakes are refused, version 12 accepted"},
    {"name": "guid-typo", "kind": "mutant", "edits": [(WS, 'const WS_GUID: &[u8] = b"258EAFA5-E914-47DA-95CA-C5AB0DC85B11";', 'const WS_GUID: &[u8] = b"258EAFA5-E914-47DA-95CA-C5AB0DC85B1l";')],
     "expect": ["C20.R2"], "why": "Sec-WebSocket-Accept is not the RFC 6455 digest (Appendix B)"},
    {"name": "guid-before-key", "kind": "mutant", "edits": [(WS, _UPDATES, "    sha1.update(WS_GUID);\n    sha1.update(request_key);")],
     "expect": ["C20.R2"], "why": "digest of GUID ++ key instead of key ++ GUID (Appendix B)"},
    {"name": "accept-is-the-raw-key", "kind": "mutant", "edits": [(WS, ".map(|key| derive_accept_key(key))", ".map(|key| String::from_utf8_lossy(key).into_owned())")],
     "expect": ["C20.R2"], "why": "Sec-WebSocket-Accept echoes the request key (Appendix B)"},
    {"name": "accept-header-constant", "kind": "mutant", "edits": [(WS, ".header(header::SEC_WEBSOCKET_ACCEPT, accept_key)", '.header(header::SEC_WEBSOCKET_ACCEPT, "s3pPLMBiTxaQ9kYGzzhZRbK+xOo=")')],
     "expect": ["C20.R2"], "why": "accept value is not derived from this request's key"},
    {"name": "accept-urlsafe-base64", "kind": "mutant", "edits": [(WS, "base64::engine::general_purpose::STANDARD.encode(&sha1.finalize())", "base64::engine::general_purpose::URL_SAFE.encode(&sha1.finalize())")],
     "expect": ["C20.R2"], "why": "digests containing '+' or '/' are encoded with the wrong alphabet"},
    {"name": "connection-token-case-sensitive", "kind": "mutant", "edits": [(WS, '.any(|vs| vs.eq_ignore_ascii_case("upgrade"))', '.any(|vs| vs == "upgrade")')],
     "expect": ["C20.R1"], "why": "`Connection: Upgrade` (the usual spelling) is refused"},
    {"name": "missing-connection-accepted", "kind": "mutant", "edits": [(WS, """                    .any(|vs| vs.eq_ignore_ascii_case("upgrade"))
            })
        {""", """                    .any(|vs| vs.eq_ignore_ascii_case("upgrade"))
            })
            && request.headers().contains_key(header::CONNECTION)
        {""")],
     "expect": ["C20.R1"], "why": "a request without a Connection header is upgraded"},
    {"name": "upgrade-test-inverted", "kind": "mutant", "edits": [(WS, "        if !request\n            .headers()\n            .get_all(header::UPGRADE)", "        if request\n            .headers()\n            .get_all(header::UPGRADE)")],
     "expect": ["C20.R1"], "why": "Upgrade: websocket is refused and everything else accepted"},
    {"name": "prefix-f7-first-line-only", "kind": "mutant", "revert": "d8a2f7a", "expect": ["C20.X5"], "why": "pre-fix code: only the first Connection/Upgrade field line is read and HTAB is not list whitespace"},
    {"name": "missing-key-is-500", "kind": "mutant", "edits": [(WS, _KEY_ERR, '                HttpError::for_internal_error(\n                    "missing websocket key".to_string(),\n                )')],
     "expect": ["C20.R1"], "why": "a handshake without a key gets a 5xx instead of a 400-level error"},
    {"name": "status-200", "kind": "mutant", "edits": [(WS, ".status(StatusCode::SWITCHING_PROTOCOLS)", ".status(StatusCode::OK)")], "expect": ["C20.R3"], "why": "the upgrade is not answered with 101"},
    {"name": "no-upgrade-response-header", "kind": "mutant", "edits": [(WS, '                    .header(header::UPGRADE, "websocket")\n', "")], "expect": ["C20.R3"], "why": "101 without Upgrade: websocket"},
    {"name": "version-eq-spelling", "kind": "benign", "edits": [(WS, _VER_HEAD, _VER_HEAD.replace("if request", "if !(request")), (WS, _VER_TAIL, '            == Some(b"13"))\n        {')],
     "why": "behaviour-preserving: `a != b` written `!(a == b)`"},
    {"name": "rename-closure-vars", "kind": "benign", "edits": [(WS, '.any(|vs| vs.eq_ignore_ascii_case("upgrade"))', '.any(|tok| tok.eq_ignore_ascii_case("UPGRADE"))'), (WS, ".map(|key| derive_accept_key(key))", ".map(|k| derive_accept_key(k))")],
     "why": "behaviour-preserving: renamed closure parameters; the literal's case is irrelevant under eq_ignore_ascii_case"},
    {"name": "response-headers-reordered", "kind": "benign",
     "edits": [(WS, '                    .header(header::CONNECTION, "Upgrade")\n                    .header(header::UPGRADE, "websocket")\n', '                    .header(header::UPGRADE, "websocket")\n                    .header(header::CONNECTION, "upgrade")\n')],
     "why": "behaviour-preserving: independent builder calls reordered; Connection option tokens are case-insensitive"},
    {"name": "hasher-renamed-new", "kind": "benign",
     "edits": [(WS, "    let mut sha1 = Sha1::default();\n" + _UPDATES + "\n    base64::engine::general_purpose::STANDARD.encode(&sha1.finalize())",
                "    let mut hasher = Sha1::new();\n    hasher.update(request_key);\n    hasher.update(WS_GUID);\n    let digest = hasher.finalize();\n    base64::engine::general_purpose::STANDARD.encode(&digest)")],
     "why": "behaviour-preserving: local renamed, Sha1::new() for default(), digest bound to a local"},
    {"name": "connection-all-lines-trimmed", "kind": "benign",
     "edits": [(WS, """            .any(|hv| {
                hv.split(|c| c == ',' || c == ' ' || c == '\\t')
                    .any(|vs| vs.eq_ignore_ascii_case("upgrade"))
            })
""", """            .any(|hv| hv.split(',').any(|t| t.trim().eq_ignore_ascii_case("upgrade")))
""")],
     "why": "property-preserving: tokens are split on ',' and trimmed of all whitespace instead of splitting on SP/HTAB; same reject/accept structure"},
    {"name": "log-line-and-match", "kind": "benign",
     "edits": [(WS, "        let route = request.uri().to_string();", '        debug!(rqctx.log, "websocket handshake accepted");\n        let route = request.uri().to_string();'),
               (WS, "            })\n        {\n            return Err(HttpError::for_bad_request(\n                None,\n                \"expected connection upgrade\".to_string(),\n            ));\n        }",
                "            })\n        {\n            match () {\n                () => return Err(HttpError::for_bad_request(\n                    None,\n                    \"expected connection upgrade\".to_string(),\n                )),\n            }\n        }")],
     "why": "behaviour-preserving: a log line on the accept path, the early return wrapped in a match"},
]

LEVEL_TEXT += ' Also (X5): every field line of the list-valued handshake headers is consulted and SP/HTAB are list whitespace; (R6): plain and TLS connections are both served with upgrade support.'
