"""C20 — WebSocket upgrades follow the RFC 6455 handshake."""
import json
import re

from .c14 import _pure_int_const, lit_str_of
from .lib import ITER_PLUMBING, PLUMBING, callee_allow, closure_of_operand, operand_local, http_error_ctors_on_error_path, result_split, status_const_of_ctor
from .lib_c20 import (DIGEST_OUT, blocks_after_success, chain_calls, chain_closures, chain_fnitems, digest_message, element_hops, local_view, arrives_unmodified, encoded_text, enforced_at, error_ctor_names, lift_atom, origin_chains, pattern_answers, resolve_lit, returns_true_given,
                      returned_variant_sites, separator_answers)

LEVEL = "other"
TECHNIQUE = ("static analysis: per-header path facts over the only WebsocketUpgrade constructor (it is reached only after the header's test succeeded — whether the test is an iterator chain, "
             "a for loop with a flag, a `fold` from false, a guarded match, a match over a tuple of flags, an Option combinator or a `?`, in from_request, in a validation helper or in a local closure called "
             "directly, both inlined into it — and every other exit returns for_bad_request, built in place or inside a hand-written `impl From<X> for HttpError` reached by `.into()`), decided on the normalised view "
             "(combinators desugared, helper exits threaded into the caller's `?`) put into a local normal form (lib_c20.local_view: directly called local closures inlined per call site, tuples of bools split); element origins followed through closures, mapping adaptors (flat_map/map/filter_map) and loops, concrete evaluation of separator "
             "predicates (closures, named fns, char / array / named constant-array patterns), evaluated constants (GUID, \"13\", 101, header names, token literals), the hashed message as an ordered list of pieces (absorbed into one SHA-1 state lineage, or one "
             "Digest::digest over a buffer concatenated in the function) in the one function that takes a SHA-1 digest (found by that role: a function of its own under any name, or from_request when it was inlined), "
             "value-preserving chains key header bytes -> digest -> base64 text (Engine::encode, or encode_string into a fresh String) -> accept_key -> Sec-WebSocket-Accept and upgraded I/O -> handler")
LEVEL_TEXT = ("Decided on the MIR of the current tree, for every path: the single construction site of WebsocketUpgrade (private field, one aggregate, inside from_request) is reached only "
              "after four tests, one per mandatory header, have succeeded on the path — Connection contains the token `upgrade` and Upgrade contains `websocket` (eq_ignore_ascii_case on an element "
              "of a split of the header text; the element is followed back to HeaderMap::get*(header) through for loops, iterator adaptors and inlined helpers; absent header = reject), "
              "Sec-WebSocket-Version equals the evaluated bytes \"13\", Sec-WebSocket-Key present — and every other exit returns "
              "an error built by for_bad_request (evaluated 400; directly, in a closure, or by a crate-local `impl From<X> for HttpError` whose `from` returns for_bad_request only) without constructing the upgrade; "
              "the one function that takes a SHA-1 digest (derive_accept_key under whatever name and wherever it lives; from_request itself when the helper was inlined) hashes exactly the key followed by the constant whose evaluated value is "
              "the RFC 6455 GUID — two update / chain_update calls on one fresh SHA-1 state (new_with_prefix(key) counts as fresh + update(key)), or one Digest::digest over a buffer built in the function from exactly these two pieces in this order "
              "(empty Vec + extend_from_slice, key.to_vec() + extend_from_slice, [key, GUID].concat()) — and returns STANDARD base64 of the digest output (views only in between; Engine::encode, or Engine::encode_string appending to a fresh String nothing else writes to); its argument "
              "(inlined: the hashed piece itself) is the raw bytes of the key header (one as_bytes view, copies, borrows) and the encoded text, moved as a whole through Some/Ok/`?`, is the only origin of the stored accept_key and "
              "that of the Sec-WebSocket-Accept value in handle; handle answers status 101 with Connection: upgrade / Upgrade: websocket, spawns the task before building the response, and the task passes "
              "WebsocketConnection(WebsocketConnectionRaw(TokioIo::new(upgraded))) — the Ok payload of the awaited upgrade future and nothing else — to the user handler, on the Ok side of a split (`match`, `if let`, `?`, after pass-through helpers) of that Result only. "
              "Not decided: list syntax beyond `,` SP HTAB separation (quoted strings, comments), traversals that truncate the field lines after get_all (e.g. take(1)), idioms that do not look the header up by name "
              "(iterating the whole map fails closed), SHA-1/base64 themselves, byte transparency of hyper's upgraded I/O.")
LEVEL_NOTE = ("Trusts rustc MIR + const evaluation, the extractor, engine slices/dominators, http::HeaderMap::get / Builder::header, Option::{map,and_then,unwrap_or,ok_or_else}, "
              "Iterator::any / fold, str::eq_ignore_ascii_case, sha1::Digest, base64 STANDARD, tokio::spawn, hyper::upgrade::on.")
EXPLANATION = ("path-sensitive boolean facts (bool_states / guarded_by, flags justified definition by definition) per header constant over the coroutine body of from_request with helpers inlined; "
               "CONST for GUID / version / status / literals read from evaluated operands; ORDER of the two hashed pieces by dominance within one hasher lineage or one concatenation buffer (every `&mut` use of the buffer is an append of a piece); CHAIN slices with allow-lists; "
               "concrete MIR evaluation of char predicates; exploration with concrete test outcomes for `a match on any line suffices`; WHO-CONSTRUCTS census for WebsocketUpgrade and WebsocketUpgradeInner; SHAPE of the private field; "
               "a fold closure is interpreted with its accumulator true (a match is never forgotten); conversions into HttpError are resolved to the crate-local From impl.")
TRUSTED = ["rustc nightly MIR + const evaluation", "mirfacts extractor", "rules/engine.py (incl. helper inlining, combinator normalisation and jump threading of _view(ctx)), rules/lib.py, rules/lib_c20.py", "http::HeaderMap::get / get_all, http::response::Builder", "std Option/Iterator combinators",
           "sha1::Digest new_with_prefix/update/chain_update/finalize/digest, Vec::extend_from_slice / [T]::concat / [T]::to_vec, base64 STANDARD engine encode / encode_string", "rules/lib_c01.py sources()", "tokio::spawn, hyper::upgrade::on, hyper_util TokioIo"]

GUID = "258EAFA5-E914-47DA-95CA-C5AB0DC85B11"
UPG_ADT = "websocket::WebsocketUpgrade"
INNER_ADT = "websocket::WebsocketUpgradeInner"
GET = r"^http::HeaderMap::<T>::(get|get_all)$"
BAD = r"^error::HttpError::for_bad_request$"
BAD_ID = "error::HttpError::for_bad_request"
ENCODE = r"^base64::Engine::(encode|encode_string)$"
OTHER_CTOR = r"^error::HttpError::for_(internal_error|unavail|not_found|client_error)"
HEADERS = r"^http::Request::<T>::headers$"
OPT_FLOW = [r"Option::<T>::map$", r"Option::<T>::and_then$", r"Option::<T>::ok_or_else$", r"Option::<T>::ok_or$", r"Option::<T>::filter$"]
HV_VIEW = [r"^http::HeaderValue::(as_bytes|to_str)$", r"Result::<T, E>::ok$", r"str::<impl str>::as_bytes$"]
TOKENS = {"CONNECTION": "upgrade", "UPGRADE": "websocket"}
OTHER_TOKEN = {"CONNECTION": "keep-alive", "UPGRADE": "h2c"}
MANDATORY = ("CONNECTION", "UPGRADE", "SEC_WEBSOCKET_VERSION", "SEC_WEBSOCKET_KEY")


# ------------------------------------------------------------------------------------------------ helpers
def _hdr_consts(sl):
    out = set()
    for a in sl.atoms:
        if a[0] == "const":
            m = re.search(r"(?:^|::)header::([A-Z_0-9]+)$", a[1])
            if m:
                out.add(m.group(1))
    return out


def _view(ctx):
    """The normalised view of dropshot (ctx.dsn) with the body of from_request in local normal form (lib_c20.local_view: local
    closures called directly are inlined at their call sites, `match (flag_a, flag_b)` is a switch on bool locals)."""
    if "_c20_view" not in ctx.__dict__:
        V = ctx.dsn
        ids = [it["id"] for i in V.impls if i["trait"].endswith("ExclusiveExtractor") and i["self"] == UPG_ADT for it in i["items"] if it["name"] == "from_request"]
        if len(ids) == 1 and ids[0] in V.F and V.body_of(V.F[ids[0]]) is not V.F[ids[0]]:
            V = local_view(V, V.body_of(V.F[ids[0]]))
            if V is not ctx.dsn:
                extra = [x for x in V.body_of(V.F[ids[0]]).raw.get("inlined", []) if x not in ctx.dsn.body_of(ctx.dsn.F[ids[0]]).raw.get("inlined", [])]
                ctx.notes["C20.local-normal-form"] = "from_request analysed in local normal form: directly called local closures inlined %s; tuples of bools split into their fields" % (extra or "(none)")
        ctx.__dict__["_c20_view"] = V
    return ctx.__dict__["_c20_view"]


def _from_request(ctx, R):
    V = _view(ctx)
    ids = [it["id"] for i in V.impls if i["trait"].endswith("ExclusiveExtractor") and i["self"] == UPG_ADT for it in i["items"] if it["name"] == "from_request"]
    if len(ids) != 1 or ids[0] not in V.F:
        ctx.lost(R, "impl ExclusiveExtractor for WebsocketUpgrade :: from_request")
        raise LookupError
    w = V.F[ids[0]]
    b = V.body_of(w)
    if b is w:
        ctx.lost(R, "coroutine body of WebsocketUpgrade::from_request")
        raise LookupError
    return w, b


def _closures_on(facts, sl):
    """Closures whose aggregate lies on the slice, and the closures nested in them."""
    out = []
    for a in sl.atoms:
        if a[0] == "agg" and a[1] in facts.F:
            g = facts.F[a[1]]
            if g not in out:
                out.append(g)
                for d in facts.descendants(g):
                    if d not in out:
                        out.append(d)
    return out


def _err_is_400(facts, f, op):
    """The error value is built by for_bad_request and by nothing else — directly, in a closure on its slice, or inside a
    hand-written `impl From<X> for HttpError` reached by `.into()` (lib_c20.error_ctor_names)."""
    return error_ctor_names(facts, f, op) == {BAD_ID}


def _ctors_on_error_path(facts, fn, split):
    """lib.http_error_ctors_on_error_path, plus the constructors behind conversions (`Err(Defect::NoKey.into())`)."""
    names = set(http_error_ctors_on_error_path(fn, split))
    for h in split["mappers"]:
        names |= error_ctor_names(facts, h, {"l": 0, "p": []})
    err_only = fn.reachable(split["err"]) - fn.reachable(split["ok"])
    for bb, i, st in fn.aggregates(r"^std::result::Result$", "Err"):
        if st["pl"]["l"] == 0 and bb in err_only:
            names |= error_ctor_names(facts, fn, st["rv"]["ops"][0])
    return names


def _ret_defs(f, blocks):
    """Definitions of the return place inside `blocks`: [(bb, operand-to-judge)]."""
    out = []
    for bb, kind, node in f.defs().get(0, []):
        if bb not in blocks or f.blocks[bb]["cleanup"]:
            continue
        if kind == "assign" and not node["pl"]["p"]:
            rv = node["rv"]
            if rv["rv"] == "agg" and rv.get("adt") == "std::result::Result":
                out.append((bb, rv["variant"], rv["ops"][0]))
            elif rv["rv"] == "use":
                out.append((bb, "?", rv["op"]))
            else:
                out.append((bb, "?", None))
        elif kind == "call":
            out.append((bb, "Err" if (node.get("callee") or "").endswith("FromResidual::from_residual") else "?", node["args"][0] if node["args"] else None))
    return out


EQ_IC = r"str::<impl str>::eq_ignore_ascii_case$"
SPLIT = r"str::<impl str>::(split|rsplit|split_terminator|split_whitespace|split_ascii_whitespace)$"
TRIM = r"str::<impl str>::trim$"
# value-preserving views / traversals that may lie between HeaderMap::get*(H) and the compared list element
ELEMENT_CHAIN = PLUMBING + ITER_PLUMBING + OPT_FLOW + [
    GET, HEADERS, r"^http::header::GetAll::<'a, T>::iter$", r"iter::Iterator::(filter_map|filter|map|flat_map|flatten|any|find|copied|cloned|rev|inspect)$",
    r"^http::HeaderValue::to_str$", r"Result::<T, E>::ok$", SPLIT, TRIM, r"str::<impl str>::trim_matches$", EQ_IC,
    r"Option::<T>::(unwrap_or|unwrap_or_default|is_some_and|map_or|into_iter|iter)$", r"iter::IntoIterator::into_iter$"]


def _token_tests(ctx, b, gbb):
    """Element tests of one list header: every `a.eq_ignore_ascii_case(b)` in from_request (helpers inlined) or a closure
    below it, one side of which is an element that originates from the header lookup in block gbb of `b` — through a
    `for` loop or through the item parameter of closures handed to iterator adaptors — with the literal on the other side."""
    out = []
    for g in [b] + _view(ctx).descendants(b):
        for ebb, et in g.live_calls(EQ_IC):
            if len(et["args"]) != 2:
                continue
            for side in (0, 1):
                for ch in origin_chains(_view(ctx), g, et["args"][side]):
                    if ch[-1].fn is not b or not any(bb == gbb for _, bb, _ in ch[-1].sl.calls(GET)):
                        continue
                    out.append({"g": g, "ebb": ebb, "chain": ch, "lit": resolve_lit(ch, et["args"][1 - side])})
    return out


def _version_tests(b, gbb):
    """Equality tests of the header value looked up in block gbb against constant bytes: [(bb, 'eq'|'ne', values, value-slice, literal-slice)]."""
    out = []
    for cbb, ct in b.live_calls(r"cmp::PartialEq::(eq|ne)$"):
        if len(ct["args"]) != 2:
            continue
        for vi in (0, 1):
            vs, ls = b.slice(ct["args"][vi]), b.slice(ct["args"][1 - vi])
            # the constant side: a literal, or a HeaderValue made of a literal (HeaderValue == HeaderValue compares the bytes)
            if not any(bb == gbb for _, bb, _ in vs.calls(GET)) or ls.params() or any(not re.search(r"^http::HeaderValue::from_static$", c) for c, _, _ in ls.callees):
                continue
            vals = []
            for a in ls.atoms:
                if a[0] in ("lit", "const"):
                    try:
                        v = json.loads(a[1] if a[0] == "lit" else a[2])
                    except Exception:
                        v = None
                    vals.append(v.get("str") if isinstance(v, dict) else None)
            out.append((cbb, ct["callee"].rsplit("::", 1)[-1], vals, vs, ls))
    return out


def _token_atoms(ctx, b, gbb, H):
    """(atoms of `b` that are true only if some element of header H equals the token ignoring case, tests, reasons)."""
    tests = _token_tests(ctx, b, gbb)
    mine = [t for t in tests if t["lit"] is not None and t["lit"].lower() == TOKENS[H]]
    lifted, why = [], []
    for t in mine:
        t["folds"] = []
        a, reason = lift_atom(_view(ctx), t["chain"], t["ebb"], t["folds"])
        if a is None:
            why.append(reason)
            continue
        hops = element_hops(_view(ctx), t["chain"])
        split = bool(chain_calls(hops, SPLIT))
        badc = sorted(set(c for h in hops for c, _ in callee_allow(h.sl, ELEMENT_CHAIN)) | set(p for _, _, _, p in chain_fnitems(hops) if not any(re.search(x, p) for x in ELEMENT_CHAIN)) |
                      set(t2["callee"] or "<indirect>" for g in chain_closures(_view(ctx), t["chain"]) for _, t2 in g.live_calls()
                          if not any(re.search(p, t2["callee"] or "") for p in ELEMENT_CHAIN)))
        if not split:
            why.append("the compared value is not an element of a split of the header text")
        elif badc:
            why.append("the element is transformed by %s" % badc)
        else:
            lifted.append(a)
    # (atoms true only if an element matched, atoms false only if an element matched, tests, reasons)
    return set(("call", a) for a, pol in lifted if pol), set(("call", a) for a, pol in lifted if not pol), tests, why


# ------------------------------------------------------------------------------------------------ R1
def r1_four_checks(ctx):
    R = ctx.rule("C20.R1", "the construction of WebsocketUpgrade in from_request is reached, for each of Connection / Upgrade / Sec-WebSocket-Version / Sec-WebSocket-Key, only after a test of "
                 "HeaderMap::get*(that header) of this request succeeded — some element of a split of the header text equals `upgrade` / `websocket` ignoring ASCII case, the value equals the bytes "
                 "\"13\", the key is present; every other exit returns an error built by for_bad_request (400) and builds no upgrade", floor=18)
    try:
        w, b = _from_request(ctx, R)
    except LookupError:
        return
    reach = b.reachable(0)
    aggs = [bb for bb, i, st in b.aggregates("^" + re.escape(UPG_ADT) + "$") if bb in reach]
    if len(aggs) != 1:
        ctx.lost(R, "the single WebsocketUpgrade(..) aggregate in from_request (%d)" % len(aggs))
        return
    site = aggs[0]
    # which upvar is the request
    wagg = [st for bb, i, st in w.stmts() if st["rv"]["rv"] == "agg" and st["rv"].get("agg") in ("coroutine", "closure") and st["rv"].get("def") == b.id]
    req_idx = None
    if len(wagg) == 1:
        for i, o in enumerate(wagg[0]["rv"]["ops"]):
            ps = w.slice(o).params()
            if len(ps) == 1 and re.search(r"Request<", w.local_ty(ps[0])) and not re.search(r"RequestContext", w.local_ty(ps[0])):
                req_idx = i
    if req_idx is None:
        ctx.lost(R, "the captured hyper::Request of from_request")
        return
    st400 = status_const_of_ctor(_view(ctx), "for_bad_request")
    ctx.check(R, "for_bad_request-is-400", st400 == {400}, "status constants named in for_bad_request: %s" % sorted(st400 or []), nontrivial=False)
    # exits: every definition of the return value is the Ok(..) after the constructor or an Err(for_bad_request)
    defs = [(bb, var, op) for bb, var, op in _ret_defs(b, reach) if not b.dominates(site, bb)]
    good_defs = [bb for bb, var, op in defs if var == "Err" and op is not None and _err_is_400(_view(ctx), b, op)]
    all_gets = b.live_calls(GET)
    for H in MANDATORY:
        gets = [(bb, t) for bb, t in all_gets if _hdr_consts(b.slice(t["args"][1])) == {H}]
        if len(gets) != 1:
            ctx.lost(R, "HeaderMap::get(header::%s) in from_request (%d call sites)" % (H, len(gets)))
            continue
        gbb, gt = gets[0]
        rs = b.slice(gt["args"][0])
        bad = callee_allow(rs, PLUMBING + [HEADERS, r"^http::Request::<T>::headers_mut$"])
        pf = rs.param_fields()
        ctx.check(R, "%s:looked-up-in-this-request" % H, bool(pf) and all(p == 1 and fs and fs[0].startswith("f%d:" % req_idx) for p, fs in pf) and not bad,
                  "receiver of get(%s) is headers() of the captured request (upvar %d) via %s" % (H, req_idx, [x[0] for x in bad] or "headers() only"), (b, gbb))
        t_atoms, f_atoms = set(), set()
        test_ok, test_det, test_key = False, "", None
        if H in TOKENS:
            test_key = "%s:case-insensitive-token-test" % H
            t_atoms, f_atoms, tests, why = _token_atoms(ctx, b, gbb, H)
            lifted = sorted(t_atoms | f_atoms)
            test_ok = bool(lifted) and not why
            test_det = ("%d eq_ignore_ascii_case test(s) on elements of %s, literal(s) %s (want %r); %d usable as `some element matches`%s"
                        % (len(tests), H, sorted(set(str(t["lit"]) for t in tests)), TOKENS[H], len(lifted), ("; " + "; ".join(why)) if why else ""))
        elif H == "SEC_WEBSOCKET_VERSION":
            test_key = "%s:equals-13" % H
            vt = _version_tests(b, gbb)
            if vt and any(not vals or None in vals for _, _, vals, _, _ in vt):
                ctx.lost(R, "evaluated value of the version literal (byte-string constant without a value in the facts)")
                test_key = None
            else:
                mine = [x for x in vt if x[2] == ["13"]]
                badv = sorted(set(c for x in mine for c, _ in callee_allow(x[3], PLUMBING + [GET, HEADERS] + OPT_FLOW + HV_VIEW)) |
                              set(t2["callee"] for x in mine for g in _closures_on(_view(ctx), x[3]) for _, t2 in g.live_calls() if not any(re.search(p, t2["callee"] or "") for p in HV_VIEW + PLUMBING)))
                t_atoms = set(("call", x[0]) for x in mine if x[1] == "eq")
                f_atoms = set(("call", x[0]) for x in mine if x[1] == "ne")
                test_ok = bool(mine) and not badv
                test_det = ("the header bytes are compared with %s (want ['13']) by %s; transformations of the header value: %s"
                            % ([x[2] for x in vt] or "nothing", [x[1] for x in mine] or "no equality test", badv or "none"))
        # accept side
        if H == "SEC_WEBSOCKET_KEY":
            sp = result_split(b, gt["dest"]["l"])
            ok_acc = bool(sp) and sp["ok"] is not None and b.edge_dominates(sp["switch_bb"], sp["ok"], site) and (sp["err"] is None or site not in b.reachable(sp["err"], avoid_edges=[(sp["switch_bb"], sp["ok"])]))
            ctx.check(R, "%s:accept-edge-dominates-constructor" % H, ok_acc,
                      "WebsocketUpgrade(..) is reachable only through the Some edge of get(%s) (split by %s)" % (H, "/".join(sp["via"])) if ok_acc else
                      "no Some/None split of get(%s) separates the constructor from an early return" % H, (b, sp["switch_bb"] if sp else gbb))
            ks = b.slice({"l": sp["local"], "p": []}) if sp else None
            badk = callee_allow(ks, PLUMBING + [GET, HEADERS] + OPT_FLOW + [r"^http::HeaderValue::as_bytes$", "^" + re.escape("websocket::derive_accept_key") + "$"]) if ks else []
            ctors = _ctors_on_error_path(_view(ctx), b, sp) if sp else set()
            ctx.check(R, "%s:presence-required" % H, bool(sp) and ok_acc and not badk,
                      "the key lookup is split into present/absent by %s; the present edge leads to the constructor: %s; other callees on the chain: %s"
                      % ("/".join(sp["via"]) if sp else "nothing", ok_acc, [x[0] for x in badk] or "none"), (b, sp["switch_bb"] if sp else gbb))
            rel = [d for d in defs if sp and d[0] in b.reachable(sp["err"], avoid_edges=[(sp["switch_bb"], sp["ok"])])] if sp and sp["err"] is not None else []
            ctx.check(R, "%s:reject-edge-is-400" % H, bool(rel) and all(d[0] in good_defs for d in rel) and ctors == {"error::HttpError::for_bad_request"},
                      "absent key: %d exit(s), error constructors %s (want for_bad_request only)" % (len(rel), sorted(c.split("::")[-1] for c in ctors)), (b, sp["switch_bb"] if sp else gbb))
            continue
        enf, how = enforced_at(b, site, t_atoms, f_atoms) if test_ok else (False, "no usable test of %s" % H)
        ctx.check(R, "%s:accept-edge-dominates-constructor" % H, enf,
                  ("WebsocketUpgrade(..) is reached only after the test of %s succeeded (%s)" % (H, how)) if enf else
                  "the WebsocketUpgrade constructor is not guarded by the test of %s: %s (the header is not enforced)" % (H, how), (b, gbb))
        # exits that can be taken while the test has not succeeded
        rel = [d for d in defs if not b.guarded_by(d[0], atoms_true=list(t_atoms), atoms_false=list(f_atoms))[0]] if test_ok else defs
        ctx.check(R, "%s:reject-edge-is-400" % H, bool(rel) and all(d[0] in good_defs for d in rel),
                  "exits reachable without a successful test of %s: %d, of which Err(for_bad_request): %d" % (H, len(rel), sum(1 for d in rel if d[0] in good_defs)), (b, gbb))
        if test_key:
            ctx.check(R, test_key, test_ok, test_det, (b, gbb))
    # nothing else may return Ok, and nothing leaves without a verdict
    # the Ok(..) values that ARE the return value (the return place, back through whole-value moves); an Ok of another Result —
    # the verdict of an inlined validation helper, the Ok arm of a desugared ok_or_else — is an intermediate value whose
    # Ok edge is already among the tests above
    oks = [bb for bb in returned_variant_sites(b, "Ok") if bb in reach]
    ctx.check(R, "ok-only-after-constructor", bool(oks) and all(b.dominates(site, o) for o in oks) and b.must_pass([site] + good_defs) and all(d[0] in good_defs for d in defs),
              "every Ok(..) returned by from_request is dominated by the WebsocketUpgrade constructor (%d site(s)); every path to the return passes the constructor or one of %d Err(for_bad_request) exits; other exits: %d"
              % (len(oks), len(good_defs), sum(1 for d in defs if d[0] not in good_defs)), (b, site))


# ------------------------------------------------------------------------------------------------ R2
def r2_accept_digest(ctx):
    R = ctx.rule("C20.R2", "the Sec-WebSocket-Accept value = STANDARD-base64(SHA-1(key ++ GUID)) with the RFC 6455 GUID (the message fed piecewise to one fresh state or concatenated and hashed in one shot), computed by the one "
                 "piece of code that takes a SHA-1 digest (a function of its own, or inlined into from_request); the key is the raw bytes of the Sec-WebSocket-Key header and the encoded digest "
                 "is the only origin of the Sec-WebSocket-Accept header value", floor=9)
    V = _view(ctx)
    SHA = r"sha1::|Sha1"
    try:
        w, b = _from_request(ctx, R)
    except LookupError:
        return
    # role anchor: the function that takes a SHA-1 digest (whatever it is called and wherever it lives: a free function, an
    # associated function, or — a helper that is not on the known-functions table is inlined — from_request itself)
    cands = [g for g in V.F.values() if any(re.search(SHA, " ".join(t.get("gargs") or []) + " " + (t.get("callee_args") or "")) for _, t in g.live_calls(DIGEST_OUT))]
    if len(cands) != 1:
        ctx.lost(R, "the function that computes the SHA-1 digest of the handshake (%d: %s)" % (len(cands), [g.id.split("::")[-1] for g in cands]))
        return
    f = cands[0]
    inlined = f is b
    # the hashed message as an ordered list of byte pieces — two update calls on one `&mut` state, chain_update threading the
    # state by value, new_with_prefix, or one Digest::digest over a buffer concatenated in this function (lib_c20.digest_message)
    msg = digest_message(f, SHA)
    encs = f.live_calls(ENCODE)
    if isinstance(msg, str):
        ctx.lost(R, "the SHA-1 computation of the accept key: %s" % msg)
        return
    if len(encs) != 1:
        ctx.lost(R, "one base64 Engine::encode / encode_string in %s (%d)" % (f.id.split("::")[-1], len(encs)))
        return
    obb, ot = msg["out"]
    VIEW = [r"^http::HeaderValue::as_bytes$"]
    COPIES = [r"<impl \[T\]>::to_vec$", r"borrow::ToOwned::to_owned$", r"vec::Vec::<T, A>::as_slice$"]

    def raw_key_bytes(g, op):
        """`op` (in g) is the bytes of the Sec-WebSocket-Key header value of this request and nothing else: one as_bytes view of
        the looked-up value, Option plumbing, copies (to_vec / to_owned) and borrows."""
        oks, dets = [], []
        for ch in origin_chains(V, g, op):
            bad_a = sorted(set(c for h in ch for c, _ in callee_allow(h.sl, PLUMBING + [GET, HEADERS] + OPT_FLOW + VIEW + COPIES)))
            lits = [a for h in ch for a in h.sl.atoms if a[0] == "lit" or (a[0] == "const" and not re.search(r"(^|::)header::[A-Z_0-9]+$", a[1]))]
            shaped = [a for h in ch for a in h.sl.atoms if a[0] in ("binop", "unop")]
            from_key = ch[-1].fn is b and set(x for h in ch for x in _hdr_consts(h.sl)) == {"SEC_WEBSOCKET_KEY"} and bool(ch[-1].sl.calls(GET))
            views = len(chain_calls(ch, VIEW[0])) + sum(1 for g2 in chain_closures(V, ch) if g2 is not g for _ in g2.live_calls(VIEW[0]))
            oks.append(from_key and not bad_a and not lits and not shaped and views == 1)
            dets.append("from get(KEY): %s, as_bytes views: %d, other operations: %s" % (from_key, views, bad_a + [str(x[1])[:30] for x in lits + shaped] or "none"))
        return bool(oks) and all(oks), dets

    key_det = []

    def piece_kind(op):
        s = f.slice(op)
        if not s.params() and not s.callees and not [a for a in s.atoms if a[0] in ("binop", "unop", "rv")]:
            vals = []
            for a in s.atoms:
                if a[0] in ("const", "lit"):
                    try:
                        v = json.loads(a[2] if a[0] == "const" else a[1])
                    except Exception:
                        v = None
                    vals.append(v.get("str") if isinstance(v, dict) and "str" in v else (bytes(v["bytes"]).decode("latin-1") if isinstance(v, dict) and isinstance(v.get("bytes"), list) else None))
            return "const", vals
        if not inlined:
            # a function of its own: the key is its (only) argument, unmodified; what is passed for it is judged at the call site
            if s.params() == [1] and f.argc == 1 and not s.callees and not [a for a in s.atoms if a[0] in ("const", "lit", "binop", "unop", "rv")]:
                return "key", None
            return "other", None
        ok, dets = raw_key_bytes(f, op)
        key_det.extend(dets)
        return ("key" if ok else "other"), None
    kinds = [piece_kind(op) for bb, op in msg["pieces"]]
    if sorted(k for k, _ in kinds) != ["const", "key"]:
        ctx.check(R, "updates-are-key-and-guid", False, "the hashed pieces are not exactly (the key %s, a constant): %s piece(s) %s (%s)%s"
                  % ("argument unmodified" if not inlined else "header bytes", len(kinds), [k for k, _ in kinds], msg["form"], ("; " + "; ".join(key_det)) if key_det else ""), (f, obb))
        return
    guid_val = [v for k, v in kinds if k == "const"][0]
    guid_site = [p[0] for p, (k, _) in zip(msg["pieces"], kinds) if k == "const"][0]
    if not guid_val or None in guid_val:
        ctx.lost(R, "evaluated value of the GUID constant (byte-string constant without a value in the facts)")
    else:
        ctx.check(R, "guid-value", guid_val == [GUID], "constant hashed after the key = %r (RFC 6455: %r)" % (guid_val, GUID), (f, guid_site))
    ctx.check(R, "one-sha1-state", msg["one_state"][0], msg["one_state"][1], f)
    ctx.check(R, "fresh-sha1-state", msg["fresh"][0], msg["fresh"][1], f)
    ctx.check(R, "key-then-guid-then-finalize", [k for k, _ in kinds] == ["key", "const"] and msg["ordered"],
              "the hashed message is %s (want key ++ GUID), %s form; each piece dominates the next and the last one the digest call, none in a loop: %s"
              % (" ++ ".join("key" if k == "key" else "GUID" for k, _ in kinds), msg["form"], msg["ordered"]), (f, guid_site))
    ebb, et = encs[0]
    eng = sorted(set(a[1] for a in f.slice(et["args"][0]).atoms if a[0] == "const"))
    # between the digest output and the encoder only views; the encoded text — the value returned by Engine::encode, or the fresh
    # String that Engine::encode_string appends to — is what the function returns / what is stored, moved as a whole
    ds_ = f.slice(et["args"][1], stop_at_calls=DIGEST_OUT)
    VIEWS = [r"AsRef::as_ref$", r"GenericArray.*as_slice$", r"<impl \[T\]>::(as_ref|to_vec)$"]
    badd = callee_allow(ds_, PLUMBING + [DIGEST_OUT] + VIEWS)
    shaped = [a for a in ds_.atoms if a[0] in ("binop", "unop", "lit", "const", "param")]
    res, is_buf, res_det = encoded_text(f, ebb, et)
    inner = [(bb, st) for bb, i, st in b.aggregates("^" + re.escape(INNER_ADT) + "$") if bb in b.reachable(0)]
    all_inner = [(g.id, bb) for g in V.F.values() for bb, i, st in g.aggregates("^" + re.escape(INNER_ADT) + "$")]
    fields = [fl["name"] for fl in V.adts[INNER_ADT]["variants"][0]["fields"]]
    if len(inner) != 1 or len(all_inner) != 1 or "accept_key" not in fields:
        ctx.lost(R, "the single WebsocketUpgradeInner{..accept_key..} aggregate (in from_request: %d, anywhere: %d)" % (len(inner), len(all_inner)))
        return
    ibb, ist = inner[0]
    field_op = ist["rv"]["ops"][fields.index("accept_key")]
    # where the encoded text must arrive unmodified: the return value of a digest function of its own, the stored field otherwise
    sink_ok = arrives_unmodified(f, {"l": 0, "p": []} if not inlined else field_op, res, is_buf, ebb)
    ctx.check(R, "standard-base64-of-the-digest", len(eng) == 1 and bool(re.search(r"(^|::)STANDARD$", eng[0])) and any(bb == obb for _, bb, _ in ds_.calls(DIGEST_OUT)) and not badd and not shaped
              and sink_ok,
              "engine %s, data = the digest via %s, %s, %s" % (eng, [x[0] for x in badd] + [str(a[:2]) for a in shaped] or "a borrow only", res_det,
                                                               ("result returned unmodified" if not inlined else "stored as accept_key unmodified") if sink_ok else
                                                               "but the %s is not that text moved as a whole" % ("return value" if not inlined else "stored accept_key")), (f, ebb))
    if inlined:
        ctx.check(R, "accept-key-is-digest-of-raw-key-bytes", sink_ok,
                  "WebsocketUpgradeInner.accept_key <- base64(SHA-1(bytes of get(SEC_WEBSOCKET_KEY) ++ GUID)) computed in from_request (%s)" % "; ".join(sorted(set(key_det))), (b, ibb))
        ctx.check(R, "derive-called-once", True, "the digest is computed in line in from_request (one Digest output, one encoder)", f)
    else:
        # the stored value: whatever the idiom (Option::map(closure) chain + `?`, or a match arm calling it directly), the slice of
        # the field operand — plus the closures applied on it — contains exactly one call of the digest function and otherwise only
        # the lookup of the key header, Option plumbing, HeaderValue::as_bytes and the construction of the 400 error
        ks = b.slice(field_op)
        badk = callee_allow(ks, PLUMBING + [GET, HEADERS] + OPT_FLOW + VIEW + COPIES + ["^" + re.escape(f.id) + "$"])
        hdrs = _hdr_consts(ks)
        cls = [g for g in _closures_on(V, ks)]
        derive_sites, other = [], []
        for g in [b] + cls:
            calls = g.live_calls() if g is not b else [(bb2, t2) for c2, bb2, t2 in ks.callees]
            for cbb, ct in calls:
                c = ct.get("callee") or ""
                if c == f.id:
                    if not any(d[0] is g and d[1] == cbb for d in derive_sites):
                        derive_sites.append((g, cbb, ct))
                elif g is b or re.search(r"^http::HeaderValue::as_bytes$", c) or re.search(BAD, c) or re.search(r"ToString::to_string$|ToOwned::to_owned$|convert::(From::from|Into::into)$", c):
                    pass
                else:
                    other.append(c)
        arg_ok, arg_det = [], []
        for g, cbb, ct in derive_sites:
            # the argument of the digest function: bytes view of the looked-up header value, nothing else
            ok, dets = raw_key_bytes(g, ct["args"][0])
            arg_ok.append(ok)
            arg_det += dets
        ctx.check(R, "accept-key-is-digest-of-raw-key-bytes", hdrs == {"SEC_WEBSOCKET_KEY"} and not badk and len(derive_sites) == 1 and bool(arg_ok) and all(arg_ok) and not other,
                  "WebsocketUpgradeInner.accept_key <- get(%s) -> as_bytes -> %s (sites %d; argument %s); other operations on the chain: %s"
                  % (sorted(hdrs), f.id.split("::")[-1], len(derive_sites), arg_det, [x[0] for x in badk] + other or "none"), (b, ibb))
        dcallers = [(g.id, bb) for g, bb, t in V.callers_of("^" + re.escape(f.id) + "$")]
        ctx.check(R, "derive-called-once", len(dcallers) == 1, "call sites of %s: %s" % (f.id.split("::")[-1], [d[0].split("::")[-1] for d in dcallers]), f)
    h = ctx.need_fn(_view(ctx), R, r"^websocket::WebsocketUpgrade::handle$")
    acc = [(bb, t) for bb, t in h.live_calls(r"^http::response::Builder::header$") if _hdr_consts(h.slice(t["args"][1])) == {"SEC_WEBSOCKET_ACCEPT"}]
    if len(acc) != 1:
        ctx.lost(R, "Builder::header(SEC_WEBSOCKET_ACCEPT, ..) in handle (%d)" % len(acc))
        return
    abb, at = acc[0]
    vs = h.slice(at["args"][2])
    badv = callee_allow(vs, PLUMBING)
    ctx.check(R, "accept-header-is-the-stored-digest", vs.reads_field("accept_key") and vs.params() == [1] and not badv and not [a for a in vs.atoms if a[0] in ("lit", "const")],
              "Sec-WebSocket-Accept value = self.0.take().accept_key (params %s) via %s" % (vs.params(), [x[0] for x in badv] or "Option::take only"), (h, abb))
    writes = []
    for g in _view(ctx).F.values():
        for bb, i, st in g.stmts():
            if any(isinstance(e, dict) and e.get("n") == "accept_key" for e in st["pl"]["p"]):
                writes.append(g.id)
    ctx.check(R, "accept_key-never-reassigned", not writes, "assignments through .accept_key: %s" % writes, h)


# ------------------------------------------------------------------------------------------------ R3
def r3_switching_and_handoff(ctx):
    R = ctx.rule("C20.R3", "handle answers 101 with Connection: upgrade and Upgrade: websocket after spawning the task; the task hands "
                 "WebsocketConnection(WebsocketConnectionRaw(TokioIo::new(Ok payload of the awaited upgrade future))) to the user handler", floor=7)
    h = ctx.need_fn(_view(ctx), R, r"^websocket::WebsocketUpgrade::handle$")
    reach = h.reachable(0)
    stat = h.live_calls(r"^http::response::Builder::status$")
    body = h.live_calls(r"^http::response::Builder::body$")
    hdrs = h.live_calls(r"^http::response::Builder::header$")
    if len(stat) != 1 or len(body) != 1:
        ctx.lost(R, "Builder::status / Builder::body in handle (%d/%d)" % (len(stat), len(body)))
        return
    sv = _pure_int_const(h.slice(stat[0][1]["args"][1]))
    ctx.check(R, "status-101", sv is not None and sv[1] == 101, "Builder::status(%s)" % (sv,), (h, stat[0][0]))
    want = {"CONNECTION": "upgrade", "UPGRADE": "websocket"}
    seen = {}
    for bb, t in hdrs:
        ks = _hdr_consts(h.slice(t["args"][1]))
        if len(ks) == 1:
            seen.setdefault(list(ks)[0], []).append((bb, lit_str_of(h, t["args"][2])))
    for k, v in want.items():
        vals = seen.get(k, [])
        ctx.check(R, "response-header:%s" % k, len(vals) == 1 and vals[0][1] is not None and vals[0][1].lower() == v,
                  "%s: %s (want %r, case-insensitive)" % (k, [x[1] for x in vals], v), (h, vals[0][0] if vals else stat[0][0]))
    bs = h.slice(body[0][1]["args"][0])
    chain = set(bb for _, bb, _ in bs.calls(r"^http::response::Builder::(status|header)$"))
    need = {stat[0][0]} | set(x[0][0] for k, x in seen.items() if k in ("CONNECTION", "UPGRADE", "SEC_WEBSOCKET_ACCEPT") and x)
    ret = h.slice({"l": 0, "p": []})
    ctx.check(R, "returned-response-is-that-builder", need <= chain and len(need) == 4 and any(bb == body[0][0] for _, bb, _ in ret.calls(r"Builder::body$")),
              "the returned response is body() of the builder carrying status + Connection + Upgrade + Sec-WebSocket-Accept (%d of 4 on the chain)" % len(need & chain), (h, body[0][0]))
    # spawn
    sp = h.live_calls(r"^tokio::(task::)?spawn$")
    if len(sp) != 1:
        ctx.lost(R, "tokio::spawn in handle (%d)" % len(sp))
        return
    spbb, spt = sp[0]
    # the spawned future: an async block built here, an `async fn` helper whose wrapper was inlined (then its coroutine aggregate is
    # here too), or a call of a crate-local `async fn` that is still a function (resolved to its coroutine and its captured arguments)
    co, node = closure_of_operand(h, spt["args"][0])
    if co is None or node["rv"].get("agg") != "coroutine":
        from .lib_c16 import spawned_coroutine
        co, node = spawned_coroutine(h, spt)
    if co is None:
        skipped = [x for x in ctx.ds.stolen if "SKIPPED" in x and x.startswith("websocket::")]
        ctx.lost(R, "the coroutine passed to tokio::spawn" + ((" (the extractor has no body for %s)" % ", ".join(skipped)) if skipped else ""))
        return
    ctx.check(R, "task-spawned-before-response", h.dominates(spbb, body[0][0]) and spbb not in h.loop_blocks(),
              "tokio::spawn dominates the construction of the 101 response: %s" % h.dominates(spbb, body[0][0]), (h, spbb))
    i_fut = i_handler = None
    for i, o in enumerate(node["rv"]["ops"]):
        s = h.slice(o)
        if s.reads_field("upgrade_fut") and not callee_allow(s, PLUMBING):
            i_fut = i
        elif s.params() == [2] and not s.callees:
            i_handler = i
    if i_fut is None or i_handler is None:
        ctx.lost(R, "captures of the spawned task (upgrade_fut: %s, handler: %s)" % (i_fut, i_handler))
        return
    calls = co.live_calls(r"^std::ops::FnOnce::call_once$|^std::ops::Fn(Mut)?::call(_mut)?$")
    calls = [(bb, t) for bb, t in calls if any(p == 1 and fs and fs[0].startswith("f%d:" % i_handler) for p, fs in co.slice(t["args"][0]).param_fields())]
    if len(calls) != 1:
        ctx.lost(R, "the call of the user handler inside the spawned task (%d)" % len(calls))
        return
    cbb, ct = calls[0]
    arg = co.slice(ct["args"][1])
    bada = callee_allow(arg, PLUMBING + [r"TokioIo::<T>::new$", r"Future::poll$", r"IntoFuture::into_future$"])
    wraps = sorted(a[1].split("::")[-1] for a in arg.atoms if a[0] == "agg" and a[1].startswith("websocket::"))
    from_fut = any(p == 1 and fs and fs[0].startswith("f%d:" % i_fut) for p, fs in arg.param_fields())
    tio = arg.calls(r"TokioIo::<T>::new$")
    ctx.check(R, "handler-gets-the-upgraded-io", wraps == ["WebsocketConnection", "WebsocketConnectionRaw"] and len(tio) == 1 and from_fut and not bada,
              "handler argument wraps TokioIo::new(..) of the awaited upgrade_fut in %s (from upvar: %s); other operations: %s" % (wraps, from_fut, [x[0] for x in bada] or "none"), (co, cbb))
    # the handler call is reached only where the awaited result is known to be Ok: some Result on the way from the awaited
    # future to TokioIo::new(..) is split — `match`, `if let`, `?`, after any number of moves through pass-through helpers
    # (lib.result_split) — with the Ok side dominating the call and the Err side never reaching it
    okdom = False
    if tio:
        ts = co.slice(tio[0][2]["args"][0])
        for l in sorted(ts.locals()):
            if not re.match(r"(std|core)::result::Result<", co.local_ty(l) or ""):
                continue
            sp = result_split(co, l)
            if sp and sp["ok"] is not None and sp["err"] is not None and sp["ok"] != sp["err"] and co.edge_dominates(sp["switch_bb"], sp["ok"], cbb) and cbb not in co.reachable(sp["err"]):
                okdom = True
    ctx.check(R, "handler-runs-only-on-successful-upgrade", okdom, "the handler call is dominated by the Ok edge of `upgrade_fut.await`; the Err edge calls no handler", (co, cbb))


# ------------------------------------------------------------------------------------------------ R4
def r4_no_bypass(ctx):
    R = ctx.rule("C20.R4", "WebsocketUpgrade's field is private and the only place that constructs it (or its inner struct) is from_request", floor=3)
    a = _view(ctx).adts.get(UPG_ADT)
    if not a:
        ctx.lost(R, "ADT table of WebsocketUpgrade")
        return
    fl = a["variants"][0]["fields"]
    ctx.check(R, "field-private", len(fl) == 1 and fl[0]["vis"] != "Public", "fields of WebsocketUpgrade: %s" % [(x["name"], x["vis"].split("(")[0]) for x in fl], nontrivial=False)
    try:
        w, b = _from_request(ctx, R)
    except LookupError:
        return
    home = set([w.id, b.id] + [g.id for g in _view(ctx).descendants(b)])
    for adt in (UPG_ADT, INNER_ADT):
        sites = sorted(set(g.id for g in _view(ctx).F.values() for bb, i, st in g.aggregates("^" + re.escape(adt) + "$")))
        ctx.check(R, "constructed-only-in-from_request:%s" % adt.split("::")[-1], bool(sites) and all(s in home for s in sites), "aggregate sites: %s" % [s.split(">::")[-1] for s in sites], b)


# ------------------------------------------------------------------------------------------------ optional (not in RULES): value-level list parsing
def x5_list_headers(ctx):
    """Armed since the repair d8a2f7a (the pinned tree read only the first field line and ignored HTAB; see known_findings.json `fixed:`):
    Connection / Upgrade are comma-separated list fields that may be split over several field lines and use SP / HTAB as optional whitespace (RFC 9110 5.3, 5.6.1);
    the structural necessary conditions are (a) every field line is consulted (HeaderMap::get_all, not get = first line only) and (b) tokens are trimmed of SP and HTAB."""
    R = ctx.rule("C20.X5", "list-valued handshake headers: all field lines are consulted — a matching element on any line suffices — and tokens are separated by `,` with SP/HTAB optional whitespace", floor=6)
    try:
        w, b = _from_request(ctx, R)
    except LookupError:
        return
    reach = b.reachable(0)
    aggs = [bb for bb, i, st in b.aggregates("^" + re.escape(UPG_ADT) + "$") if bb in reach]
    site = aggs[0] if len(aggs) == 1 else None
    # the tests of the four mandatory headers, as atoms of from_request
    atoms, avoid, folds = {}, [], {}
    for H in MANDATORY:
        gets = [(bb, t) for bb, t in b.live_calls(GET) if _hdr_consts(b.slice(t["args"][1])) == {H}]
        if len(gets) != 1:
            continue
        if H in TOKENS:
            ta, fa, tests_h, _why = _token_atoms(ctx, b, gets[0][0], H)
            atoms[H] = (ta, fa)
            folds[H] = [g for t in tests_h for g in t.get("folds", [])]
        elif H == "SEC_WEBSOCKET_VERSION":
            vt = [x for x in _version_tests(b, gets[0][0]) if x[2] == ["13"]]
            atoms[H] = (set(("call", x[0]) for x in vt if x[1] == "eq"), set(("call", x[0]) for x in vt if x[1] == "ne"))
        if H not in TOKENS:
            # the header is present: where the lookup is split into Some / None, only the Some edge is followed
            sp = result_split(b, gets[0][1]["dest"]["l"])
            if sp and sp["err"] is not None and sp["err"] != sp["ok"]:
                avoid.append((sp["switch_bb"], sp["err"]))
    err_exits = [bb for bb, var, op in _ret_defs(b, reach) if site is None or not b.dominates(site, bb)]
    for H in ("CONNECTION", "UPGRADE"):
        gets = [(bb, t) for bb, t in b.live_calls(GET) if _hdr_consts(b.slice(t["args"][1])) == {H}]
        if len(gets) != 1:
            ctx.lost(R, "lookup of %s" % H)
            continue
        gbb, gt = gets[0]
        ctx.check(R, "%s:all-field-lines" % H, gt["callee"].endswith("get_all"),
                  "%s is read with %s: %s" % (H, gt["callee"].split("::")[-1], "every field line" if gt["callee"].endswith("get_all") else
                                             "only the first field line is seen, so `%s: %s` followed by a second `%s: %s` line is answered 400" % (H.title(), OTHER_TOKEN[H], H.title(), TOKENS[H])), (b, gbb))
        # a request whose other mandatory elements are all in order and whose header H matches on at least one field line
        # is not refused: explore from_request with the other tests fixed to their accepting outcome and the test of H free
        # (true or false at every evaluation); once every list header has matched at least once no error exit may be reachable
        forced = {}
        for H2, (ta, fa) in atoms.items():
            if H2 not in TOKENS:
                forced.update({a: True for a in ta})
                forced.update({a: False for a in fa})
        groups = {H2: atoms[H2][0] | atoms[H2][1] for H2 in TOKENS if H2 in atoms}
        matched = {a: False for H2 in TOKENS if H2 in atoms for a in atoms[H2][1]}
        mine = groups.get(H, set())
        hit, every = blocks_after_success(b, groups, H, forced, avoid_edges=avoid, matched=matched) if mine and all(groups.values()) and len(groups) == len(TOKENS) and site is not None else (None, None)
        lost_exits = sorted(bb for bb in err_exits if hit is not None and bb in hit)
        # a fold over the field lines keeps a match: entered with a true accumulator its closure returns true
        forgetful = [g for g in folds.get(H, []) if not returns_true_given(g, 2)]
        okm = hit is not None and site in hit and not lost_exits and not forgetful
        ctx.check(R, "%s:match-on-any-line-suffices" % H, okm,
                  ("once an element of %s has matched, every path (other mandatory headers in order) ends in the WebsocketUpgrade constructor" % H) if okm else
                  ("no usable element test of %s" % H) if not mine or hit is None else
                  ("the closure of the fold over the field lines of %s can return false although its accumulator is true: a match is forgotten when a later "
                   "line does not match, so `%s: %s` followed by a `%s: %s` line is answered 400" % (H, H.title(), TOKENS[H], H.title(), OTHER_TOKEN[H])) if forgetful else
                  "after an element of %s has matched on one field line the request can still be refused (%d error exit(s) reachable): a match is forgotten when a later "
                  "line does not match, so `%s: %s` followed by a `%s: %s` line is answered 400" % (H, len(lost_exits), H.title(), TOKENS[H], H.title(), OTHER_TOKEN[H]),
                  (b, lost_exits[0] if lost_exits else gbb))
        # tokenisation of the elements that are compared with the token: every `split` on the way from the header
        # text to the compared element is asked, by concrete evaluation of its pattern, whether it separates at
        # `,`, SP and HTAB; an element that is trimmed before the comparison needs no SP/HTAB separator
        tests = [t for t in _token_tests(ctx, b, gbb) if t["lit"] is not None and t["lit"].lower() == TOKENS[H]]
        if not tests:
            ctx.lost(R, "the case-insensitive comparison of the elements of %s with %r" % (H, TOKENS[H]))
            continue
        ok_all, dets = True, []
        for t in tests:
            ans = {44: False, 32: False, 9: False}
            undecided = False
            hops = element_hops(_view(ctx), t["chain"])
            for g, sbb, stt in chain_calls(hops, SPLIT):
                a = separator_answers(_view(ctx), g, stt, [44, 32, 9])
                for ch, v in a.items():
                    if v is None:
                        undecided = True
                    ans[ch] = ans[ch] or bool(v)
            trims = bool(chain_calls(hops, TRIM)) or any(re.search(TRIM, p) for _, _, _, p in chain_fnitems(hops))
            for g, tbb, tt in chain_calls(hops, r"str::<impl str>::trim_matches$"):
                a = pattern_answers(_view(ctx), g, tt["args"][1], [32, 9]) if len(tt["args"]) > 1 else {}
                trims = trims or (a.get(32) is True and a.get(9) is True)
            ok = ans[44] and (trims or (ans[32] and ans[9]))
            ok_all = ok_all and ok
            dets.append("separates at %s%s, elements trimmed: %s" % (sorted(repr(chr(c)) for c, v in ans.items() if v), " (a separator pattern could not be evaluated)" if undecided else "", trims))
        ctx.check(R, "%s:ows-is-sp-and-htab" % H, ok_all, "%s%s" % ("; ".join(sorted(set(dets))),
                  "" if ok_all else " — `%s: %s,<TAB>%s` is answered 400" % (H.title(), OTHER_TOKEN[H], TOKENS[H])), (b, gbb))


OPTIONAL_RULES = []  # X5 is armed since the repair d8a2f7a in /repo


def r6_both_transports_upgradeable(ctx):
    """Added after adversary change C20-B (the TLS accept arm served connections with `serve_connection`, which answers
    101 but never hands the upgraded connection over): every accepted connection must be served with upgrade support."""
    from .lib_c16 import server_task
    R = ctx.rule("C20.R6", "every connection, plain or TLS, is served with hyper's upgrade support (serve_connection_with_upgrades), so a 101 is followed by the hand-off to the channel handler", floor=2)
    stt = server_task(ctx.ds)
    if isinstance(stt, str):
        ctx.lost(R, stt)
        return
    st, sp, co, node = stt
    sites = []
    for f in ctx.ds.F.values():
        if f.id.startswith(("test_util", "logging")):
            continue
        for bb, t in f.live_calls(r"::serve_connection(_with_upgrades)?$"):
            sites.append((f, bb, t))
    for f, bb, t in sites:
        ok = t["callee"].endswith("serve_connection_with_upgrades")
        ctx.check(R, "serve-site:%s" % ("with-upgrades" if ok else "without-upgrades"), ok and f is co,
                  "%s in %s" % (t["callee"].split("::")[-1], f.id), (f, bb))
    ctx.check(R, "two-transports", len(sites) == 2, "connection-serving call sites: %d (HTTP and HTTPS accept arms)" % len(sites), co)


RULES = [("C20.R6", r6_both_transports_upgradeable), ("C20.R1", r1_four_checks), ("C20.R2", r2_accept_digest), ("C20.R3", r3_switching_and_handoff), ("C20.R4", r4_no_bypass), ("C20.X5", x5_list_headers)]

WS = "dropshot/src/websocket.rs"
_VER_HEAD = """        if request
            .headers()
            .get(header::SEC_WEBSOCKET_VERSION)"""
_VER_TAIL = """            != Some(b"13")
        {"""
_CONN_FOLD = """                    .any(|vs| vs.eq_ignore_ascii_case("upgrade"))
            })
            .unwrap_or(false)"""
_CONN_ANY = """            .any(|hv| {
                hv.split(|c| c == ',' || c == ' ' || c == '\\t')
                    .any(|vs| vs.eq_ignore_ascii_case("upgrade"))
            })
"""
_UPDATES = """    sha1.update(request_key);
    sha1.update(WS_GUID);"""
_SHA_BODY = "    let mut sha1 = Sha1::default();\n" + _UPDATES + "\n    base64::engine::general_purpose::STANDARD.encode(&sha1.finalize())"
_KEY_ERR = """                HttpError::for_bad_request(
                    None,
                    "missing websocket key".to_string(),
                )"""

SELFTEST = [
    {"name": "version-check-disabled", "kind": "mutant", "edits": [(WS, _VER_TAIL, '            != Some(b"13")\n            && false\n        {')],
     "expect": ["C20.R1"], "why": "a request with a wrong or missing Sec-WebSocket-Version is upgraded (Appendix B: version check removed)"},
    {"name": "version-12", "kind": "mutant", "edits": [(WS, 'Some(b"13")', 'Some(b"12")')], "expect": ["C20.R1"], "why": "version 13 handshakes are refused, version 12 accepted"},
    {"name": "guid-typo", "kind": "mutant", "edits": [(WS, 'const WS_GUID: &[u8] = b"258EAFA5-E914-47DA-95CA-C5AB0DC85B11";', 'const WS_GUID: &[u8] = b"258EAFA5-E914-47DA-95CA-C5AB0DC85B1l";')],
     "expect": ["C20.R2"], "why": "Sec-WebSocket-Accept is not the RFC 6455 digest (Appendix B)"},
    {"name": "guid-before-key", "kind": "mutant", "edits": [(WS, _UPDATES, "    sha1.update(WS_GUID);\n    sha1.update(request_key);")],
     "expect": ["C20.R2"], "why": "digest of GUID ++ key instead of key ++ GUID (Appendix B)"},
    {"name": "accept-is-the-raw-key", "kind": "mutant", "edits": [(WS, ".map(|key| derive_accept_key(key))", ".map(|key| String::from_utf8_lossy(key).into_owned())")],
     "expect": ["C20.R2"], "why": "Sec-WebSocket-Accept echoes the request key (Appendix B)"},
    {"name": "accept-header-constant", "kind": "mutant", "edits": [(WS, ".header(header::SEC_WEBSOCKET_ACCEPT, accept_key)", '.header(header::SEC_WEBSOCKET_ACCEPT, "s3pPLMBiTxaQ9kYGzzhZRbK+xOo=")')],
     "expect": ["C20.R2"], "why": "accept value is not derived from this request's key"},
    {"name": "accept-urlsafe-base64", "kind": "mutant", "edits": [(WS, "base64::engine::general_purpose::STANDARD.encode(&sha1.finalize())", "base64::engine::general_purpose::URL_SAFE.encode(&sha1.finalize())")],
     "expect": ["C20.R2"], "why": "digests containing '+' or '/' are encoded with the wrong alphabet"},
    {"name": "connection-token-case-sensitive", "kind": "mutant", "edits": [(WS, '.any(|vs| vs.eq_ignore_ascii_case("upgrade"))', '.any(|vs| vs == "upgrade")')],
     "expect": ["C20.R1"], "why": "`Connection: Upgrade` (the usual spelling) is refused"},
    {"name": "missing-connection-accepted", "kind": "mutant", "edits": [(WS, """                    .any(|vs| vs.eq_ignore_ascii_case("upgrade"))
            })
        {""", """                    .any(|vs| vs.eq_ignore_ascii_case("upgrade"))
            })
            && request.headers().contains_key(header::CONNECTION)
        {""")],
     "expect": ["C20.R1"], "why": "a request without a Connection header is upgraded"},
    {"name": "upgrade-test-inverted", "kind": "mutant", "edits": [(WS, "        if !request\n            .headers()\n            .get_all(header::UPGRADE)", "        if request\n            .headers()\n            .get_all(header::UPGRADE)")],
     "expect": ["C20.R1"], "why": "Upgrade: websocket is refused and everything else accepted"},
    {"name": "prefix-f7-first-line-only", "kind": "mutant", "revert": "d8a2f7a", "expect": ["C20.X5"], "why": "pre-fix code: only the first Connection/Upgrade field line is read and HTAB is not list whitespace"},
    {"name": "missing-key-is-500", "kind": "mutant", "edits": [(WS, _KEY_ERR, '                HttpError::for_internal_error(\n                    "missing websocket key".to_string(),\n                )')],
     "expect": ["C20.R1"], "why": "a handshake without a key gets a 5xx instead of a 400-level error"},
    {"name": "status-200", "kind": "mutant", "edits": [(WS, ".status(StatusCode::SWITCHING_PROTOCOLS)", ".status(StatusCode::OK)")], "expect": ["C20.R3"], "why": "the upgrade is not answered with 101"},
    {"name": "no-upgrade-response-header", "kind": "mutant", "edits": [(WS, '                    .header(header::UPGRADE, "websocket")\n', "")], "expect": ["C20.R3"], "why": "101 without Upgrade: websocket"},
    {"name": "version-eq-spelling", "kind": "benign", "edits": [(WS, _VER_HEAD, _VER_HEAD.replace("if request", "if !(request")), (WS, _VER_TAIL, '            == Some(b"13"))\n        {')],
     "why": "behaviour-preserving: `a != b` written `!(a == b)`"},
    {"name": "rename-closure-vars", "kind": "benign", "edits": [(WS, '.any(|vs| vs.eq_ignore_ascii_case("upgrade"))', '.any(|tok| tok.eq_ignore_ascii_case("UPGRADE"))'), (WS, ".map(|key| derive_accept_key(key))", ".map(|k| derive_accept_key(k))")],
     "why": "behaviour-preserving: renamed closure parameters; the literal's case is irrelevant under eq_ignore_ascii_case"},
    {"name": "response-headers-reordered", "kind": "benign",
     "edits": [(WS, '                    .header(header::CONNECTION, "Upgrade")\n                    .header(header::UPGRADE, "websocket")\n', '                    .header(header::UPGRADE, "websocket")\n                    .header(header::CONNECTION, "upgrade")\n')],
     "why": "behaviour-preserving: independent builder calls reordered; Connection option tokens are case-insensitive"},
    {"name": "hasher-renamed-new", "kind": "benign",
     "edits": [(WS, "    let mut sha1 = Sha1::default();\n" + _UPDATES + "\n    base64::engine::general_purpose::STANDARD.encode(&sha1.finalize())",
                "    let mut hasher = Sha1::new();\n    hasher.update(request_key);\n    hasher.update(WS_GUID);\n    let digest = hasher.finalize();\n    base64::engine::general_purpose::STANDARD.encode(&digest)")],
     "why": "behaviour-preserving: local renamed, Sha1::new() for default(), digest bound to a local"},
    {"name": "connection-all-lines-trimmed", "kind": "benign",
     "edits": [(WS, """            .any(|hv| {
                hv.split(|c| c == ',' || c == ' ' || c == '\\t')
                    .any(|vs| vs.eq_ignore_ascii_case("upgrade"))
            })
""", """            .any(|hv| hv.split(',').any(|t| t.trim().eq_ignore_ascii_case("upgrade")))
""")],
     "why": "property-preserving: tokens are split on ',' and trimmed of all whitespace instead of splitting on SP/HTAB; same reject/accept structure"},
    {"name": "connection-named-flag-matches-separator", "kind": "benign",
     "edits": [(WS, "        if !request\n            .headers()\n            .get_all(header::CONNECTION)", "        let connection_ok = request\n            .headers()\n            .get_all(header::CONNECTION)"),
               (WS, """                hv.split(|c| c == ',' || c == ' ' || c == '\\t')
                    .any(|vs| vs.eq_ignore_ascii_case("upgrade"))
            })
        {""", """                hv.split(|c: char| matches!(c, ',' | ' ' | '\\t'))
                    .any(|vs| vs.eq_ignore_ascii_case("upgrade"))
            });
        if !connection_ok {""")],
     "why": "behaviour-preserving: the test result is bound to a named flag before `if !flag`; the separator predicate is written with matches! (decided by concrete evaluation of the closure)"},
    {"name": "upgrade-for-loop-early-exit", "kind": "benign",
     "edits": [(WS, """        if !request
            .headers()
            .get_all(header::UPGRADE)
            .iter()
            .filter_map(|v| v.to_str().ok())
            .any(|v| {
                v.split(|c| c == ',' || c == ' ' || c == '\\t')
                    .any(|v| v.eq_ignore_ascii_case("websocket"))
            })
        {""", """        let mut protocol_ok = false;
        for line in request.headers().get_all(header::UPGRADE).iter() {
            let Ok(text) = line.to_str() else { continue };
            if text
                .split(|c| c == ',' || c == ' ' || c == '\\t')
                .any(|v| v.eq_ignore_ascii_case("websocket"))
            {
                protocol_ok = true;
                break;
            }
        }
        if !protocol_ok {""")],
     "why": "behaviour-preserving: any(..) over the field lines written as a for loop with let-else/continue that sets a flag and leaves at the first match"},
    {"name": "version-guarded-match-key-match", "kind": "benign",
     "edits": [(WS, _VER_HEAD + "\n            .map(|v| v.as_bytes())\n" + _VER_TAIL,
                '        if !matches!(request.headers().get(header::SEC_WEBSOCKET_VERSION), Some(v) if v.as_bytes() == b"13")\n        {'),
               (WS, """            .map(|hv| hv.as_bytes())
            .map(|key| derive_accept_key(key))
            .ok_or_else(|| {
""" + _KEY_ERR + """
            })?;""", """;
        let accept_key = match accept_key {
            Some(client_key) => derive_accept_key(client_key.as_bytes()),
            None => {
                return Err(""" + _KEY_ERR.strip() + """);
            }
        };""")],
     "why": "behaviour-preserving: version test as a guarded pattern, key chain `.map().map().ok_or_else()?` as an explicit match with `return Err(..)`"},
    {"name": "sha1-chain-update", "kind": "benign",
     "edits": [(WS, "    let mut sha1 = Sha1::default();\n" + _UPDATES + "\n    base64::engine::general_purpose::STANDARD.encode(&sha1.finalize())",
                "    let digest = Sha1::new().chain_update(request_key).chain_update(WS_GUID).finalize();\n    let accept = base64::engine::general_purpose::STANDARD.encode(digest.as_slice());\n    debug_assert_eq!(accept.len(), 28);\n    accept")],
     "why": "behaviour-preserving: chain_update threads the hasher state by value instead of two update calls on one `mut` state; digest and result bound to locals"},
    {"name": "sha1-chain-update-guid-first", "kind": "mutant",
     "edits": [(WS, "    let mut sha1 = Sha1::default();\n" + _UPDATES + "\n    base64::engine::general_purpose::STANDARD.encode(&sha1.finalize())",
                "    let digest = Sha1::new().chain_update(WS_GUID).chain_update(request_key).finalize();\n    base64::engine::general_purpose::STANDARD.encode(digest.as_slice())")],
     "expect": ["C20.R2"], "why": "digest of GUID ++ key, written with chain_update"},
    {"name": "version-guard-inverted", "kind": "mutant",
     "edits": [(WS, _VER_HEAD + "\n            .map(|v| v.as_bytes())\n" + _VER_TAIL,
                '        if !matches!(request.headers().get(header::SEC_WEBSOCKET_VERSION), Some(v) if v.as_bytes() != b"13")\n        {')],
     "expect": ["C20.R1"], "why": "version 13 is refused and every other present version accepted (guarded-pattern spelling)"},
    {"name": "upgrade-loop-flag-never-cleared", "kind": "mutant",
     "edits": [(WS, """        if !request
            .headers()
            .get_all(header::UPGRADE)
            .iter()
            .filter_map(|v| v.to_str().ok())
            .any(|v| {
                v.split(|c| c == ',' || c == ' ' || c == '\\t')
                    .any(|v| v.eq_ignore_ascii_case("websocket"))
            })
        {""", """        let mut protocol_ok = true;
        for line in request.headers().get_all(header::UPGRADE).iter() {
            let Ok(text) = line.to_str() else { continue };
            if text
                .split(|c| c == ',' || c == ' ' || c == '\\t')
                .any(|v| v.eq_ignore_ascii_case("websocket"))
            {
                protocol_ok = true;
                break;
            }
        }
        if !protocol_ok {""")],
     "expect": ["C20.R1"], "why": "the loop's flag starts out true, so a request without `Upgrade: websocket` is upgraded"},
    {"name": "upgrade-last-line-wins", "kind": "mutant",
     "edits": [(WS, """        if !request
            .headers()
            .get_all(header::UPGRADE)
            .iter()
            .filter_map(|v| v.to_str().ok())
            .any(|v| {
                v.split(|c| c == ',' || c == ' ' || c == '\\t')
                    .any(|v| v.eq_ignore_ascii_case("websocket"))
            })
        {""", """        let mut protocol_ok = false;
        for line in request.headers().get_all(header::UPGRADE).iter().filter_map(|v| v.to_str().ok()) {
            protocol_ok = line.split([',', ' ', '\\t']).any(|v| v.eq_ignore_ascii_case("websocket"));
        }
        if !protocol_ok {""")],
     "expect": ["C20.X5"], "why": "the per-line result overwrites the flag instead of being OR-ed into it (the defect of seeded change C20-A, with get_all): `Upgrade: websocket` followed by `Upgrade: h2c` is refused"},
    {"name": "connection-flat-map-named-separator", "kind": "benign",
     "edits": [(WS, _CONN_ANY, """            .flat_map(|line| line.split(is_list_separator))
            .any(|tok| tok.eq_ignore_ascii_case("upgrade"))
"""), (WS, "/// This `ExclusiveExtractor` implementation constructs", "#[inline]\nfn is_list_separator(c: char) -> bool {\n    matches!(c, ',' | ' ' | '\\t')\n}\n\n/// This `ExclusiveExtractor` implementation constructs")],
     "why": "behaviour-preserving: `lines.any(|l| l.split(p).any(q))` flattened to `lines.flat_map(|l| l.split(p)).any(q)`; the separator predicate is a named fn written with matches! (the mapping closure's return value is part of the element's history; the predicate is decided by evaluating it)"},
    {"name": "connection-flat-map-comma-only", "kind": "mutant",
     "edits": [(WS, _CONN_ANY, """            .flat_map(|line| line.split(','))
            .any(|tok| tok.eq_ignore_ascii_case("upgrade"))
""")],
     "expect": ["C20.X5"], "why": "flattened spelling that separates at ',' only and does not trim: `Connection: keep-alive, Upgrade` is refused"},
    {"name": "connection-flat-map-first-token-only", "kind": "mutant",
     "edits": [(WS, _CONN_ANY, """            .map(|line| line.split(|c| c == ',' || c == ' ' || c == '\\t').count())
            .any(|n| n > 0)
""")],
     "expect": ["C20.R1"], "why": "no token is compared with `upgrade` any more"},
    {"name": "version-is-some-and-flag", "kind": "benign",
     "edits": [(WS, _VER_HEAD + "\n            .map(|v| v.as_bytes())\n" + _VER_TAIL,
                '        let version_is_supported = request.headers().get(header::SEC_WEBSOCKET_VERSION).is_some_and(|version| version.as_bytes() == b"13");\n        if !version_is_supported {')],
     "why": "behaviour-preserving: `get(V).map(as_bytes) != Some(b\"13\")` written as a named flag computed by is_some_and (decided on the normalised view, where the combinator is a switch with the closure body spliced in)"},
    {"name": "version-is-none-or", "kind": "mutant",
     "edits": [(WS, _VER_HEAD + "\n            .map(|v| v.as_bytes())\n" + _VER_TAIL,
                '        let version_is_supported = request.headers().get(header::SEC_WEBSOCKET_VERSION).is_none_or(|version| version.as_bytes() == b"13");\n        if !version_is_supported {')],
     "expect": ["C20.R1"], "why": "a handshake without Sec-WebSocket-Version is upgraded (is_none_or for is_some_and)"},
    {"name": "sha1-one-shot-over-concatenation", "kind": "benign",
     "edits": [(WS, _SHA_BODY,
                "    let mut message = Vec::with_capacity(request_key.len() + WS_GUID.len());\n    message.extend_from_slice(request_key);\n    message.extend_from_slice(WS_GUID);\n"
                "    let digest = Sha1::digest(&message);\n    base64::engine::general_purpose::STANDARD.encode(digest.as_slice())")],
     "why": "behaviour-preserving: SHA-1 of the concatenation key ++ GUID built in a Vec and hashed by the one-shot Digest::digest equals two update calls on a fresh state"},
    {"name": "sha1-one-shot-array-concat", "kind": "benign",
     "edits": [(WS, _SHA_BODY, "    let digest = Sha1::digest([request_key, WS_GUID].concat());\n    base64::engine::general_purpose::STANDARD.encode(digest)")],
     "why": "behaviour-preserving: the message is `[key, GUID].concat()`"},
    {"name": "sha1-one-shot-guid-first", "kind": "mutant",
     "edits": [(WS, _SHA_BODY, "    let mut message = WS_GUID.to_vec();\n    message.extend_from_slice(request_key);\n    let digest = Sha1::digest(&message);\n    base64::engine::general_purpose::STANDARD.encode(digest)")],
     "expect": ["C20.R2"], "why": "digest of GUID ++ key, written as a one-shot digest over a concatenation"},
    {"name": "sha1-one-shot-array-concat-guid-first", "kind": "mutant",
     "edits": [(WS, _SHA_BODY, "    let digest = Sha1::digest([WS_GUID, request_key].concat());\n    base64::engine::general_purpose::STANDARD.encode(digest)")],
     "expect": ["C20.R2"], "why": "digest of GUID ++ key, written as `[GUID, key].concat()`"},
    {"name": "sha1-one-shot-buffer-truncated", "kind": "mutant",
     "edits": [(WS, _SHA_BODY, "    let mut message = request_key.to_vec();\n    message.extend_from_slice(WS_GUID);\n    message.truncate(36);\n    let digest = Sha1::digest(&message);\n    base64::engine::general_purpose::STANDARD.encode(digest)")],
     "expect": ["C20.R2"], "why": "the concatenation is modified before it is hashed"},
    {"name": "sha1-one-shot-guid-appended-after-digest", "kind": "mutant",
     "edits": [(WS, _SHA_BODY, "    let mut message = request_key.to_vec();\n    let digest = Sha1::digest(&message);\n    message.extend_from_slice(WS_GUID);\n    base64::engine::general_purpose::STANDARD.encode(digest)")],
     "expect": ["C20.R2"], "why": "the GUID is appended to the buffer only after the digest was taken: SHA-1(key) is answered"},
    {"name": "log-line-and-match", "kind": "benign",
     "edits": [(WS, "        let route = request.uri().to_string();", '        debug!(rqctx.log, "websocket handshake accepted");\n        let route = request.uri().to_string();'),
               (WS, "            })\n        {\n            return Err(HttpError::for_bad_request(\n                None,\n                \"expected connection upgrade\".to_string(),\n            ));\n        }",
                "            })\n        {\n            match () {\n                () => return Err(HttpError::for_bad_request(\n                    None,\n                    \"expected connection upgrade\".to_string(),\n                )),\n            }\n        }")],
     "why": "behaviour-preserving: a log line on the accept path, the early return wrapped in a match"},
]

# ---- round-3 idioms
_CONN_IF = """        if !request
            .headers()
            .get_all(header::CONNECTION)
            .iter()
            .filter_map(|hv| hv.to_str().ok())
            .any(|hv| {
                hv.split(|c| c == ',' || c == ' ' || c == '\\t')
                    .any(|vs| vs.eq_ignore_ascii_case("upgrade"))
            })
        {
            return Err(HttpError::for_bad_request(
                None,
                "expected connection upgrade".to_string(),
            ));
        }
"""
_UPG_IF = """        if !request
            .headers()
            .get_all(header::UPGRADE)
            .iter()
            .filter_map(|v| v.to_str().ok())
            .any(|v| {
                v.split(|c| c == ',' || c == ' ' || c == '\\t')
                    .any(|v| v.eq_ignore_ascii_case("websocket"))
            })
        {
            return Err(HttpError::for_bad_request(
                None,
                "unexpected protocol for upgrade".to_string(),
            ));
        }
"""


def _local_closure_form(init="false", acc="found || ", upgrade_arm=None, seps="[',', ' ', '\\t']", n=3):
    """Both list checks through one local closure called twice, `fold` for `any`, a named constant array as the split pattern and
    one `match` over the pair of flags (the shape of benign-C20-R10)."""
    arm = upgrade_arm if upgrade_arm is not None else """{
                return Err(HttpError::for_bad_request(
                    None,
                    "unexpected protocol for upgrade".to_string(),
                ));
            }"""
    return """        const SEPARATORS: [char; %d] = %s;
        let list_names_token = |name: &header::HeaderName, wanted: &str| {
            request
                .headers()
                .get_all(name)
                .iter()
                .filter_map(|line| line.to_str().ok())
                .fold(%s, |found, line| {
                    let _ = found;
                    %sline.split(SEPARATORS).any(|e| e.eq_ignore_ascii_case(wanted))
                })
        };
        let asks_for_upgrade = list_names_token(&header::CONNECTION, "upgrade");
        let asks_for_websocket = list_names_token(&header::UPGRADE, "websocket");
        match (asks_for_upgrade, asks_for_websocket) {
            (true, true) => {}
            (false, _) => {
                return Err(HttpError::for_bad_request(
                    None,
                    "expected connection upgrade".to_string(),
                ));
            }
            (true, false) => %s
        }
""" % (n, seps, init, acc, arm)


_VER_ERR = """            return Err(HttpError::for_bad_request(
                None,
                "missing or invalid websocket version".to_string(),
            ));"""
_EXTRACTOR_DOC = "/// This `ExclusiveExtractor` implementation constructs"


def _from_impl(ctor):
    return ("struct BadHandshake(&'static str);\n\nimpl From<BadHandshake> for HttpError {\n    fn from(defect: BadHandshake) -> Self {\n        %s\n    }\n}\n\n" % ctor) + _EXTRACTOR_DOC


_RENAME = [(WS, "fn derive_accept_key(request_key: &[u8]) -> String {", "fn accept_key_for(request_key: &[u8]) -> String {")]
_PREFIX_BODY = ("    let mut hasher = Sha1::new_with_prefix(request_key);\n    Digest::update(&mut hasher, WS_GUID);\n    let digest = hasher.finalize();\n"
                "    let mut text = %s;\n    base64::engine::general_purpose::STANDARD.encode_string(digest, &mut text);\n    text")

SELFTEST += [
    {"name": "list-checks-local-closure-fold-tuple-match", "kind": "benign", "edits": [(WS, _CONN_IF + "\n" + _UPG_IF, _local_closure_form())],
     "why": "behaviour-preserving: one local closure called with (header, token) for both list checks (inlined at its two call sites by lib_c20.local_view), "
            "`fold(false, |found, l| found || test(l))` for `any`, a constant [char; 3] as the split pattern, one match over the pair of flags"},
    {"name": "list-checks-fold-starts-true", "kind": "mutant", "edits": [(WS, _CONN_IF + "\n" + _UPG_IF, _local_closure_form(init="true"))],
     "expect": ["C20.R1"], "why": "the fold over the field lines starts from true: a request without Connection / Upgrade headers is upgraded"},
    {"name": "list-checks-fold-forgets-match", "kind": "mutant", "edits": [(WS, _CONN_IF + "\n" + _UPG_IF, _local_closure_form(acc=""))],
     "expect": ["C20.X5"], "why": "the fold closure ignores its accumulator: the last field line decides, `Upgrade: websocket` followed by `Upgrade: h2c` is refused"},
    {"name": "list-checks-tuple-match-upgrade-arm-accepts", "kind": "mutant", "edits": [(WS, _CONN_IF + "\n" + _UPG_IF, _local_closure_form(upgrade_arm="{}"))],
     "expect": ["C20.R1"], "why": "the (true, false) arm of the match over the two flags falls through: a request without `Upgrade: websocket` is upgraded"},
    {"name": "list-checks-const-separators-without-htab", "kind": "mutant", "edits": [(WS, _CONN_IF + "\n" + _UPG_IF, _local_closure_form(seps="[',', ' ']", n=2))],
     "expect": ["C20.X5"], "why": "the constant separator table lacks HTAB: `Connection: keep-alive,<TAB>upgrade` is refused"},
    {"name": "bad-request-through-from-impl", "kind": "benign",
     "edits": [(WS, _EXTRACTOR_DOC, _from_impl("HttpError::for_bad_request(None, defect.0.to_string())")), (WS, _VER_ERR, '            return Err(BadHandshake("missing or invalid websocket version").into());')],
     "why": "behaviour-preserving: the 400 is built inside a hand-written `impl From<BadHandshake> for HttpError` reached by `.into()` (the conversion is resolved to the impl and judged by what it returns)"},
    {"name": "from-impl-builds-500", "kind": "mutant",
     "edits": [(WS, _EXTRACTOR_DOC, _from_impl("HttpError::for_internal_error(defect.0.to_string())")), (WS, _VER_ERR, '            return Err(BadHandshake("missing or invalid websocket version").into());')],
     "expect": ["C20.R1"], "why": "the conversion builds a 500: a handshake with a wrong version is answered with a server error"},
    {"name": "digest-fn-renamed-and-inlined", "kind": "benign", "edits": _RENAME + [(WS, ".map(|key| derive_accept_key(key))", ".map(|key| accept_key_for(key))")],
     "why": "behaviour-preserving: the digest function has another name (a function that is not on the known-functions table is inlined into from_request: the rule anchors on the SHA-1 digest, not on a name)"},
    {"name": "digest-inlined-guid-first", "kind": "mutant", "edits": _RENAME + [(WS, ".map(|key| derive_accept_key(key))", ".map(|key| accept_key_for(key))"), (WS, _UPDATES, "    sha1.update(WS_GUID);\n    sha1.update(request_key);")],
     "expect": ["C20.R2"], "why": "digest of GUID ++ key, in a renamed (hence inlined) digest function"},
    {"name": "digest-inlined-key-lowercased", "kind": "mutant", "edits": _RENAME + [(WS, ".map(|key| derive_accept_key(key))", ".map(|key| accept_key_for(&key.to_ascii_lowercase()))")],
     "expect": ["C20.R2"], "why": "the hashed key is not the raw bytes of the header (base64 keys are case-sensitive), in the inlined form"},
    {"name": "sha1-prefix-and-encode-string", "kind": "benign", "edits": [(WS, _SHA_BODY, _PREFIX_BODY % "String::with_capacity(28)")],
     "why": "behaviour-preserving: Sha1::new_with_prefix(key) for a fresh state + update(key), then update(GUID); the digest is encoded by encode_string into a fresh String that is returned"},
    {"name": "encode-string-into-nonempty-string", "kind": "mutant", "edits": [(WS, _SHA_BODY, _PREFIX_BODY % 'String::from("=")')],
     "expect": ["C20.R2"], "why": "encode_string appends to a String that is not empty: the accept value has a spurious prefix"},
    {"name": "sha1-prefix-is-the-guid", "kind": "mutant", "edits": [(WS, _SHA_BODY, (_PREFIX_BODY % "String::new()").replace("new_with_prefix(request_key)", "new_with_prefix(WS_GUID)").replace("&mut hasher, WS_GUID", "&mut hasher, request_key"))],
     "expect": ["C20.R2"], "why": "digest of GUID ++ key, written with new_with_prefix"},
]

LEVEL_TEXT += ' Also (X5): every field line of the list-valued handshake headers is consulted (get_all, and a match found on one line cannot be lost on a later one) and SP/HTAB are list whitespace (the separator pattern is evaluated concretely); (R6): plain and TLS connections are both served with upgrade support.'
