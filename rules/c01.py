"""C01 — every request is dispatched to the one endpoint registered for it."""
import re

from .lib import PLUMBING, callee_allow, callers, closure_args_of_call, operand_local
from .lib_c01 import (PRE_FIX_F3_EDITS, VALUE_PRESERVING, Path, Renamed, access_path, bool_switch_of_call, conflict_loop, const_reach, enum_switches,
                      norm_path, outermost_fn, resolve_path, sources, version_param)
from .lib_c01 import edge_is_rejecting as edge_rejects

LEVEL = "other"
TECHNIQUE = ("static analysis: access-path / slice provenance (SAME-SOURCE, CHAIN) with value sources followed through every definition of a multi-assigned local, "
             "per-variant decision tables read off the MIR switches of the trie walk, role-based census of the version predicate (closure predicate / filter_map / explicit loop), "
             "dominance and path-sensitive (constant- and variant-propagating) reachability over the registration conflict test and the version-policy guard")
LEVEL_TEXT = ("Decides, on every path of the type-checked MIR of the current tree, the structural clauses of C01: (R1) http_request_handle routes on the method, URI path and "
              "resolved version of the one request it then hands to the handler, and both task-mode arms invoke lookup_result.handler with a context whose endpoint metadata is "
              "lookup_result.endpoint; (R2) every field of the lookup answer comes from the single endpoint returned by find_handler_matching_version(methods-of-the-matched-node[METHOD], "
              "request version) and `variables` is the map filled by the walk; (R3) per edge kind the walk (driven by the segment iterator, or by a slice cursor over the segments whose every step skips exactly the segments it used) compares / binds the request segment itself (only to_string/clone in between), "
              "a wildcard receives the current segment followed by every remaining one in order (possibly none), and `node` is only ever advanced to the child of the edge just matched; "
              "(R4) insert and lookup normalise the method key identically; (R5) the only version predicate used for selection is ApiEndpointVersions::matches on the caller's version; "
              "(R6) the one insertion-ordered container is appended to only after every existing element was tested with overlaps_with and none overlapped, and (R6E2) overlaps_with is "
              "exactly 'some version in both' on all order types, so at most one element matches any version and `find` is order-independent; "
              "(R7) version-constrained endpoints are never served without a version policy - the sticky has_versioned_routes flag is set on every registration of a non-All endpoint, "
              "never cleared, returned unmodified by its accessor, and the single construction of the server state is refused when the policy is Unversioned and the flag is set "
              "(with version None every range matches and registration order would decide). Not decided: correctness of the recursive trie as a theorem over all tables (that the node reached is the node "
              "of the template for every nesting) - that needs a verifier or execution.")
LEVEL_NOTE = ("Trusts rustc MIR construction, the extractor, engine slices/dominators, std BTreeMap::{get,insert,entry}, Vec::push, Iterator::{next,find} and http::{Request,Uri,Method} accessors. "
              "R6E2 re-runs rule C05.E2 of rules/c05.py (exhaustive interpretation of overlaps_with over all weak orders of the range bounds) under this property's id; "
              "the uniqueness conclusion additionally relies on C05.E1 (matches is exact membership). That the segments produced by input_path_to_segments are the request's "
              "path segments decoded exactly once is C03.R1's clause (a double decode there is reported by C03, not here); R3 starts from that iterator.")
EXPLANATION = ("Rules over the MIR of server::http_request_handle (coroutine), server::HttpServerStarter::new_internal, router::HttpRouter::{lookup_route,insert,has_versioned_routes}, "
               "router::find_handler_matching_version and router::iter_handlers_from_node extracted from the current tree. Provenance is computed as normalised access paths (single-assignment temporaries followed through copies, "
               "borrows and an explicit list of value-preserving callees, stopping at parameters, call results and re-assigned locals) and backward slices with callee allow-lists; "
               "tables are read from the discriminant switches on HttpRouterEdges; dominance uses the pruned CFG. The rules are written over roles, not spellings: the success payload of a "
               "Result/Option is the same path whether it was split by `?`, match, if-let or let-else; a value bound through `let x = match ..` or an or-pattern is followed into every arm; "
               "`while let .. push`, `extend(iterator)` and `once(segment).chain(iterator).collect()` are all accepted for 'the current segment followed by every remaining one' (seed = the walk's current segment, "
               "rest = the walk's own iterator, nothing else written to the list, binding only once that iterator is consumed); R1-R4 read the normalised view, in which Option/Result combinators with closures "
               "(`get(k).and_then(|h| select(h, v))`, `match{..}.ok_or_else(..)?`) are the same switches as the corresponding match; the walk loop may be `while let` or `loop { let-else break }` "
               "(only the Some / None edges of the driving next() are used); the version predicate may be a closure handed to find/filter, a filter_map closure or an explicit "
               "loop with early return; the overlap test may be a loop or a find/position/any search; `!= All` may be written as ==, match or matches!; the sticky flag as `= true` under a test, `|=` or `a = a || b`; "
               "private helpers that are not on tables/known_functions.txt are analysed inlined (R2-R4 anchor on the function that builds RouterLookupResult: lookup_route, or - should the engine "
               "not inline it - the one helper lookup_route hands its own self / method / version and into_iter(validated segments) to and whose answer it returns, each of which is then a checked instance); "
               "`node.edges.as_ref()` is `&node.edges`; the conflict loop may run over the list seen as a slice (as_slice) inside an extracted helper; the Option-returning selection closure may be "
               "`matches(..).then_some(x)` handed to filter_map / find_map; the walk may be driven by a slice cursor instead of an iterator: a `&[String]` local initialised with the whole result of "
               "input_path_to_segments, tested with is_empty(), read with split_first()/first() (current segment), to_vec() (current and all remaining segments) and len(), and only ever reassigned `&cursor[n..]` at the "
               "end of a step, where n is decided per edge kind (1, 1, len) - with the per-edge results carried out of the match in a step record and the (name, value) binding inserted once behind the match, "
               "each value attributed to the arm it was built in by the definitions its data flow passes.")
TRUSTED = ["rustc nightly MIR construction", "mirfacts extractor", "rules/engine.py (dominators, slices) and rules/lib_c01.py (access paths)",
           "std BTreeMap/Vec/Iterator semantics (incl. Extend for Vec: appends every remaining item in order; once(a).chain(it).collect::<Vec<_>>(): a, then every remaining item of it, in order; find/position/any: apply the predicate to each item until it first holds; filter_map / find_map: keep / return the first of the Some payloads in order; bool::then_some(x): Some(x) iff true; slice split_first/first/to_vec/len/is_empty/Index<RangeFrom>: first element and rest / copy of all elements in order / element count / count == 0 / the suffix from n)", "engine normalised view (combinator desugaring, helper inlining, jump threading)", "http crate accessors (Request::method/uri, Uri::path, Method::as_str)", "C05.E1/E2 (exact matches / overlaps_with tables)"]

VP = VALUE_PRESERVING
TRYQ = [r"ops::Try::branch$"]
# the same value seen through a reference (`node.edges.as_ref()` = `&node.edges`, `Box::as_ref(child)` = `&**child`)
VIEW = r"ops::Deref::deref$|Option::<T>::as_ref$|Option::<T>::as_deref$|convert::AsRef::as_ref$|borrow::Borrow::borrow$"
SEG_OK = VP + [r"string::ToString::to_string$"]          # segment -> String copies


LOOKUP = r"^router::HttpRouter::<Context>::lookup_route$"
SEGMENTS_THRU = VP + TRYQ + [r"iter::IntoIterator::into_iter$", r"iter::Iterator::by_ref$", r"Result::<T, E>::map_err$"]


def _lr(ctx, R):
    """The function that holds the trie walk and builds the answer (found by role: the one construction site of RouterLookupResult).  That is
    lookup_route itself - private helpers are analysed inlined - unless the body was moved into a helper the engine does not inline (size limit);
    then the rules read that function and `_link` decides that lookup_route hands its own arguments to it and returns its answer."""
    lr = ctx.need_fn(ctx.dsn, R, LOOKUP)
    built = [f for f in ctx.dsn.F.values() if list(f.aggregates(r"^router::RouterLookupResult$"))]
    if len(built) == 1 and built[0] is not lr and built[0].raw["kind"] != "Closure":
        return built[0]
    return lr


def _link(ctx, R, wf, want):
    """lookup_route -> wf (see _lr).  Emits, under rule R, the checks that make a statement about wf's parameters a statement about lookup_route's:
    wf is called from exactly one place, in lookup_route; the parameters named in `want` ("self", "method", "version", "segments") receive
    lookup_route's own self / method / version unchanged, resp. into_iter(<Ok payload of input_path_to_segments(path)>) with nothing else applied;
    and ("answer") every Ok value lookup_route returns is wf's return value.  Returns {role: wf parameter index} (empty when wf is lookup_route)."""
    lr = ctx.need_fn(ctx.dsn, R, LOOKUP)
    if wf is lr:
        return {}
    sites = callers(ctx.dsn, "^" + re.escape(wf.id) + "$")
    if len(sites) != 1 or sites[0][0] is not lr or len(sites[0][2]["args"]) != wf.argc:
        ctx.lost(R, "the single call of %s from lookup_route (call sites: %s)" % (wf.id, sorted(f.id for f, _, _ in sites)))
        return None
    _f, cbb, ct = sites[0]
    roles = {}
    for i, a in enumerate(ct["args"], start=1):
        ty = wf.local_ty(i)
        pa = access_path(lr, a, VP)
        plain = pa.kind() == "param" and not pa.path and not [c for c in pa.call_names() if not re.search(VIEW, c)]
        if i == 1 and "HttpRouter<" in ty:
            role, ok, d = "self", plain and pa.root[1] == 1, "%r" % pa
        elif "http::Method" in ty:
            role, ok, d = "method", plain and "http::Method" in lr.local_ty(pa.root[1]), "%r" % pa
        elif "semver::Version" in ty:
            role, ok, d = "version", plain and pa.root[1] == version_param(lr) and not pa.calls, "%r" % pa
        else:
            ps = access_path(lr, a, SEGMENTS_THRU)
            role = "segments"
            ok = ps.is_call(r"^router::input_path_to_segments$") and ps.npath() == ["+", "0"] and any(c.endswith("into_iter") for c in ps.call_names())
            d = "%r" % ps
        if role in roles:
            ctx.lost(R, "distinct roles of %s's parameters (two are `%s`)" % (wf.id, role))
            return None
        roles[role] = i
        if role in want:
            ctx.check(R, "walk-helper-gets-lookup_route's-%s" % role, ok, "lookup_route calls %s with %s = %s" % (wf.id.split("::")[-1], role, d), (lr, cbb))
    if "answer" in want:
        rets = sources(lr, {"l": 0, "p": []}, VP)
        bad = [repr(q) for q in rets if not ((q.call() and q.call()[2] is ct and not q.path) or
                                             (q.kind() == "agg" and q.root[2].get("adt") == "std::result::Result" and q.root[2].get("variant") == "Err" and not q.path) or
                                             (q.is_call(r"ops::FromResidual::from_residual$") and not q.path))]
        ctx.check(R, "lookup_route-returns-the-walk-helper's-answer", bool(rets) and not bad and any(q.call() and q.call()[2] is ct for q in rets),
                  "lookup_route returns %s's result or an error of its own; anything else: %s" % (wf.id.split("::")[-1], bad), (lr, cbb))
    missing = [r for r in want if r != "answer" and r not in roles]
    if missing:
        ctx.lost(R, "parameter(s) of %s carrying lookup_route's %s" % (wf.id, ", ".join(missing)))
        return None
    return roles


def _ins(ctx, R):
    return ctx.need_fn(ctx.ds, R, r"^router::HttpRouter::<Context>::insert$")


def _same_root(a, b):
    return a.root[0] == b.root[0] and a.root[1] == b.root[1] and a.fn is b.fn


# --------------------------------------------------------------------------- R1
def r1_request_wiring(ctx):
    R = ctx.rule("C01.R1", "http_request_handle calls lookup_route(server.router, request.method(), request.uri().path(), request_version(&request)?) on the one request, and both "
                 "handle_request calls take lookup_result.handler, a RequestContext whose endpoint is lookup_result.endpoint, and that same request", floor=13)
    top = ctx.need_fn(ctx.dsn, R, r"^server::http_request_handle$")
    hb = ctx.dsn.body_of(top)
    looks = callers(ctx.dsn, r"HttpRouter::<Context>::lookup_route$")
    ctx.check(R, "single-lookup-site", len(looks) == 1 and looks[0][0] is hb, "lookup_route is called from %s" % sorted(f.id for f, _, _ in looks), hb)
    look = hb.live_calls(r"HttpRouter::<Context>::lookup_route$")
    if len(look) != 1:
        ctx.lost(R, "the single lookup_route call in http_request_handle")
        return
    lbb, lt = look[0]
    a_router, a_method, a_path, a_ver = lt["args"]
    pr = access_path(hb, a_router, VP)
    ctx.check(R, "router-is-server.router", pr.kind() == "param" and pr.ends("router") and not [c for c in pr.call_names() if not c.endswith("Deref::deref")],
              "lookup_route receiver is %r" % pr, (hb, lbb))
    # method
    pm = access_path(hb, a_method, VP)
    req = None
    okm = pm.is_call(r"^http::Request::<T>::method$") and not pm.path
    if okm:
        req = access_path(hb, pm.call()[2]["args"][0], VP)
    ctx.check(R, "method-is-request.method()", okm and not pm.calls, "method argument is %r of %r" % (pm, req), (hb, lbb))
    # path
    pp = access_path(hb, a_path, VP + [r"convert::Into::into$", r"convert::From::from$"])
    okp = pp.is_call(r"^http::Uri::path$") and not pp.path
    ru = None
    rq2 = None
    if okp:
        ru = access_path(hb, pp.call()[2]["args"][0], VP)
        if ru.is_call(r"^http::Request::<T>::uri$") and not ru.path:
            rq2 = access_path(hb, ru.call()[2]["args"][0], VP)
    extra = [c for c in pp.call_names() if not re.search(r"convert::(Into::into|From::from)$", c)]
    ctx.check(R, "path-is-request.uri().path()", okp and rq2 is not None and not extra and (req is None or _same_root(req, rq2)),
              "path argument is %r of %r of %r (only Into<InputPath> in between: %s)" % (pp, ru, rq2, not extra), (hb, lbb))
    # version
    pv = access_path(hb, a_ver, VP + TRYQ)
    okv = pv.is_call(r"VersionPolicy::request_version$") and pv.npath() == ["+", "0"]        # `x?`, match, let-else alike
    rq3 = None
    if okv:
        rq3 = access_path(hb, pv.call()[2]["args"][1], VP)
    extra = [c for c in pv.call_names() if not re.search(r"Option::<T>::as_ref$|Try::branch$", c)]
    ctx.check(R, "version-is-request_version(request)?", okv and not extra and rq3 is not None and (req is None or _same_root(req, rq3)),
              "version argument is %r; request_version reads %r" % (pv, rq3), (hb, lbb))
    if req is None:
        ctx.lost(R, "the request value whose method() is routed")
        return
    # handlers
    sites = []
    for g in [hb] + ctx.dsn.descendants(hb):
        for bb, t in g.live_calls(r"RouteHandler::handle_request$"):
            sites.append((g, bb, t))
    ctx.check(R, "two-handler-sites", len(sites) == 2, "handle_request call sites under http_request_handle: %d (one per task mode)" % len(sites), hb)
    fields = [f["name"] for f in (ctx.dsn.adt_fields("handler::RequestContext") or [])]
    if "endpoint" not in fields:
        ctx.lost(R, "field RequestContext.endpoint")
        return
    eidx = fields.index("endpoint")
    for g, bb, t in sites:
        tag = "spawned" if g is not hb else "inline"
        # receiver
        f1, ph = resolve_path(ctx.dsn, g, t["args"][0], VP + TRYQ, stop_at=hb)
        okh = f1 is hb and ph.is_call(r"HttpRouter::<Context>::lookup_route$") and ph.npath() == ["+", "0", "handler"] and ph.call()[1] == lbb
        ctx.check(R, "handler-is-lookup_result.handler:%s" % tag, okh, "handle_request receiver is %r" % ph, (g, bb))
        # context
        f2, pc = resolve_path(ctx.dsn, g, t["args"][1], VP, stop_at=hb)
        oke = False
        pe = None
        if f2 is hb and pc.kind() == "agg" and pc.root[2].get("adt") == "handler::RequestContext" and not pc.path:
            pe = access_path(hb, pc.root[2]["ops"][eidx], VP + TRYQ)
            oke = pe.is_call(r"HttpRouter::<Context>::lookup_route$") and pe.npath() == ["+", "0", "endpoint"] and pe.call()[1] == lbb
        ctx.check(R, "context-endpoint-is-lookup_result.endpoint:%s" % tag, oke, "RequestContext.endpoint is %r (context value: %r)" % (pe, pc), (g, bb))
        # request
        f3, prq = resolve_path(ctx.dsn, g, t["args"][2], VP, stop_at=hb)
        ctx.check(R, "handler-gets-the-routed-request:%s" % tag, f3 is hb and _same_root(prq, req) and prq.path == req.path,
                  "handle_request's request is %r; routed request is %r" % (prq, req), (g, bb))
    n_ctx = sum(1 for f in ctx.dsn.F.values() for _ in f.aggregates(r"^handler::RequestContext$"))
    ctx.check(R, "one-RequestContext-construction", n_ctx == 1, "aggregate sites of RequestContext in the crate: %d" % n_ctx, hb)


# --------------------------------------------------------------------------- R2
def _find_call(ctx, R, lr):
    """The find_handler_matching_version call whose Some payload is the answer."""
    oks = [(bb, st) for bb, i, st in lr.aggregates(r"^std::result::Result$", "Ok") if st["pl"]["l"] == 0 and bb in lr.reachable(0)]
    if len(oks) != 1:
        ctx.lost(R, "the single Ok(..) return of lookup_route (%d found)" % len(oks))
        return None
    return oks[0]


def r2_one_endpoint(ctx):
    R = ctx.rule("C01.R2", "every field of lookup_route's Ok answer (handler, operation_id, body_content_type, request_body_max_bytes) is read from the one endpoint returned by a single "
                 "find_handler_matching_version(node.methods[METHOD], version); `variables` is the map the walk filled; version reaches the selection unmodified", floor=10)
    lr = _lr(ctx, R)
    if _link(ctx, R, lr, ("self", "version", "answer")) is None:
        return
    ok = _find_call(ctx, R, lr)
    if ok is None:
        return
    obb, ost = ok
    pres = access_path(lr, ost["rv"]["ops"][0], VP)
    # (plain view, where closures are separate bodies: the site counts for the named function it is written in - e.g. an and_then closure of lookup_route)
    n_res = [(outermost_fn(ctx.ds, f).id, bb) for f in ctx.ds.F.values() for bb, i, st in f.aggregates(r"^router::RouterLookupResult$")]
    ctx.check(R, "one-RouterLookupResult-construction", len(n_res) == 1 and n_res[0][0] == lr.id, "aggregate sites of RouterLookupResult: %s" % n_res, lr)        # (lr = the function _lr found by this role)
    if not (pres.kind() == "agg" and pres.root[2].get("adt") == "router::RouterLookupResult"):
        ctx.lost(R, "Ok(RouterLookupResult{..}) in lookup_route (Ok payload is %r)" % pres)
        return
    rfields = [f["name"] for f in ctx.ds.adt_fields("router::RouterLookupResult")]
    mfields = [f["name"] for f in ctx.ds.adt_fields("handler::RequestEndpointMetadata")]
    rops = dict(zip(rfields, pres.root[2]["ops"]))
    pmeta = access_path(lr, rops.get("endpoint"), VP) if "endpoint" in rops else None
    if pmeta is None or not (pmeta.kind() == "agg" and pmeta.root[2].get("adt") == "handler::RequestEndpointMetadata"):
        ctx.lost(R, "RequestEndpointMetadata{..} inside the answer")
        return
    mops = dict(zip(mfields, pmeta.root[2]["ops"]))
    wanted = [("handler", rops.get("handler"))] + [(n, mops.get(n)) for n in mfields if n != "variables"]
    find_sites = set()
    for name, op in wanted:
        if op is None:
            ctx.lost(R, "answer field %s" % name)
            continue
        p = access_path(lr, op, VP)
        okf = p.is_call(r"^router::find_handler_matching_version$") and p.path == ["as Some", "0", name]
        if okf:
            find_sites.add(p.call()[1])
        ctx.check(R, "answer.%s-from-selected-endpoint" % name, okf and not [c for c in p.call_names() if not c.endswith("Clone::clone")],
                  "answer field `%s` is %r (want: find_handler_matching_version(..).Some.0.%s, cloned at most)" % (name, p, name), (lr, obb))
    ctx.check(R, "one-selection-feeds-all-fields", len(find_sites) == 1, "find_handler_matching_version call sites feeding the answer: %d" % len(find_sites), (lr, obb))
    if len(find_sites) != 1:
        return
    fbb = list(find_sites)[0]
    ft = lr.blocks[fbb]["term"]
    # answer only on the Some edge of that selection
    sw = []
    for sbb, info, tg in enum_switches(lr, r"^std::option::Option$"):
        # the selection itself, a let-bound copy of it, or the join of `get(..).and_then(|h| <the selection>)` / an equivalent match: the value switched
        # on is the selection's result on some definitions and a literal `None` on all the others (the Some payload read on the Some edge is then the
        # selection's, which the field checks above established)
        qs = sources(lr, info["place"], VP)
        if any(q.call() and q.call()[2] is ft and not q.path for q in qs) and \
                all((q.call() and q.call()[2] is ft and not q.path) or (q.kind() == "agg" and q.root[2].get("adt") == "std::option::Option" and q.root[2].get("variant") == "None" and not q.path)
                    for q in qs):
            sw.append((sbb, info))
    oks = False
    if sw:
        oks = any(lr.edge_dominates(sbb, lr.switch_target(sbb, 1), obb) for sbb, info in sw)
    ctx.check(R, "answer-only-when-selection-is-Some", oks, "Ok(..) is dominated by the Some edge of the selection: %s" % oks, (lr, obb))
    # version argument
    vp = version_param(lr)
    pv = access_path(lr, ft["args"][1], VP)
    ctx.check(R, "selection-version-is-request-version", vp is not None and pv.kind() == "param" and pv.root[1] == vp and not pv.path and not pv.calls,
              "selection's version argument is %r (version parameter is #%s)" % (pv, vp), (lr, fbb))
    # handlers argument: node.methods.get(&methodname) of the node the walk reached
    hs = lr.slice(ft["args"][0], stop_at_calls=r"BTreeMap::<K, V, A>::get$")
    gets = hs.calls(r"BTreeMap::<K, V, A>::get$")
    okg = False
    pg = None
    node_local = _node_local(lr)
    if len(gets) == 1:
        pg = access_path(lr, gets[0][2]["args"][0], VP)
        okg = pg.kind() == "local" and pg.root[1] == node_local and pg.path == ["methods"]
    bad = callee_allow(hs, PLUMBING + [r"BTreeMap::<K, V, A>::get$", r"Option::<T>::map$", r"Option::<T>::unwrap_or$", r"Option::<T>::unwrap_or_default$",
                                      r"Option::<T>::map_or$", r"Option::<T>::into_iter$", r"iter::Iterator::flatten$", r"iter::IntoIterator::into_iter$",
                                      r"vec::Vec::<T, A>::as_slice$", r"Option::<T>::map_or_else$", r"Option::<T>::unwrap_or_else$"])
    # `&[][..]`: the whole of an empty array literal is the empty default list, whatever the range (any other indexing of the handler list stays reported)
    def _indexes_empty_array(ibb):
        a = access_path(lr, lr.blocks[ibb]["term"]["args"][0], VP)
        ds = lr.defs().get(a.root[1], []) if a.kind() == "local" and not a.path else []
        return len(ds) == 1 and ds[0][1] == "assign" and not ds[0][2]["pl"]["p"] and ds[0][2]["rv"]["rv"] == "agg" and ds[0][2]["rv"].get("agg") == "array" and not ds[0][2]["rv"]["ops"]
    bad = [b for b in bad if not (b[0].endswith("ops::Index::index") and _indexes_empty_array(b[1]))]
    okc = True
    for bb, t in lr.live_calls(r"Option::<T>::(map|map_or|map_or_else|unwrap_or_else)$"):
        if t["dest"]["l"] in hs.locals():
            for h, node in closure_args_of_call(lr, t):
                rs = h.slice({"l": 0, "p": []})
                if callee_allow(rs, PLUMBING + [r"vec::Vec::<T, A>::as_slice$", r"slice::<impl \[T\]>::iter$"]) or rs.params() not in ([2], []):
                    okc = False
    ctx.check(R, "selection-scans-node.methods[METHOD]", okg and not bad and okc,
              "handlers argument = %r looked up with get(..) (other callees: %s; adapter closure is identity-like: %s)" % (pg, [b[0] for b in bad], okc), (lr, fbb))
    # variables
    pvar = access_path(lr, mops.get("variables"), VP) if mops.get("variables") else None
    vmap = _variables_local(lr)
    ctx.check(R, "answer.variables-is-the-walk's-map", pvar is not None and vmap is not None and pvar.root_local() == vmap and not pvar.path and not pvar.calls,
              "answer field `variables` is %r; the walk inserts into local#%s" % (pvar, vmap), (lr, obb))


def _node_local(lr):
    """The `node` cursor: root local of the places on which HttpRouterEdges is matched."""
    roots = set()
    for sbb, info, tg in enum_switches(lr, r"^router::HttpRouterEdges$"):
        p = access_path(lr, info["place"], VP)
        if p.kind() == "local":
            roots.add(p.root[1])
    return list(roots)[0] if len(roots) == 1 else None


def _variables_local(lr):
    """The map the walk binds variables in: common receiver of the BTreeMap::insert calls whose value is a VariableValue."""
    roots = set()
    for bb, t in lr.live_calls(r"BTreeMap::<K, V, A>::insert$"):
        if len(t["args"]) == 3:
            pv = access_path(lr, t["args"][2], VP)
            if pv.kind() == "agg" and pv.root[2].get("adt") == "router::VariableValue":
                roots.add(access_path(lr, t["args"][0], VP).root_local())
    return list(roots)[0] if len(roots) == 1 else None


# --------------------------------------------------------------------------- R3
def _segment_nexts(lr, seg_param=None):
    """Iterator::next calls on the request-segment iterator: (outer, [inner...], iterator local) by dominance; the
    iterator is the one built by into_iter(<segments from input_path_to_segments>), whatever it is called and
    however the Result of input_path_to_segments was split (`?`, match, let-else) - or the by-value iterator parameter
    `seg_param` that `_link` established to receive exactly that."""
    cands = []
    thru = SEGMENTS_THRU
    for bb, t in lr.live_calls(r"iter::Iterator::next$"):
        pr = access_path(lr, t["args"][0], thru)
        if (pr.is_call(r"^router::input_path_to_segments$") and pr.npath() == ["+", "0"] and any(c.endswith("into_iter") for c in pr.call_names())) or \
                (seg_param is not None and pr.kind() == "param" and pr.root[1] == seg_param and not pr.path):
            cands.append((bb, t, _iterator_local(lr, t["args"][0], seg_param)))
    if not cands:
        return None, [], None
    its = set(c[2] for c in cands)
    if len(its) != 1 or None in its:
        return None, [], None
    outer = [c for c in cands if all(lr.dominates(c[0], d[0]) for d in cands)]
    if len(outer) != 1:
        return None, [], None
    return outer[0], [c for c in cands if c is not outer[0]], list(its)[0]


def _iterator_local(lr, op, seg_param=None):
    """Identity of the iterator that `op` (`&mut it`, `it.by_ref()`, `(&mut it).into_iter()` of a for loop, reborrows)
    refers to: the site of the into_iter call that built it from the collection, plus where the collection lives
    (or: the iterator parameter seg_param itself)."""
    p = access_path(lr, op, [r"iter::Iterator::by_ref$", r"ops::DerefMut::deref_mut$", r"iter::IntoIterator::into_iter$"])
    if [c for c, bb in p.calls if not re.search(r"into_iter$|by_ref$|deref_mut$", c)]:
        return None
    if seg_param is not None and p.kind() == "param" and p.root[1] == seg_param and not p.path:
        return ("param", seg_param)         # (`&mut it`.into_iter() of a for loop over the parameter is the parameter)
    made = [bb for c, bb in p.calls if c.endswith("into_iter")]
    if not made:
        return None
    return (made[-1], p.root[0], p.root_local(), tuple(p.path))


def _is_segment(lr, p, next_bb):
    """Access path p is the Some payload of the `next` call at next_bb."""
    return p.is_call(r"iter::Iterator::next$") and p.call()[1] == next_bb and p.path == ["as Some", "0"]


def _some_edge(lr, call_t):
    """(switch_bb, some_target, none_target) for the Option returned by a call."""
    for sbb, info, tg in enum_switches(lr, r"^std::option::Option$"):
        if info["place"]["l"] == call_t["dest"]["l"] and not info["place"]["p"]:
            return sbb, lr.switch_target(sbb, 1), lr.switch_target(sbb, 0)
    return None


def _once_chain_collect(lr, pr):
    """pr is `std::iter::once(<seed>).chain(<rest>).collect()` into a Vec (std: Chain yields every item of its first iterator, then every item of
    its second, in order; collect::<Vec<_>> stores them in that order and runs until both are exhausted): (collect bb, seed operand, rest operand) or None."""
    if not (pr.is_call(r"iter::Iterator::collect$") and not pr.path):
        return None
    cbb, ct = pr.call()[1], pr.call()[2]
    if not lr.local_ty(ct["dest"]["l"]).startswith("std::vec::Vec<") or len(ct["args"]) != 1:
        return None
    pc = access_path(lr, ct["args"][0], [])
    if not (pc.is_call(r"iter::Iterator::chain$") and not pc.path and len(pc.call()[2]["args"]) == 2):
        return None
    ch = pc.call()[2]
    po = access_path(lr, ch["args"][0], [])
    if not (po.is_call(r"^(std|core)::iter::once$") and not po.path and len(po.call()[2]["args"]) == 1):
        return None
    return cbb, po.call()[2]["args"][0], ch["args"][1]


def _vec_contributions(lr, rest_op):
    """What goes into the Vec handed to VariableValue::Components: the `next` sites whose payload is
    the seed or is pushed, whole-iterator appends (`extend`, or the `chain(..)` of a `once(seed).chain(rest).collect()`), plus anything else that
    writes to the vector (reported as foreign)."""
    pr = access_path(lr, rest_op, VP)
    occ = _once_chain_collect(lr, pr)
    chains = []
    if occ is not None:
        cbb, seed_op, chained_op = occ
        ps = access_path(lr, seed_op, VP)
        seeds = [ps.call()[1]] if ps.is_call(r"iter::Iterator::next$") and ps.path == ["as Some", "0"] else []
        seed_bad = [] if seeds else [("once(%r)" % ps, None)]
        chains.append((cbb, chained_op))
    else:
        seed = lr.slice(rest_op, stop_at_calls=r"iter::Iterator::next$")
        seed_bad = callee_allow(seed, PLUMBING + [r"boxed::box_assume_init_into_vec_unsafe$", r"boxed::Box::<T>::new_uninit$", r"slice::<impl \[T\]>::into_vec$",
                                                  r"vec::Vec::<T>::new$", r"vec::Vec::<T>::with_capacity$", r"vec::from_elem$", r"iter::Iterator::next$",
                                                  r"alloc::exchange_malloc$", r"boxed::Box::<T>::write$", r"mem::MaybeUninit"])
        seeds = [bb for c, bb, t in seed.calls(r"iter::Iterator::next$")]
    pushes, extends, foreign = _vec_users(lr, pr)
    foreign = [b[0] for b in seed_bad] + foreign
    return pr, seeds, pushes, extends, foreign, chains


SLICE_FIRST = r"slice::<impl \[T\]>::(split_first|first)$"
SLICE_TO_VEC = r"slice::<impl \[T\]>::to_vec$"
SLICE_LEN = r"slice::<impl \[T\]>::len$"


def _slice_cursor(lr):
    """The walk written over a slice cursor instead of an iterator: a `&[String]` local C that is (i) initialised with a view (as_slice / deref) of the Ok
    payload of input_path_to_segments, (ii) otherwise only ever assigned `&C[n..]`, and (iii) tested by one `C.is_empty()` whose false edge enters the
    step and whose true edge leaves the walk.  Returns {cursor, init: [def bb], advances: [(def bb, n operand)], other: [..], guard_bb, sw, body, done} or None."""
    found = []
    for l, ds in sorted(lr.defs().items()):
        if l <= lr.argc or len(ds) < 2 or not lr.local_ty(l).endswith("[std::string::String]"):
            continue
        cur = {"cursor": l, "init": [], "advances": [], "other": []}
        for bb, k, n in ds:
            if k == "assign" and not n["pl"]["p"]:
                srcs = sources(lr, n["rv"].get("op") or n["rv"].get("pl") or {"l": l, "p": []}, VP + TRYQ + [r"vec::Vec::<T, A>::as_slice$"], stop={l})
            elif k == "call" and not n["dest"]["p"]:
                srcs = [Path(lr, ("call", l, n.get("callee") or "<indirect>", bb, n), [], [])]        # (the cursor is the call's destination itself)
            else:
                cur["other"].append("bb-def:%s" % k)
                continue
            for q in srcs:
                if q.is_call(r"^router::input_path_to_segments$") and q.npath() == ["+", "0"] and \
                        not [c for c in q.call_names() if not re.search(r"as_slice$|Try::branch$|" + VIEW, c)]:
                    cur["init"].append(bb)
                    continue
                if q.is_call(r"ops::Index::index$") and not q.path and not q.calls and len(q.call()[2]["args"]) == 2:
                    it = q.call()[2]
                    a0 = access_path(lr, it["args"][0], VP)
                    a1 = access_path(lr, it["args"][1], [])
                    if a0.kind() == "local" and a0.root[1] == l and not a0.path and a1.kind() == "agg" and a1.root[2].get("adt") == "std::ops::RangeFrom" and not a1.path:
                        cur["advances"].append((bb, a1.root[2]["ops"][0], q.call()[1]))
                        continue
                cur["other"].append(repr(q))
        if len(cur["init"]) == 1 and cur["advances"]:
            found.append(cur)
    if len(found) != 1:
        return None
    cur = found[0]
    guards = []
    for bb, t in lr.live_calls(r"slice::<impl \[T\]>::is_empty$"):
        a = access_path(lr, t["args"][0], VP)
        if a.kind() == "local" and a.root[1] == cur["cursor"] and not a.path:
            guards.append((bb, t))
    if len(guards) != 1:
        return None
    sw = bool_switch_of_call(lr, guards[0][0], guards[0][1])
    if sw is None:
        return None
    cur["guard_bb"], cur["sw"], cur["done"], cur["body"] = guards[0][0], sw[0], sw[1], sw[2]
    return cur


def _on_cursor(lr, op, cur):
    a = access_path(lr, op, VP)
    return a.kind() == "local" and a.root[1] == cur["cursor"] and not a.path


def _is_first(lr, p, cur):
    """Access path p is the first element of the cursor's current slice: `C.split_first()` Some payload .0, or `C.first()` Some payload."""
    if not p.is_call(SLICE_FIRST):
        return False
    want = ["+", "0", "0"] if p.root[2].endswith("split_first") else ["+", "0"]
    return p.npath() == want and _on_cursor(lr, p.call()[2]["args"][0], cur)


def _vec_users(lr, pr):
    """Calls that take the vector at access path pr (a local) as their receiver: (pushes, extends, other callees)."""
    root = pr.root_local()
    pushes, extends, foreign = [], [], []
    for bb, t in lr.live_calls():
        if not t["args"] or t is (pr.call() or [None, None, None])[2]:
            continue
        a0 = access_path(lr, t["args"][0], VP)
        if a0.root_local() != root or a0.path or root is None:
            continue
        c = t.get("callee") or ""
        if re.search(r"vec::Vec::<T, A>::push$", c):
            pushes.append((bb, t))
        elif re.search(r"iter::Extend::extend$", c) and len(t["args"]) == 2:
            extends.append((bb, t))
        elif re.search(r"Deref::deref$|vec::Vec::<T, A>::(len|is_empty|capacity|reserve)$", c):
            pass
        else:
            foreign.append(c)
    return pushes, extends, foreign


def r3_walk_integrity(ctx):
    R = ctx.rule("C01.R3", "per edge kind the walk uses the request segment itself: Literals -> get(children, segment); VariableSingle(name, child) -> variables[name] = String(segment), "
                 "descend to child; VariableRest(name, child) -> variables[name] = Components(current segment followed by every remaining segment), descend to child; after the last "
                 "segment a VariableRest edge binds Components([]); `node` is assigned nowhere else", floor=17)
    lr = _lr(ctx, R)
    roles = _link(ctx, R, lr, ("self", "segments"))
    if roles is None:
        return
    outer, inners, it_local = _segment_nexts(lr, roles.get("segments"))
    cur = None
    if outer is None:
        # no iterator drives the walk: a slice cursor over the same segments may (every step then states how many segments it consumes)
        cur = _slice_cursor(lr)
        if cur is None:
            ctx.lost(R, "the Iterator::next call that drives the walk over input_path_to_segments' result")
            return
        obb, osw, o_some, o_none = cur["guard_bb"], cur["sw"], cur["body"], cur["done"]
    else:
        obb, ot, _ = outer
        oe = _some_edge(lr, ot)
        if oe is None:
            ctx.lost(R, "switch on the walk's next()")
            return
        osw, o_some, o_none = oe

    def is_seg(p):
        """p is the walk's current segment: the item of the driving next(), or the first element of the cursor's slice."""
        return _is_first(lr, p, cur) if cur is not None else _is_segment(lr, p, obb)
    node = _node_local(lr)
    vmap = _variables_local(lr)
    if node is None or vmap is None:
        ctx.lost(R, "the `node` cursor / `variables` map locals (node=%s, variables=%s)" % (node, vmap))
        return
    sws = enum_switches(lr, r"^router::HttpRouterEdges$")
    in_loop = [s for s in sws if lr.edge_dominates(osw, o_some, s[0])]
    after = [s for s in sws if lr.edge_dominates(osw, o_none, s[0])]
    ctx.check(R, "edge-kind-switches", len(in_loop) == 1 and len(after) == 1 and len(sws) == 2,
              "switches on HttpRouterEdges: %d inside the walk loop, %d after it, %d total" % (len(in_loop), len(after), len(sws)), lr)
    if len(in_loop) != 1 or len(after) != 1:
        return
    sbb, info, targets = in_loop[0]
    swp = access_path(lr, info["place"], VP)
    ctx.check(R, "switch-on-node.edges", swp.root_local() == node and swp.path == ["edges", "as Some", "0"], "the loop matches on %r" % swp, (lr, sbb))
    want_kinds = ["Literals", "VariableSingle", "VariableRest"]
    ctx.check(R, "three-edge-kinds", sorted(targets) == sorted(want_kinds), "edge kinds switched on: %s" % sorted(targets), (lr, sbb), nontrivial=False)
    # the local that receives each arm's child (argument of ok_or_else / the value `node` is advanced to)
    inserts = [(bb, t) for bb, t in lr.live_calls(r"BTreeMap::<K, V, A>::insert$") if access_path(lr, t["args"][0], VP).root_local() == vmap]
    gets = [(bb, t) for bb, t in lr.live_calls(r"BTreeMap::<K, V, A>::get$")]

    def arm(kind):
        tgt = targets.get(kind)
        return lambda b: tgt is not None and lr.edge_dominates(sbb, tgt, b)

    # --- Literals
    inarm = arm("Literals")
    lg = [(bb, t) for bb, t in gets if inarm(bb)]
    okl = False
    d = "no BTreeMap::get in the Literals arm"
    child_defs = {}
    if len(lg) == 1:
        bb, t = lg[0]
        pm = access_path(lr, t["args"][0], VP)
        pk = access_path(lr, t["args"][1], SEG_OK + TRYQ)
        okl = pm.root_local() == node and pm.path == ["edges", "as Some", "0", "as Literals", "0"] and is_seg(pk) and \
            not [c for c in pk.call_names() if not re.search(r"ToString::to_string$|Clone::clone$|Deref::deref$|String::as_str$|AsRef::as_ref$|Borrow::borrow$|Try::branch$", c)]
        d = "get(%r, %r)" % (pm, pk)
        child_defs["Literals"] = ("get", bb, t)
    # a binding carried out of the arms as a value (`Option<(name, value)>` in a step record) and inserted once behind the match: every (key, value) the
    # insert can receive is attributed to the arm it was built in (the multi-definition hops of its data flow lie in exactly one arm)
    joined = [(bb, t) for bb, t in inserts if lr.edge_dominates(osw, o_some, bb) and not any(arm(k)(bb) for k in want_kinds)]
    rows, stray_rows = {}, []

    def arm_of(p):
        ks = [k for k in want_kinds if any(arm(k)(hb) for _l, hb in p.hops)]
        return ks[0] if len(ks) == 1 else None
    if len(joined) == 1:
        for what, op in (("key", joined[0][1]["args"][1]), ("val", joined[0][1]["args"][2])):
            for q in sources(lr, op, VP + TRYQ, stop={node}):
                k = arm_of(q)
                if k is None:
                    stray_rows.append("%s %r" % (what, q))
                else:
                    rows.setdefault(k, {"key": [], "val": []})[what].append(q)
        ctx.check(R, "joined-binding-comes-from-the-arms", not stray_rows, "the one insert behind the edge match receives only (name, value) pairs built in the variable arms; anything else: %s" % stray_rows,
                  (lr, joined[0][0]))
    ctx.check(R, "Literals:child-looked-up-by-segment", okl and not [1 for b, t in inserts if inarm(b)] and "Literals" not in rows, d + "; no variable is bound in this arm", (lr, lg[0][0]) if lg else lr)

    # --- variable arms
    def var_arm(kind, want_variant):
        inarm = arm(kind)
        ai = [(bb, t) for bb, t in inserts if inarm(bb)]
        row = rows.get(kind)
        if not ai and row and len(row["key"]) == 1 and len(row["val"]) == 1:
            bb, t = joined[0]
            pk, pv = row["key"][0], row["val"][0]
        elif len(ai) != 1 or row:
            ctx.check(R, "%s:binds-one-variable" % kind, False, "BTreeMap::insert calls on `variables` in the %s arm: %d; (name, value) pairs it hands to an insert behind the match: %s"
                      % (kind, len(ai), row), lr)
            return None
        else:
            bb, t = ai[0]
            pk, pv = access_path(lr, t["args"][1], VP), access_path(lr, t["args"][2], VP)
        okk = pk.root_local() == node and pk.path == ["edges", "as Some", "0", "as " + kind, "0"] and not [c for c in pk.call_names() if not re.search(r"Clone::clone$|" + VIEW, c)]
        ctx.check(R, "%s:key-is-the-edge's-variable-name" % kind, okk, "variables key is %r" % pk, (lr, bb))
        okv = pv.kind() == "agg" and pv.root[2].get("adt") == "router::VariableValue" and pv.root[2].get("variant") == want_variant
        ctx.check(R, "%s:value-kind-is-%s" % (kind, want_variant), okv, "value bound is %s" % (pv.root[2].get("variant") if pv.kind() == "agg" else pv), (lr, bb))
        return (bb, t, pv) if okv else None

    vs = var_arm("VariableSingle", "String")
    if vs:
        bb, t, pv = vs
        ps = access_path(lr, pv.root[2]["ops"][0], SEG_OK + TRYQ)
        ctx.check(R, "VariableSingle:value-is-the-segment", is_seg(ps) and
                  not [c for c in ps.call_names() if not re.search(r"ToString::to_string$|Clone::clone$|ToOwned::to_owned$|Try::branch$", c)],
                  "String(..) payload is %r (want: the walk's current segment through to_string/clone only)" % ps, (lr, bb))
    vr = var_arm("VariableRest", "Components")
    if vr and cur is not None:
        # slice cursor: the list is `C.to_vec()` - the current segment followed by every remaining one, in order (std: a copy of the whole slice) - and nothing else writes to it
        bb, t, pv = vr
        pr = access_path(lr, pv.root[2]["ops"][0], VP)
        whole = pr.is_call(SLICE_TO_VEC) and not pr.path and not pr.calls and _on_cursor(lr, pr.call()[2]["args"][0], cur)
        pushes, extends, foreign = _vec_users(lr, pr) if whole else ([], [], [])
        ctx.check(R, "VariableRest:seeded-with-current-segment", whole and not foreign,
                  "the wildcard's vector is %r of the walk's cursor (starts at the current segment): %s; foreign writers/callees: %s" % (pr, whole, foreign), (lr, bb))
        ctx.check(R, "VariableRest:every-remaining-segment-pushed-in-order", whole and not pushes and not extends and not foreign,
                  "the vector is a copy of the whole remaining slice and nothing is appended to it: %s" % (whole and not pushes and not extends), (lr, bb))
    elif vr:
        bb, t, pv = vr
        pr, seeds, pushes, extends, foreign, chains = _vec_contributions(lr, pv.root[2]["ops"][0])
        ctx.check(R, "VariableRest:seeded-with-current-segment", seeds == [obb] and not foreign,
                  "the wildcard's vector is built from next() site(s) %s (want exactly the walk's current segment); foreign writers/callees: %s" % (len(seeds), foreign), (lr, bb))
        # the rest of the list: (a) a loop `while let Some(s) = it.next() { rest.push(s) }` that runs until the walk's iterator is exhausted, or
        # (b) `rest.extend(it.by_ref())`, which appends every remaining item in order (std Extend for Vec) - `it` being the walk's own iterator, or
        # (c) the whole list built as `once(segment).chain(it.by_ref() | it).collect()`: the seed, then every remaining item of `it` in order
        okp = len(pushes) >= 1
        dd = []
        exhaust = False
        for pbb, pt in pushes:
            pa = access_path(lr, pt["args"][1], VP)
            inner_ok = pa.is_call(r"iter::Iterator::next$") and pa.path == ["as Some", "0"] and not pa.calls and \
                any(pa.call()[1] == ib for ib, _, _ in inners)
            dd.append("push(%r)" % pa)
            okp = okp and inner_ok
            if inner_ok:
                ie = _some_edge(lr, pa.call()[2])
                if ie and lr.edge_dominates(ie[0], ie[1], pbb) and lr.edge_dominates(ie[0], ie[2], bb) and obb not in lr.reachable(ie[1], avoid=[pa.call()[1]]):
                    exhaust = True
        oke = False
        if len(extends) == 1 and not pushes:
            ebb, et = extends[0]
            same_it = _iterator_local(lr, et["args"][1], roles.get("segments")) == it_local and it_local is not None
            oke = same_it and lr.dominates(ebb, bb) and obb not in lr.reachable(ebb, avoid=[bb])
            dd.append("extend(<the walk's iterator>: %s)" % same_it)
        okch = False
        if len(chains) == 1 and not pushes and not extends:
            cbb, cop = chains[0]
            same_it = _iterator_local(lr, cop, roles.get("segments")) == it_local and it_local is not None
            okch = same_it and lr.dominates(cbb, bb) and obb not in lr.reachable(cbb, avoid=[bb])
            dd.append("once(seed).chain(<the walk's iterator>: %s).collect()" % same_it)
        ctx.check(R, "VariableRest:every-remaining-segment-pushed-in-order", (okp and exhaust and not extends and not chains) or (oke and not chains) or okch,
                  "appended after the seed: %s; from the same iterator as the walk; the binding happens only after that iterator was exhausted: %s" % (dd, exhaust or oke or okch), (lr, bb))
    if cur is not None:
        # --- each step consumes exactly the segments it uses: one for a literal / single-variable edge, all of them for a wildcard
        C = cur["cursor"]
        nrows, nstray = {}, []
        for dbb, n_op, ibb in cur["advances"]:
            for q in sources(lr, n_op, VP + TRYQ, stop={node, C}):
                k = arm_of(q)
                if k is None:
                    nstray.append(repr(q))
                else:
                    nrows.setdefault(k, []).append(q)
        for kind in want_kinds:
            qs = nrows.get(kind, [])
            if kind == "VariableRest":
                okn = len(qs) == 1 and qs[0].is_call(SLICE_LEN) and not qs[0].path and not qs[0].calls and _on_cursor(lr, qs[0].call()[2]["args"][0], cur)
                wantd = "the length of the remaining slice"
            else:
                okn = len(qs) == 1 and qs[0].kind() == "const" and (qs[0].root[2].get("val") or {}).get("int") == 1 and not qs[0].path
                wantd = "1"
            ctx.check(R, "%s:step-consumes-what-it-uses" % kind, okn and not nstray, "after this edge the cursor skips %s segment(s) (want: %s); counts from no arm: %s"
                      % ([(q.root[2].get("val") or {}).get("int", "?") if q.kind() == "const" else repr(q) for q in qs] or "no", wantd, nstray), lr)
        adv_bbs = [dbb for dbb, _n, _i in cur["advances"]]
        uses = [bb for bb, t in lr.live_calls(SLICE_FIRST + "|" + SLICE_TO_VEC + "|" + SLICE_LEN + r"|ops::Index::index$") if t["args"] and _on_cursor(lr, t["args"][0], cur)]
        borrowed = [bb for bb, i, st in lr.stmts() if st["rv"]["rv"] in ("ref", "rawptr") and st["rv"].get("mut") and st["rv"]["pl"]["l"] == C]
        okc = not cur["other"] and not borrowed and not lr.edge_dominates(osw, o_some, cur["init"][0]) and lr.dominates(cur["init"][0], obb) and \
            all(lr.edge_dominates(osw, o_some, b) for b in adv_bbs) and osw not in lr.reachable(o_some, avoid=adv_bbs) and \
            not any(u in lr.reachable(a, avoid=[obb]) for a in adv_bbs for u in uses)
        ctx.check(R, "slice-cursor-integrity", okc, "the cursor starts as input_path_to_segments' whole result, is only ever assigned `&cursor[n..]` (other values: %s; &mut borrows: %d), once at the end "
                  "of every step that goes round the loop, and the step reads it before that: %s" % (cur["other"], len(borrowed), okc), (lr, obb))
    # --- the value `node` advances to: every definition of the cursor, with every value it may receive (a `let next = match ..` result,
    # an Option unwrapped by `ok_or_else(..)?`, by a match or by let-else are all followed to the arm values)
    thru = VP + TRYQ + [r"Option::<T>::ok_or_else$", r"Option::<T>::ok_or$"]
    cats = {"root": 0, "loop": 0, "trailing": 0, "other": []}
    trailing_bbs = []
    arm_children = {}
    stray = []
    for bb, k, n in lr.defs().get(node, []):
        if k != "assign" or n["pl"]["p"]:
            cats["other"].append("bb-def:%s" % k)
            continue
        rv = n["rv"]
        srcs = sources(lr, rv.get("op") or rv.get("pl"), thru, stop={node})
        if len(srcs) == 1 and srcs[0].kind() == "param" and srcs[0].root[1] == 1 and srcs[0].path == ["root"]:
            cats["root"] += 1
        elif lr.edge_dominates(osw, o_some, bb):
            cats["loop"] += 1
            for p in srcs:
                kind = None
                if p.is_call(r"BTreeMap::<K, V, A>::get$") and p.npath() == ["+", "0"] and child_defs.get("Literals") and p.call()[2] is child_defs["Literals"][2]:
                    kind = "Literals"
                elif p.root_local() == node and p.kind() == "local" and len(p.path) == 5 and p.npath()[:3] == ["edges", "+", "0"] and p.path[4] == "1" and \
                        p.path[3] in ("as VariableSingle", "as VariableRest") and not [c for c in p.call_names() if not re.search(r"Try::branch$|ok_or_else$|ok_or$|" + VIEW, c)]:
                    kind = p.path[3][3:]
                if kind is None:
                    stray.append(repr(p))
                else:
                    arm_children.setdefault(kind, []).append(p)
        elif len(srcs) == 1 and srcs[0].root_local() == node and srcs[0].npath() == ["edges", "+", "0", "as VariableRest", "1"] and lr.edge_dominates(osw, o_none, bb):
            cats["trailing"] += 1
            trailing_bbs.append(bb)
        else:
            cats["other"].append(", ".join(repr(p) for p in srcs))
    for kind in ("VariableSingle", "VariableRest"):
        inarm = arm(kind)
        ps = arm_children.get(kind, [])
        # the value is this kind's child and is never routed through another kind's arm: no multi-definition hop on the way lies in a different arm
        # (joins behind the match - `match {..}.ok_or_else(..)?` desugared - are common to all arms; the projection `as <kind>` itself is only valid in its arm)
        others = [arm(k2) for k2 in want_kinds if k2 != kind]
        okc = len(ps) == 1 and not any(o(hb) for _l, hb in ps[0].hops for o in others)
        ctx.check(R, "%s:descends-to-the-edge's-child" % kind, okc, "in this arm the cursor advances to %s" % (ps or "nothing"), lr)
    ctx.check(R, "node-cursor-assignments", cats["root"] == 1 and cats["loop"] >= 1 and cats["trailing"] == 1 and not cats["other"],
              "`node` is assigned: self.root x%d, the matched arm's child x%d, the trailing wildcard's child x%d, anything else: %s"
              % (cats["root"], cats["loop"], cats["trailing"], cats["other"]), lr)
    ctx.check(R, "arm-result-definitions", not stray and sorted(arm_children) == ["Literals", "VariableRest", "VariableSingle"] and all(len(v) == 1 for v in arm_children.values()),
              "inside the walk the cursor can only receive: %s; anything else: %s" % (sorted("%s child" % k for k in arm_children), stray), lr)
    # --- trailing wildcard
    tsbb, tinfo, ttargets = after[0]
    tp = access_path(lr, tinfo["place"], VP)
    tt = ttargets.get("VariableRest")
    ti = [(bb, t) for bb, t in inserts if tt is not None and lr.edge_dominates(tsbb, tt, bb)]
    others_bind = [bb for bb, t in inserts if lr.edge_dominates(osw, o_none, bb) and (bb, t) not in ti]
    okt = False
    d = "no binding on the trailing VariableRest edge"
    if len(ti) == 1 and tp.root_local() == node and tp.path == ["edges", "as Some", "0"]:
        bb, t = ti[0]
        pk = access_path(lr, t["args"][1], VP)
        pv = access_path(lr, t["args"][2], VP)
        if pv.kind() == "agg" and pv.root[2].get("variant") == "Components":
            pr, seeds, pushes, extends, foreign, chains = _vec_contributions(lr, pv.root[2]["ops"][0])
            okt = pk.root_local() == node and pk.path == ["edges", "as Some", "0", "as VariableRest", "0"] and not seeds and not pushes and not extends and not foreign and not chains
            d = "variables[%r] = Components(%r) with %d seeded / %d pushed elements" % (pk, pr, len(seeds), len(pushes))
    same_target = ttargets.get("Literals") == ttargets.get("VariableSingle") and ttargets.get("Literals") != tt
    ctx.check(R, "trailing-wildcard-binds-empty-list", okt and not others_bind and same_target,
              d + "; other edge kinds bind nothing after the loop: %s" % (not others_bind and same_target), (lr, tsbb))
    # --- and that step is taken on every way out of the walk: no answer (Ok or Err) is produced between the exhaustion of the
    #     segments and the test of the last node's edges (added after adversary change C01-E: an early `if node.methods.is_empty()
    #     { return Err(404) }` before the step made `/assets` miss `GET /assets/{path:.*}`)
    edge_tests = [sbb for sbb, info, tg in enum_switches(lr, r"^std::option::Option$")
                  if lr.edge_dominates(osw, o_none, sbb) and access_path(lr, info["place"], VP).path == ["edges"] and access_path(lr, info["place"], VP).root_local() == node]
    oks = bool(edge_tests) and lr.must_pass(edge_tests + [tsbb], start=o_none)
    ctx.check(R, "trailing-step-precedes-every-answer", oks,
              "every path from the exhausted walk to a return first tests the last node's edges for a trailing wildcard: %s (%d test site(s))" % (oks, len(edge_tests)), (lr, tsbb))
    # --- the method table is read from the node the walk ended on (after the trailing step)
    mg = [(bb, t) for bb, t in gets if access_path(lr, t["args"][0], VP).path == ["methods"]]
    okm = len(mg) == 1 and access_path(lr, mg[0][1]["args"][0], VP).root_local() == node and lr.edge_dominates(osw, o_none, mg[0][0]) and \
        not any(b in lr.reachable(mg[0][0]) for b in trailing_bbs + [obb, tsbb])
    ctx.check(R, "methods-read-after-walk-completes", okm, "node.methods is consulted once, after the walk loop has exhausted the segments and the trailing-wildcard step ran: %s" % okm,
              (lr, mg[0][0]) if mg else lr)


# --------------------------------------------------------------------------- R4
def _method_key(fn, key_op):
    sl = fn.slice(key_op)
    nonpl = sorted(set(c for c, _ in callee_allow(sl, PLUMBING)))
    return sl, nonpl


def r4_key_normalisation(ctx):
    R = ctx.rule("C01.R4", "insert and lookup_route key the per-node method table with the same normalisation of Method::as_str (to_uppercase on both sides)", floor=3)
    lr = _lr(ctx, R)
    if _link(ctx, R, lr, ("method",)) is None:
        return
    ins = _ins(ctx, R)
    # lookup side: get(node.methods, key)
    lk = [(bb, t) for bb, t in lr.live_calls(r"BTreeMap::<K, V, A>::get$") if access_path(lr, t["args"][0], VP).path == ["methods"]]
    ik = [(bb, t) for bb, t in ins.live_calls(r"BTreeMap::<K, V, A>::(entry|get_mut|get|insert)$") if access_path(ins, t["args"][0], VP).path == ["methods"]]
    if len(lk) != 1 or len(ik) != 1:
        ctx.lost(R, "the method-table accesses (lookup: %d, insert: %d)" % (len(lk), len(ik)))
        return
    ls, lnon = _method_key(lr, lk[0][1]["args"][1])
    is_, inon = _method_key(ins, ik[0][1]["args"][1])
    mp = [i for i in range(1, lr.argc + 1) if "http::Method" in lr.local_ty(i)]
    ctx.check(R, "lookup-key-from-request-method", bool(mp) and ls.params() == mp,
              "lookup key derives from parameter(s) %s through %s" % (ls.params(), lnon), (lr, lk[0][0]))
    ctx.check(R, "insert-key-from-endpoint.method", is_.reads_field("method") and is_.params() == [2],
              "insert key derives from endpoint.method through %s" % inon, (ins, ik[0][0]))
    ctx.check(R, "same-normalisation", lnon == inon,
              "non-plumbing callees on the key: lookup=%s insert=%s" % ([c.split("::")[-1] for c in lnon], [c.split("::")[-1] for c in inon]), (lr, lk[0][0]))


# --------------------------------------------------------------------------- R5
# every use of an ApiEndpointVersions operation inside router.rs, by (outermost enclosing function, operation): reason.
# Closures, inlined private helpers and helper fn items count for the function they are written in.
VERSION_OPS = {
    ("router::find_handler_matching_version", "matches"): "selection predicate of lookup (request dispatch, 405 decision, Allow list)",
    ("router::iter_handlers_from_node", "matches"): "selection predicate of the endpoint iterator (OpenAPI listing)",
    ("router::HttpRouter::<Context>::insert", "overlaps_with"): "registration conflict test (C02.R4)",
    ("router::HttpRouter::<Context>::insert", "eq"): "chooses between the two panic messages inside the overlap branch",
    ("router::HttpRouter::<Context>::insert", "ne"): "has_versioned_routes flag (versions != All)",
}
SELECTING = r"iter::Iterator::(find|filter|rfind)$|iter::DoubleEndedIterator::rfind$"
# an Option-returning closure (Some(element) exactly where the predicate holds) selects when handed to these (std: filter_map keeps the Some payloads in
# order, find_map returns the first Some payload)
OPTION_SELECTING = r"iter::Iterator::(filter_map|find_map)$"
THEN_SOME = r"bool::<impl bool>::then_some$"
SELECT_CHAIN = [r"iter::IntoIterator::into_iter$", r"slice::<impl \[T\]>::iter$", r"iter::Iterator::(find|filter|next|last|rev|by_ref|peekable|fuse)$",
                r"iter::DoubleEndedIterator::(next_back|rfind)$"]


def _enclosing_adaptor_calls(ds, h):
    """Calls (in the enclosing function) that take closure h as an argument: [(fn, bb, term)]."""
    out = []
    par = ds.F.get(h.raw.get("parent"))
    cands = ([par] if par is not None else []) + [g for g in ds.F.values() if h.raw.get("parent") in g.raw.get("inlined", [])]
    for g in cands:
        for bb, t in g.live_calls():
            if any(c is h for c, _n in closure_args_of_call(g, t)):
                out.append((g, bb, t))
    return out


def _matches_site(ctx, f, bb, t):
    """Role analysis of one `versions.matches(version)` call, independent of the iteration idiom.

    element : what is tested - ("param", 2) the item parameter of a closure handed to an iterator adaptor, or
              ("next", next_bb, next_term) the item of an explicit loop
    verdict : how the result decides selection -
              "predicate"  the closure returns matches(..) itself and is handed to find / filter / rfind
              "option"     Some(..the element..) is produced only where matches was true, None only where it was false  (filter_map closure)
              "loop"       `for e in xs { if e.versions.matches(v) { return Some(e) } } None`: Some(e) only where matches(e) was true, None only
                           once the iterator is exhausted, and no element gets past the test
    """
    ds = ctx.ds
    out = {"element": None, "verdict": None, "why": ""}
    p0 = access_path(f, t["args"][0], VP)
    if f.raw["kind"] == "Closure" and p0.kind() == "param" and p0.root[1] == 2 and p0.ends("versions") and not [c for c in p0.call_names() if not c.endswith("Deref::deref")]:
        out["element"] = ("param", 2)
    elif p0.is_call(r"iter::Iterator::next$") and p0.npath() == ["+", "0", "versions"] and not [c for c in p0.call_names() if not c.endswith("Deref::deref")]:
        out["element"] = ("next", p0.call()[1], p0.call()[2])
    else:
        out["why"] = "matches() is applied to %r, which is not `.versions` of the element under iteration" % p0
        return out
    atom = ("call", bb)
    somes = [(b, st) for b, i, st in f.aggregates(r"^std::option::Option$", "Some") if st["pl"]["l"] == 0 and not st["pl"]["p"] and b in f.reachable(0)]
    nones = [(b, st) for b, i, st in f.aggregates(r"^std::option::Option$", "None") if st["pl"]["l"] == 0 and not st["pl"]["p"] and b in f.reachable(0)]
    rets = sources(f, {"l": 0, "p": []}, VP)
    if out["element"][0] == "param":
        if len(rets) == 1 and rets[0].call() and rets[0].call()[2] is t and not rets[0].path:
            users = _enclosing_adaptor_calls(ds, f)
            good = bool(users) and all(re.search(SELECTING, ut.get("callee") or "") for _g, _b, ut in users)
            out["verdict"] = "predicate" if good else None
            out["why"] = "closure returns matches(..) itself and is handed to %s" % sorted(set((ut.get("callee") or "?").split("::")[-1] for _g, _b, ut in users))
            return out
        if len(rets) == 1 and rets[0].is_call(THEN_SOME) and not rets[0].path and len(rets[0].call()[2]["args"]) == 2:
            # `matches(..).then_some(x)` (std: Some(x) if the receiver is true, None otherwise): the receiver is the un-negated result of this very call
            tt = rets[0].call()[2]
            pc = access_path(f, tt["args"][0], [])
            px = access_path(f, tt["args"][1], VP)
            own = pc.call() is not None and pc.call()[2] is t and not pc.path
            carries = 2 in f.slice(tt["args"][1]).params()
            users = _enclosing_adaptor_calls(ds, f)
            good = bool(users) and all(re.search(OPTION_SELECTING, ut.get("callee") or "") for _g, _b, ut in users)
            out["verdict"] = "option" if own and carries and good else None
            out["payload_is_element"] = px.kind() == "param" and px.root[1] == 2 and not px.path and not [c for c in px.call_names() if not c.endswith("Deref::deref")]
            out["why"] = "closure returns <bool>.then_some(x): the bool is matches(..) itself: %s; x carries the element: %s; handed to %s" % (
                own, carries, sorted(set((ut.get("callee") or "?").split("::")[-1] for _g, _b, ut in users)))
            return out
        oks = bool(somes) and all(f.guarded_by(b, atoms_true=[atom])[0] and 2 in f.slice(st["rv"]["ops"][0]).params() for b, st in somes)
        okn = bool(nones) and all(f.guarded_by(b, atoms_false=[atom])[0] for b, st in nones)
        only = all(p.kind() == "agg" and p.root[2].get("adt") == "std::option::Option" for p in rets)
        out["verdict"] = "option" if oks and okn and only else None
        out["payload_is_element"] = bool(somes) and all(
            (lambda q: q.kind() == "param" and q.root[1] == 2 and not q.path and not [c for c in q.call_names() if not c.endswith("Deref::deref")])(access_path(f, st["rv"]["ops"][0], VP))
            for b, st in somes)
        out["why"] = "Some(element) only where matches(..) was true: %s; None only where it was false: %s; nothing else is returned: %s" % (oks, okn, only)
        return out
    _, nbb, nt = out["element"]
    ne = _some_edge(f, nt)
    if ne is None:
        out["why"] = "no branch on the loop's next()"
        return out
    nsw, n_some, n_none = ne
    oks = bool(somes)
    for b, st in somes:
        pe = access_path(f, st["rv"]["ops"][0], VP)
        oks = oks and f.guarded_by(b, atoms_true=[atom])[0] and pe.call() is not None and pe.call()[2] is nt and pe.npath() == ["+", "0"]
    okn = bool(nones) and all(f.edge_dominates(nsw, n_none, b) for b, st in nones)
    only = all(p.kind() == "agg" and p.root[2].get("adt") == "std::option::Option" for p in rets) or \
        all((p.kind() == "agg" and p.root[2].get("adt") == "std::option::Option") or (p.call() and p.call()[2] is nt and p.npath() == ["+", "0"]) for p in rets)
    noskip = nbb not in f.reachable(n_some, avoid=[bb]) and not any(r in f.reachable(n_some, avoid=[bb]) for r in f.returns())
    out["verdict"] = "loop" if oks and okn and only and noskip else None
    out["why"] = ("Some(element) is returned only where matches(element) was true: %s; None only after the iterator is exhausted: %s; nothing else is returned: %s; "
                  "no element gets past the test: %s" % (oks, okn, only, noskip))
    return out


def r5_one_version_predicate(ctx):
    R = ctx.rule("C01.R5", "inside router.rs handlers are selected by version only through ApiEndpointVersions::matches(handler.versions, caller's version); "
                 "find_handler_matching_version returns the element of its argument selected by exactly that predicate (Iterator::find, filter+next, or the equivalent loop)", floor=10)
    seen = {}
    for f in ctx.ds.F.values():
        if not f.id.startswith("router::"):
            continue
        for bb, t in f.live_calls():
            c = t.get("callee") or ""
            res = t.get("resolved") or ""
            op = None
            if c.startswith("api_description::ApiEndpointVersions::"):
                op = c.split("::")[-1]
            elif "ApiEndpointVersions as" in res or (re.search(r"cmp::PartialEq::(eq|ne)$", c) and t["args"] and
                                                      any("ApiEndpointVersions" in f.local_ty(operand_local(a) or 0) for a in t["args"] if operand_local(a) is not None)):
                op = c.split("::")[-1]
            if op:
                seen.setdefault((outermost_fn(ctx.ds, f).id, op), []).append((f, bb, t))
    for key, sites in sorted(seen.items()):
        ctx.check(R, "version-op:%s:%s" % key, key in VERSION_OPS, "%s — %s" % (key, VERSION_OPS.get(key, "NOT in the reviewed table: a second way of relating handlers and versions in the router")),
                  (sites[0][0], sites[0][1]), nontrivial=False)
    for key in VERSION_OPS:
        if key[1] == "matches" and key not in seen:
            ctx.check(R, "version-op:%s:%s" % key, False, "expected use of matches() not found", None)
    # each matches(): receiver = the element under iteration's .versions, argument = the enclosing function's version parameter, and the
    # result decides selection un-negated
    roles = {}
    for key, sites in sorted(seen.items()):
        if key[1] != "matches":
            continue
        ctx.check(R, "one-matches-site:%s" % key[0], len(sites) == 1, "matches() call sites in %s: %d" % (key[0], len(sites)), (sites[0][0], sites[0][1]), nontrivial=False)
        for f, bb, t in sites:
            role = _matches_site(ctx, f, bb, t)
            roles.setdefault(key[0], []).append((f, bb, t, role))
            g, p1 = resolve_path(ctx.ds, f, t["args"][1], VP)
            vp = version_param(g)
            ok1 = p1.kind() == "param" and vp is not None and p1.root[1] == vp and not p1.path and not p1.calls and g.raw["kind"] != "Closure"
            ctx.check(R, "matches-args:%s" % key[0], role["element"] is not None and ok1,
                      "matches(<%s>.versions, %r in %s)%s" % ("element" if role["element"] else "?", p1, g.id, "" if role["element"] else "; " + role["why"]), (f, bb))
            ctx.check(R, "matches-polarity:%s" % key[0], role["verdict"] is not None, "%s [%s]" % (role["why"], role["verdict"] or "NOT a selection by the predicate"), (f, bb))
    # find_handler_matching_version = the element of `handlers` selected by exactly that predicate
    fh = ctx.need_fn(ctx.ds, R, r"^router::find_handler_matching_version$")
    mine = roles.get(fh.id, [])
    okf = False
    d = "no single matches() predicate inside find_handler_matching_version"
    if len(mine) == 1:
        f, bb, t, role = mine[0]
        if role["verdict"] == "loop" and f is fh:
            pit = access_path(fh, role["element"][2]["args"][0], VP + [r"iter::IntoIterator::into_iter$", r"slice::<impl \[T\]>::iter$", r"iter::Iterator::by_ref$"])
            okf = pit.kind() == "param" and pit.root[1] == 1 and not pit.path and not [c for c in pit.call_names() if not re.search(r"into_iter$|::iter$|by_ref$|Deref::deref$", c)]
            d = "explicit loop over %r returning the first element for which matches(..) holds" % pit
        elif role["verdict"] == "predicate" and f is not fh:
            rs = fh.slice({"l": 0, "p": []})
            bad = callee_allow(rs, PLUMBING + SELECT_CHAIN)
            sel, okcl = [], True
            for c, cbb, ct in rs.callees:
                for h, node in closure_args_of_call(fh, ct):
                    if h is f and re.search(SELECTING, c):
                        sel.append(h.id)
                    else:
                        okcl = False
            okf = not bad and okcl and len(sel) >= 1 and 1 in rs.params()
            d = "return value is built from parameter(s) %s through %s; selecting closures: %s; other callees: %s" % (
                rs.params(), sorted(set(c.split("::")[-1] for c in rs.callee_names())), sel, [b[0] for b in bad])
        elif role["verdict"] == "option" and f is not fh:
            # find_map(|h| matches(h).then_some(h)) / filter_map(..).next(): the Some payload must be the element itself
            rs = fh.slice({"l": 0, "p": []})
            bad = callee_allow(rs, PLUMBING + SELECT_CHAIN + [OPTION_SELECTING])
            sel, okcl = [], True
            for c, cbb, ct in rs.callees:
                for h, node in closure_args_of_call(fh, ct):
                    if h is f and re.search(OPTION_SELECTING, c):
                        sel.append(h.id)
                    else:
                        okcl = False
            okf = not bad and okcl and len(sel) >= 1 and 1 in rs.params() and bool(role.get("payload_is_element"))
            d = "return value is built from parameter(s) %s through %s; Option-returning selecting closures: %s (Some payload is the element itself: %s); other callees: %s" % (
                rs.params(), sorted(set(c.split("::")[-1] for c in rs.callee_names())), sel, bool(role.get("payload_is_element")), [b[0] for b in bad])
        else:
            d = "the predicate is used as `%s`, which does not return the selected element of `handlers`" % role["verdict"]
    ctx.check(R, "find-selects-by-the-predicate-only", okf, d, fh)


# --------------------------------------------------------------------------- R6
def r6_order_independence(ctx):
    R = ctx.rule("C01.R6", "children and method tables are keyed maps (one child per literal, one handler list per method); the only insertion-ordered container, the per-method "
                 "Vec<ApiEndpoint>, is appended to by one push that every path reaches only after overlaps_with(existing, new) was false for every existing element "
                 "(with C05.E2: at most one element matches any version, so find()'s answer does not depend on registration order)", floor=9)
    ins = _ins(ctx, R)
    nf = {f["name"]: f["ty"] for f in (ctx.ds.adt_fields("router::HttpRouterNode") or [])}
    keyed = r"^std::collections::(BTreeMap|HashMap)<std::string::String, "
    ctx.check(R, "methods-is-a-map-of-lists", bool(re.match(keyed + r"std::vec::Vec<api_description::ApiEndpoint<", nf.get("methods", ""))),
              "HttpRouterNode.methods: %s" % nf.get("methods", "<missing>")[:110], nontrivial=False)
    lit = ctx.ds.adt_fields("router::HttpRouterEdges", "Literals") or []
    ctx.check(R, "literal-children-is-a-keyed-map", len(lit) == 1 and bool(re.match(keyed + r"std::boxed::Box<router::HttpRouterNode<", lit[0]["ty"])),
              "HttpRouterEdges::Literals.0: %s" % (lit[0]["ty"][:110] if lit else "<missing>"), nontrivial=False)
    for key, ok, detail, site in conflict_loop(ctx.ds, ins, which=("one-append", "vector-is-node.methods[METHOD]", "appended-value-is-the-new-endpoint", "every-element-tested",
                                                                  "overlap-true-diverges", "append-after-loop-exit", "vector-untouched-before-append")):
        ctx.check(R, key, ok, detail, site)
    ctx.assume("C05.E2 (rules/c05.py): overlaps_with(a, b) is true iff some version belongs to both ranges; C05.E1: matches is exact membership")


# --------------------------------------------------------------------------- R7
FLAG = "has_versioned_routes"


def _is_field_place(pl, name):
    fs = [e for e in pl["p"] if isinstance(e, dict) and "f" in e]
    return bool(fs) and fs[-1].get("n") == name and pl["p"] and pl["p"][-1] is fs[-1]


def _versioned_edges(ins):
    """Edges of insert taken exactly when the new endpoint's versions are not `All`:
    (edges, description, blocks of the deciding switches) from a ==/!= comparison with All or from a match on endpoint.versions."""
    edges, sws, how = [], [], []
    for bb, t in ins.live_calls(r"cmp::PartialEq::(eq|ne)$"):
        pa, pb = access_path(ins, t["args"][0], VP), access_path(ins, t["args"][1], VP)
        for x, y in ((pa, pb), (pb, pa)):
            if x.kind() == "param" and x.root[1] == 2 and x.path == ["versions"] and y.kind() == "agg" and \
                    y.root[2].get("adt") == "api_description::ApiEndpointVersions" and y.root[2].get("variant") == "All":
                sw = bool_switch_of_call(ins, bb, t)
                if sw:
                    sbb, tb, fb = sw
                    edges.append((sbb, tb if t["callee"].endswith("::ne") else fb))
                    sws.append(sbb)
                    how.append("endpoint.versions %s All" % ("!=" if t["callee"].endswith("::ne") else "=="))
                break
    for sbb, info, tg in enum_switches(ins, r"^api_description::ApiEndpointVersions$"):
        p = access_path(ins, info["place"], VP)
        if p.kind() == "param" and p.root[1] == 2 and p.path == ["versions"] and "All" in tg:
            for v, t in tg.items():
                if v != "All" and t != tg["All"]:
                    edges.append((sbb, t))
            sws.append(sbb)
            how.append("match endpoint.versions")
    return edges, how, sws


def _is_ne_all(ins, p):
    """Path p is the result of `endpoint.versions != ApiEndpointVersions::All`."""
    if not (p.is_call(r"cmp::PartialEq::ne$") and not p.path):
        return False
    t = p.call()[2]
    x, y = access_path(ins, t["args"][0], VP), access_path(ins, t["args"][1], VP)
    return any(q.kind() == "param" and q.root[1] == 2 and q.path == ["versions"] for q in (x, y)) and \
        any(q.kind() == "agg" and q.root[2].get("variant") == "All" for q in (x, y))


def _store_is_sticky_or(ins, op, vedges):
    """The stored value is `old_flag || versioned`, written with short-circuit control flow (`a = a || b`, `if !a { a = b }` ..):
    every value it can receive is (i) the constant true, (ii) the != All test, computed only where the old flag was found false, or
    (iii) the old flag, kept only where the endpoint was found unversioned."""
    srcs = sources(ins, op, [])
    if len(srcs) < 2:
        return False
    flag_false_edges = []
    for sbb, st in ins.switches():
        d = st["discr"]
        if d.get("k") in ("copy", "move"):
            q = access_path(ins, d, [])
            if q.kind() == "param" and q.root[1] == 1 and q.path == [FLAG] and not q.calls:
                tb, fb = ins.bool_edges(sbb)
                if fb is not None:
                    flag_false_edges.append((sbb, fb))
    for p in srcs:
        hops = [hb for _l, hb in p.hops]
        if p.kind() == "const" and (p.root[2].get("val") or {}).get("int") == 1:
            continue
        # (the value reaches the store only through the definitions in `hops`: one of them being guarded is enough)
        if _is_ne_all(ins, p) and any(ins.edge_dominates(sbb, fb, hb) for sbb, fb in flag_false_edges for hb in hops):
            continue
        if p.kind() == "param" and p.root[1] == 1 and p.path == [FLAG] and not p.calls and vedges and \
                any(all(hb not in ins.reachable(dst) for _src, dst in vedges) for hb in hops):
            continue
        return False
    return True


def r7_versioned_routes_need_versioned_server(ctx):
    R = ctx.rule("C01.R7", "a router that holds any endpoint with a version range is never served without a version policy: has_versioned_routes starts false, is only ever set to true, "
                 "is set on every path of insert that registers an endpoint whose versions != All, is what has_versioned_routes() returns, and the one place that builds the server state "
                 "refuses (Err, nothing built) when the policy is Unversioned and that accessor is true (otherwise every range matches version None and the first registered endpoint wins)",
                 floor=8)
    ins = _ins(ctx, R)
    rf = [f["name"] for f in (ctx.ds.adt_fields("router::HttpRouter") or [])]
    if FLAG not in rf:
        ctx.lost(R, "field HttpRouter.%s" % FLAG)
        return
    fidx = rf.index(FLAG)
    # (a) writers
    inits = [(g, bb, st) for g in ctx.ds.F.values() for bb, i, st in g.aggregates(r"^router::HttpRouter$")]
    okinit = bool(inits) and all(st["rv"]["ops"][fidx].get("k") == "const" and (st["rv"]["ops"][fidx].get("val") or {}).get("int") == 0 for g, bb, st in inits)
    ctx.check(R, "flag-starts-false", okinit, "HttpRouter{..} is built in %s with %s = false: %s" % (sorted(set(g.id for g, _, _ in inits)), FLAG, okinit), inits[0][0] if inits else None)
    stores, escapes = [], []
    for g in ctx.ds.F.values():
        for bb, i, st in g.stmts():
            if _is_field_place(st["pl"], FLAG):
                stores.append((g, bb, st))
            rv = st["rv"]
            if rv["rv"] in ("ref", "rawptr") and rv.get("mut") and _is_field_place(rv["pl"], FLAG):
                escapes.append((g, bb))
        for bb, t in g.calls():
            if _is_field_place(t["dest"], FLAG):
                stores.append((g, bb, {"rv": {"rv": "call"}, "pl": t["dest"]}))
    ctx.check(R, "flag-never-borrowed-mutably", not escapes, "&mut borrows of the flag: %s" % [(g.id, b) for g, b in escapes], ins)
    vedges, how, vsws = _versioned_edges(ins)
    sticky_unconditional = []
    guarded = []
    for g, bb, st in stores:
        rv = st["rv"]
        if g is ins and rv["rv"] == "use" and rv["op"].get("k") == "const" and (rv["op"].get("val") or {}).get("int") == 1:
            ctx.check(R, "flag-store:constant-true", True, "insert stores the constant `true`", (g, bb))
            guarded.append(bb)
            continue
        if g is ins and rv["rv"] == "binop" and rv["op"] == "BitOr":
            pa, pb = access_path(ins, rv["a"], []), access_path(ins, rv["b"], [])
            old, new = (pa, pb) if pa.path and pa.path[-1] == FLAG else (pb, pa)
            if old.kind() == "param" and old.root[1] == 1 and old.path == [FLAG] and new.is_call(r"cmp::PartialEq::ne$") and not new.path:
                t = new.call()[2]
                x, y = access_path(ins, t["args"][0], VP), access_path(ins, t["args"][1], VP)
                if any(p.kind() == "param" and p.root[1] == 2 and p.path == ["versions"] for p in (x, y)) and \
                        any(p.kind() == "agg" and p.root[2].get("variant") == "All" for p in (x, y)):
                    ctx.check(R, "flag-store:sticky-or", True, "insert stores flag | (endpoint.versions != All)", (g, bb))
                    sticky_unconditional.append(bb)
                    continue
        if g is ins and rv["rv"] == "use" and rv["op"].get("k") in ("copy", "move") and _store_is_sticky_or(ins, rv["op"], vedges):
            ctx.check(R, "flag-store:sticky-or", True, "insert stores flag || (endpoint.versions != All) (every value the store can receive is `true`, the old flag "
                      "where the endpoint is unversioned, or the != All test where the old flag was false)", (g, bb))
            sticky_unconditional.append(bb)
            continue
        ctx.check(R, "flag-store:%s" % g.id, False, "%s is assigned a value that is not the constant `true` (a computed or `false` value forgets earlier versioned endpoints)" % FLAG, (g, bb))
    if not stores:
        ctx.check(R, "flag-store:constant-true", False, "no store to %s anywhere: versioned routes are never recorded" % FLAG, ins)
    # every registration of a versioned endpoint records it
    rets = ins.returns()
    if sticky_unconditional:
        okp = ins.must_pass(sticky_unconditional)
        d = "the sticky store lies on every path of insert to its return: %s" % okp
    else:
        # (constant flags such as the result of `matches!(..)` are propagated: see const_reach)
        okp = bool(vedges) and bool(guarded) and all(not any(r in const_reach(ins, dst, avoid=guarded) for r in rets) for src, dst in vedges) and ins.must_pass(vsws)
        d = "test `%s` is on every path to return and from its `versioned` edge the store cannot be avoided: %s" % (", ".join(how) or "<none found>", okp)
    ctx.check(R, "versioned-endpoint-always-recorded", okp, d, ins)
    if guarded:
        okg = bool(vedges) and all(b not in const_reach(ins, 0, avoid_edges=vedges) for b in guarded)
        ctx.check(R, "store-only-for-versioned-endpoints", okg, "the store is reachable only through the `versions != All` edge: %s" % okg, (ins, guarded[0]))
    # (b) accessor
    acc = ctx.need_fn(ctx.ds, R, r"^router::HttpRouter::<Context>::has_versioned_routes$")
    pr = access_path(acc, {"l": 0, "p": []}, [])
    ctx.check(R, "accessor-returns-the-flag", pr.kind() == "param" and pr.root[1] == 1 and pr.path == [FLAG] and not pr.calls, "has_versioned_routes() returns %r" % pr, acc)
    # (c) the consumer
    cs = callers(ctx.ds, r"^router::HttpRouter::<Context>::has_versioned_routes$")
    states = [(g, bb, st) for g in ctx.ds.F.values() for bb, i, st in g.aggregates(r"^server::DropshotState$")]
    ctx.check(R, "one-server-state-construction", len(states) == 1, "aggregate sites of DropshotState: %s" % [(g.id) for g, _, _ in states], states[0][0] if states else None)
    if len(cs) != 1 or len(states) != 1 or cs[0][0] is not states[0][0]:
        ctx.check(R, "server-start-consults-the-flag", False, "has_versioned_routes() callers: %s; DropshotState built in: %s" % ([f.id for f, _, _ in cs], [g.id for g, _, _ in states]), None)
        return
    f, cbb, ct = cs[0]
    _g, abb, ast_ = states[0]
    sf = [x["name"] for x in ctx.ds.adt_fields("server::DropshotState")]
    ops = dict(zip(sf, ast_["rv"]["ops"]))
    prt = access_path(f, ct["args"][0], VP)
    prs = access_path(f, ops["router"], VP) if "router" in ops else None
    same_router = prs is not None and prt.kind() == "call" and prs.kind() == "call" and prt.call()[2] is prs.call()[2] and not prt.path and not prs.path
    into = prt.is_call(r"^api_description::ApiDescription::<Context>::into_router$")
    okir = False
    if into:
        ir = ctx.ds.one(r"^api_description::ApiDescription::<Context>::into_router$")
        if ir is not None:
            q = access_path(ir, {"l": 0, "p": []}, [])
            okir = q.kind() == "param" and q.root[1] == 1 and q.path == ["router"]
    ctx.check(R, "flag-read-from-the-router-that-is-served", same_router and into and okir,
              "has_versioned_routes(%r); DropshotState.router = %r; into_router returns self.router: %s" % (prt, prs, okir), (f, cbb))
    sw = bool_switch_of_call(f, cbb, ct)
    ppol = access_path(f, ops["version_policy"], VP) if "version_policy" in ops else None
    psw = [s for s in enum_switches(f, r"^versioning::VersionPolicy$")
           if ppol is not None and access_path(f, s[1]["place"], VP).root == ppol.root and access_path(f, s[1]["place"], VP).path == ppol.path]
    if sw is None or len(psw) != 1:
        ctx.check(R, "unversioned-policy-with-versioned-routes-refused", False, "branch on has_versioned_routes(): %s; switches on the served version policy: %d" % (sw is not None, len(psw)), (f, cbb))
        return
    sbb, tb, fb = sw
    pbb, pinfo, ptg = psw[0]
    unv = ptg.get("Unversioned")
    distinct = unv is not None and all(ptg[o] != unv for o in ptg if o != "Unversioned")
    A, B = (pbb, unv), (sbb, tb)         # the edges `policy is Unversioned` and `has_versioned_routes() is true`

    def nested(X, Y, y_site):
        """Y is tested on X's edge: the state is built only after X was decided, on X's edge only once Y was consulted, never on Y's edge (which answers Err)."""
        return f.dominates(X[0], abb) and abb not in const_reach(f, X[1], avoid=[y_site]) and abb not in const_reach(f, Y[1]) and edge_rejects(f, Y[0], Y[1])
    order = "policy, then flag" if distinct and nested(A, B, cbb) else ("flag, then policy" if distinct and nested(B, A, pbb) else None)
    ctx.check(R, "unversioned-policy-with-versioned-routes-refused", order is not None,
              "policy Unversioned and has_versioned_routes() true -> Err and no server state is built, on every path (tests nested as: %s)" % (order or "NOT established"), (f, sbb))


def r6e2_overlap_table(ctx):
    from . import c05
    c05.e2_overlaps(Renamed(ctx, "C01.R6E2", "premise of R6's uniqueness argument: two ranges accepted on one node and method never share a version, because overlaps_with is exact on all order types"))


def r8_one_edge_kind_per_node(ctx):
    """`exactly that endpoint`: the trie the walk relies on has one kind of outgoing edge per node and one variable name per edge, because
    registration refuses every other combination.  This is C02.R2, re-evaluated here (adversary change C01-H merged the
    VariableSingle / VariableRest arms of the single-variable case, so a `{path}` route landed in a `{path:.*}` node)."""
    from . import c02
    c02.r2_conflict_table(Renamed(ctx, "C01.R8", "a node is reached through one kind of edge only: registering a literal, a single variable or a wildcard where another kind (or another variable name) exists is refused"))


def r9_registered_routes_survive_the_builders(ctx):
    """Added after adversary change C01-K (`tag_config(self, cfg)` became a forwarder to a new constructor: it dropped `self` and returned
    an empty description, so endpoints registered before the call answered 404): the router a description has registered into is the one
    its by-value methods hand on -- a builder returns its receiver, into_router() returns the receiver's router."""
    from .lib_c01 import access_path, VALUE_PRESERVING
    R = ctx.rule("C01.R9", "every method of ApiDescription that takes the description by value hands its router on: builders return the receiver itself, into_router() returns self.router", floor=2)
    ds = ctx.ds
    n = 0
    for k, f in sorted(ds.F.items()):
        if not re.match(r"^api_description::ApiDescription::<\w+>::\w+$", k) or f.argc < 1:
            continue
        t0, t1 = f.local_ty(0) or "", f.local_ty(1) or ""
        if not re.match(r"^api_description::ApiDescription<", t1):
            continue        # takes a reference (or is a constructor): cannot lose the router
        n += 1
        p = access_path(f, {"k": "move", "pl": {"l": 0, "p": []}}, VALUE_PRESERVING)
        if re.match(r"^api_description::ApiDescription<", t0):
            # the returned value, followed back through whole-value moves (assignments to single fields on the way do not replace the
            # value: `let mut this = self; this.tag_config = cfg; this`)
            l, hops = 0, 0
            while hops < 8 and not (1 <= l <= f.argc):
                whole = [(kind, node) for dbb, kind, node in f.defs().get(l, []) if dbb in f.reachable(0) and not f.blocks[dbb]["cleanup"]
                         and not (kind == "assign" and node["pl"]["p"])]
                if len(whole) != 1 or whole[0][0] != "assign" or whole[0][1]["rv"]["rv"] != "use" or whole[0][1]["rv"]["op"].get("k") not in ("move", "copy") \
                        or whole[0][1]["rv"]["op"]["pl"]["p"]:
                    break
                l = whole[0][1]["rv"]["op"]["pl"]["l"]
                hops += 1
            router_kept = not any(kind == "assign" and node["pl"]["p"] and isinstance(node["pl"]["p"][0], dict) and node["pl"]["p"][0].get("n") == "router"
                                  for ds_ in f.defs().values() for dbb, kind, node in ds_ if dbb in f.reachable(0))
            # `Self { tag_config, ..self }`: a new aggregate whose router is the receiver's
            if l != 1:
                aggs = [st2 for dbb, kind, st2 in f.defs().get(l, []) if kind == "assign" and not st2["pl"]["p"] and st2["rv"]["rv"] == "agg" and st2["rv"].get("adt") == "api_description::ApiDescription"
                        and dbb in f.reachable(0)]
                if len(aggs) == 1 and "router" in (aggs[0]["rv"].get("fields") or []):
                    rp = access_path(f, aggs[0]["rv"]["ops"][aggs[0]["rv"]["fields"].index("router")], VALUE_PRESERVING)
                    if rp.kind() == "param" and rp.root_local() == 1 and rp.path == ["router"]:
                        l = 1
            ok = l == 1 and router_kept
            ctx.check(R, "builder-returns-its-receiver:%s" % k.rsplit("::", 1)[-1], ok, "%s returns %s (must be `self`, with only fields other than `router` assigned)" % (
                k.rsplit("::", 1)[-1], "its receiver" if l == 1 else "a value that is not its receiver (%r)" % p), f)
        elif re.match(r"^router::HttpRouter<", t0):
            ok = p.kind() == "param" and p.root_local() == 1 and p.path == ["router"]
            ctx.check(R, "hands-over-its-own-router:%s" % k.rsplit("::", 1)[-1], ok, "%s returns %r (must be self.router)" % (k.rsplit("::", 1)[-1], p), f)
        else:
            ctx.check(R, "by-value-method-reviewed:%s" % k.rsplit("::", 1)[-1], False, "%s consumes the description and returns %s: not a reviewed shape" % (k, t0[:60]), f)
    ctx.check(R, "by-value-methods", n >= 2, "methods of ApiDescription taking `self` by value: %d" % n, None, nontrivial=False)


def r10_segments_are_decoded_once_and_only_decoded(ctx):
    """`each path variable the handler receives equals the corresponding request path segment`, `a matching request is handled by exactly
    that endpoint`: the segments the trie walk compares and binds are the request's own, percent-decoded once and not otherwise rewritten.
    This is C03.R1, re-evaluated here (adversary change C01-N: `segment.replace('+', "%20")` before decoding turned `/tags/c++` into
    `c  ` and made a literal template `/lang/c++/info` unreachable)."""
    from . import c03
    from .lib_c01 import Renamed
    c03.r1_decode_once(Renamed(ctx, "C01.R10", "the request path segments fed to the trie walk are the client's segments, percent-decoded exactly once, with no other rewriting"))


RULES = [("C01.R10", r10_segments_are_decoded_once_and_only_decoded), ("C01.R9", r9_registered_routes_survive_the_builders), ("C01.R8", r8_one_edge_kind_per_node), ("C01.R1", r1_request_wiring), ("C01.R2", r2_one_endpoint), ("C01.R3", r3_walk_integrity), ("C01.R4", r4_key_normalisation),
         ("C01.R5", r5_one_version_predicate), ("C01.R6", r6_order_independence), ("C01.R6E2", r6e2_overlap_table),
         ("C01.R7", r7_versioned_routes_need_versioned_server)]

RT = "dropshot/src/router.rs"
SV = "dropshot/src/server.rs"
REST_LOOP = "                    let mut rest = vec![segment];\n                    while let Some(segment) = all_segments.next() {\n                        rest.push(segment);\n                    }\n"
SELECT_CALL = "find_handler_matching_version(\n            node.methods.get(&methodname).map(|v| v.as_slice()).unwrap_or(&[]),\n            version,\n        ) "

SPLIT_CALL = "self.lookup_segments(method, segments.into_iter(), version)"
HANDLERS_ARG = "node.methods.get(&methodname).map(|v| v.as_slice()).unwrap_or(&[]),"
FIND_SEL = "handlers.into_iter().find(|h| h.versions.matches(version))"

SELFTEST = [
    # ---------------------------------------------------------------- mutants
    {"name": "lookup-key-not-uppercased", "kind": "mutant", "expect": ["C01.R4"],
     "edits": [(RT, "let methodname = method.as_str().to_uppercase();\n        if let Some(handler)", "let methodname = method.as_str().to_string();\n        if let Some(handler)")],
     "why": "lookup keys the method table with the raw method text while insert upper-cases it: a registered extension method spelled in lower case is never found"},
    {"name": "variable-value-lowercased", "kind": "mutant", "expect": ["C01.R3"],
     "edits": [(RT, "VariableValue::String(segment_string),", "VariableValue::String(segment_string.to_lowercase()),")],
     "why": "the handler's path variable no longer equals the request segment"},
    {"name": "answer-max-bytes-none", "kind": "mutant", "expect": ["C01.R2"],
     "edits": [(RT, "request_body_max_bytes: handler.request_body_max_bytes,", "request_body_max_bytes: None,")],
     "why": "the dispatched request is handled with metadata that is not the selected endpoint's"},
    {"name": "answer-operation-id-from-path", "kind": "mutant", "expect": ["C01.R2"],
     "edits": [(RT, "operation_id: handler.operation_id.clone(),", "operation_id: handler.path.clone(),")],
     "why": "the answer names something other than the selected endpoint's operation"},
    {"name": "lookup-with-no-version", "kind": "mutant", "expect": ["C01.R1"],
     "edits": [(SV, "found_version.as_ref(),", "None,")],
     "why": "routing ignores the request's resolved version: any version's handler may answer"},
    {"name": "routed-on-another-path", "kind": "mutant", "expect": ["C01.R1"],
     "edits": [(SV, "uri.path().into(),\n        found_version.as_ref(),", "uri.path().trim_end_matches(\"/index\").into(),\n        found_version.as_ref(),")],
     "why": "the path routed is not the request's path"},
    {"name": "first-existing-handler-not-tested", "kind": "mutant", "expect": ["C01.R6"],
     "edits": [(RT, "for handler in existing_handlers.iter() {", "for handler in existing_handlers.iter().skip(1) {")],
     "why": "an endpoint overlapping the first registered one is accepted: two handlers match one version and the winner depends on registration order"},
    {"name": "push-before-conflict-test", "kind": "mutant", "expect": ["C01.R6"],
     "edits": [(RT, "        for handler in existing_handlers.iter() {\n            if handler.versions.overlaps_with(&endpoint.versions) {\n                if handler.versions == endpoint.versions {",
                "        let n_existing = existing_handlers.len();\n        existing_handlers.push(endpoint);\n        let (old_handlers, new_handlers) = existing_handlers.split_at(n_existing);\n        let endpoint = &new_handlers[0];\n"
                "        for handler in old_handlers.iter() {\n            if handler.versions.overlaps_with(&endpoint.versions) {\n                if handler.versions == endpoint.versions {"),
               (RT, "        existing_handlers.push(endpoint);\n    }", "    }")],
     "why": "the list is extended before the conflict test: a refused (panicking) registration leaves the conflicting endpoint in the table (DESIGN Appendix B: push moved above the overlap loop)"},
    {"name": "pre-fix-F3-overlap", "kind": "mutant", "expect": ["C01.R6E2"], "edits": PRE_FIX_F3_EDITS,
     "why": "the repaired defect F3: From(A) and the one-version range [A,A] both register on one method and path; dispatch at version A then depends on registration order"},
    {"name": "versioned-flag-not-sticky", "kind": "mutant", "expect": ["C01.R7"],
     "edits": [(RT, "        if endpoint.versions != ApiEndpointVersions::All {\n            self.has_versioned_routes = true;\n        }\n",
                "        self.has_versioned_routes =\n            endpoint.versions != ApiEndpointVersions::All;\n")],
     "why": "the flag reflects only the last registered endpoint: an unversioned server starts with two endpoints on disjoint version ranges, routes at version None and the first "
            "registered one wins (adversary change C01-B)"},
    {"name": "versioned-flag-never-set", "kind": "mutant", "expect": ["C01.R7"],
     "edits": [(RT, "            self.has_versioned_routes = true;\n", "")],
     "why": "versioned routes are never recorded, so an unversioned server serves them order-dependently"},
    {"name": "unversioned-server-check-removed", "kind": "mutant", "expect": ["C01.R7"],
     "edits": [(SV, "            if router.has_versioned_routes() {", "            if false {")],
     "why": "a server without a version policy is built over a router with version-constrained endpoints"},
    {"name": "accessor-negated", "kind": "mutant", "expect": ["C01.R7"],
     "edits": [(RT, "    pub fn has_versioned_routes(&self) -> bool {\n        self.has_versioned_routes\n", "    pub fn has_versioned_routes(&self) -> bool {\n        !self.has_versioned_routes\n")],
     "why": "the server-start check sees the opposite of what was recorded"},
    {"name": "wildcard-drops-current-segment", "kind": "mutant", "expect": ["C01.R3"],
     "edits": [(RT, "let mut rest = vec![segment];", "let mut rest: Vec<String> = Vec::new();")],
     "why": "a trailing wildcard variable misses the first of the remaining segments"},
    {"name": "wildcard-remaining-reversed", "kind": "mutant", "expect": ["C01.R3"],
     "edits": [(RT, "                        rest.push(segment);", "                        rest.insert(0, segment);")],
     "why": "a trailing wildcard variable receives the remaining segments in the wrong order"},
    {"name": "trailing-wildcard-unbound", "kind": "mutant", "expect": ["C01.R3"],
     "edits": [(RT, "                variables\n                    .insert(varname.clone(), VariableValue::Components(vec![]));\n", "                let _ = varname;\n")],
     "why": "a wildcard matching zero segments binds no (empty) list"},
    {"name": "selection-ignores-version", "kind": "mutant", "expect": ["C01.R5"],
     "edits": [(RT, "handlers.into_iter().find(|h| h.versions.matches(version))", "handlers.into_iter().find(|h| h.versions.matches(version.and(None)))")],
     "why": "the first registered handler answers whatever the request's version"},
    {"name": "selection-by-position", "kind": "mutant", "expect": ["C01.R5"],
     "edits": [(RT, "handlers.into_iter().find(|h| h.versions.matches(version))", "handlers.into_iter().filter(|h| h.versions.matches(version)).nth(1)")],
     "why": "the matching handler is skipped: the endpoint registered for the version is not the one selected"},
    {"name": "literal-lookup-case-folded", "kind": "mutant", "expect": ["C01.R3"],
     "edits": [(RT, "edges.get(&segment_string)", "edges.get(&segment_string.to_lowercase())")],
     "why": "a request path that differs in case from the template is dispatched to the endpoint (and the exact spelling with upper case is not)"},
    # ---- breaking changes written in the alternative idioms the rules accept (the tolerance must not cost power)
    {"name": "wildcard-extend-reversed", "kind": "mutant", "expect": ["C01.R3"],
     "edits": [(RT, "                    while let Some(segment) = all_segments.next() {\n                        rest.push(segment);\n                    }\n",
                "                    rest.extend(all_segments.by_ref().rev());\n")],
     "why": "the remaining segments are appended with extend(), but in reverse order"},
    {"name": "wildcard-extend-skips-one", "kind": "mutant", "expect": ["C01.R3"],
     "edits": [(RT, "                    while let Some(segment) = all_segments.next() {\n                        rest.push(segment);\n                    }\n",
                "                    rest.extend(all_segments.by_ref().skip(1));\n")],
     "why": "extend() of the walk's iterator behind an adaptor: one of the remaining segments is dropped"},
    {"name": "selection-loop-negated", "kind": "mutant", "expect": ["C01.R5"],
     "edits": [(RT, "handlers.into_iter().find(|h| h.versions.matches(version))",
                "for h in handlers {\n        if !h.versions.matches(version) {\n            return Some(h);\n        }\n    }\n    None")],
     "why": "selection written as a loop that returns the first handler NOT serving the request's version"},
    {"name": "selection-loop-gives-up-early", "kind": "mutant", "expect": ["C01.R5"],
     "edits": [(RT, "handlers.into_iter().find(|h| h.versions.matches(version))",
                "for h in handlers {\n        if h.versions.matches(version) {\n            return Some(h);\n        }\n        break;\n    }\n    None")],
     "why": "selection written as a loop that only ever tests the first registered handler"},
    {"name": "versioned-flag-matches-inverted", "kind": "mutant", "expect": ["C01.R7"],
     "edits": [(RT, "        if endpoint.versions != ApiEndpointVersions::All {\n            self.has_versioned_routes = true;",
                "        if matches!(endpoint.versions, ApiEndpointVersions::All) {\n            self.has_versioned_routes = true;")],
     "why": "the flag is set for unversioned endpoints and not for versioned ones"},
    {"name": "walk-advances-to-wrong-child", "kind": "mutant", "expect": ["C01.R3"],
     "edits": [(RT, "            node = match &node.edges {\n                None => None,", "            let next_node = match &node.edges {\n                None => None,"),
               (RT, '            }\n            .ok_or_else(|| {\n                HttpError::for_not_found(\n                    None,\n                    String::from("no route found (no path in router)"),\n                )\n            })?\n', "            };\n            node = match next_node {\n                Some(_found) => &self.root,\n"
                "                None => {\n                    return Err(HttpError::for_not_found(\n                        None,\n"
                "                        String::from(\"no route found (no path in router)\"),\n                    ))\n                }\n            };\n")],
     "why": "the cursor is advanced by an explicit match, but to the root instead of the matched edge's child"},
    {"name": 'versioned-flag-or-of-negated-flag', "kind": "mutant", "expect": ['C01.R7'],
     "edits": [(RT, '        if endpoint.versions != ApiEndpointVersions::All {\n            self.has_versioned_routes = true;\n        }\n', '        self.has_versioned_routes = !self.has_versioned_routes\n            || endpoint.versions != ApiEndpointVersions::All;\n')],
     "why": 'written as a short-circuit `||`, but of the NEGATED old flag: a second unversioned registration clears what an earlier versioned one recorded'},
    {"name": 'unversioned-check-tests-wrong-policy', "kind": "mutant", "expect": ['C01.R7'],
     "edits": [(SV, '        if let VersionPolicy::Unversioned = version_policy {\n            if router.has_versioned_routes() {\n                return Err(BuildError::UnversionedServerHasVersionedRoutes);\n            }\n        }\n', '        let has_versioned = router.has_versioned_routes();\n        if has_versioned {\n            if let VersionPolicy::Dynamic(_) = version_policy {\n                return Err(BuildError::UnversionedServerHasVersionedRoutes);\n            }\n        }\n')],
     "why": 'the accessor is consulted first, but the refusal is tied to the Dynamic policy instead of Unversioned'},
    # ---- the idioms of benign-C01-R8 (once().chain().collect() for the wildcard list, get(..).and_then(selection)) with a defect inside
    {"name": "wildcard-chain-reversed", "kind": "mutant", "expect": ["C01.R3"],
     "edits": [(RT, REST_LOOP, "                    let rest: Vec<String> = std::iter::once(segment)\n                        .chain(all_segments.by_ref().rev())\n                        .collect();\n")],
     "why": "the wildcard list is collected from once(segment).chain(..), but the remaining segments come reversed"},
    {"name": "wildcard-chain-seed-last", "kind": "mutant", "expect": ["C01.R3"],
     "edits": [(RT, REST_LOOP, "                    let rest: Vec<String> = all_segments\n                        .by_ref()\n                        .chain(std::iter::once(segment))\n                        .collect();\n")],
     "why": "the current segment is chained behind the remaining ones instead of in front"},
    {"name": "wildcard-chain-foreign-seed", "kind": "mutant", "expect": ["C01.R3"],
     "edits": [(RT, REST_LOOP, "                    let rest: Vec<String> = std::iter::once(varname.clone())\n                        .chain(all_segments.by_ref())\n                        .collect();\n")],
     "why": "the list starts with the variable's name instead of the current segment"},
    {"name": "wildcard-chain-extra-element", "kind": "mutant", "expect": ["C01.R3"],
     "edits": [(RT, REST_LOOP, "                    let mut rest: Vec<String> = std::iter::once(segment)\n                        .chain(all_segments.by_ref())\n                        .collect();\n                    rest.push(String::new());\n")],
     "why": "an element that is no request segment is appended to the collected list"},
    {"name": "wildcard-chain-takes-two", "kind": "mutant", "expect": ["C01.R3"],
     "edits": [(RT, REST_LOOP, "                    let rest: Vec<String> = std::iter::once(segment)\n                        .chain(all_segments.by_ref().take(2))\n                        .collect();\n")],
     "why": "only two of the remaining segments are bound; the walk goes on with the others"},
    {"name": "selection-and-then-falls-back", "kind": "mutant", "expect": ["C01.R2"],
     "edits": [(RT, SELECT_CALL, "node\n            .methods\n            .get(&methodname)\n            .and_then(|handlers| find_handler_matching_version(handlers, version))\n"
                "            .or_else(|| node.methods.values().next().and_then(|v| v.first()))\n        ")],
     "why": "when no endpoint is registered for the method and version, some other endpoint of the node answers"},
    {"name": "selection-and-then-other-method", "kind": "mutant", "expect": ["C01.R2"],
     "edits": [(RT, SELECT_CALL, "node\n            .methods\n            .get(&methodname)\n            .or_else(|| node.methods.get(\"GET\"))\n"
                "            .and_then(|handlers| find_handler_matching_version(handlers, version))\n        ")],
     "why": "a request with a method that has no handlers is dispatched to the GET endpoint"},
    {"name": "selection-and-then-no-version", "kind": "mutant", "expect": ["C01.R2"],
     "edits": [(RT, SELECT_CALL, "node\n            .methods\n            .get(&methodname)\n            .and_then(|handlers| find_handler_matching_version(handlers, None))\n        ")],
     "why": "selection written with and_then, but without the request's version"},
    # ---- the idioms of benign-C05-R10 / benign-C03-R10 (then_some selection, conflict loop over the list seen as a slice, edges.as_ref()) with a defect inside
    {"name": "selection-then-some-negated", "kind": "mutant", "expect": ["C01.R5"],
     "edits": [(RT, FIND_SEL, "handlers.into_iter().find_map(|h| (!h.versions.matches(version)).then_some(h))")],
     "why": "selection written as find_map(..then_some), but of the first handler NOT serving the request's version"},
    {"name": "selection-then-some-second-match", "kind": "mutant", "expect": ["C01.R5"],
     "edits": [(RT, FIND_SEL, "handlers.into_iter().filter_map(|h| h.versions.matches(version).then_some(h)).nth(1)")],
     "why": "the Option-returning predicate is right, but the first selected handler is skipped"},
    {"name": "selection-then-some-not-a-selection", "kind": "mutant", "expect": ["C01.R5"],
     "edits": [(RT, FIND_SEL, "handlers.into_iter().map(|h| h.versions.matches(version).then_some(h)).last().flatten()")],
     "why": "then_some(h) handed to map + last: the answer is the last registered handler if it matches, whatever the others do (None although an earlier one matches)"},
    {"name": "conflict-loop-over-slice-skips-first", "kind": "mutant", "expect": ["C01.R6"],
     "edits": [(RT, "for handler in existing_handlers.iter() {", "for handler in existing_handlers.as_slice().iter().skip(1) {")],
     "why": "the conflict test runs over the list seen as a slice, but not over its first element"},
    {"name": "walk-matches-root-edges-as-ref", "kind": "mutant", "expect": ["C01.R3"],
     "edits": [(RT, "            node = match &node.edges {\n                None => None,", "            node = match self.root.edges.as_ref() {\n                None => None,")],
     "why": "edges taken through Option::as_ref, but of the root instead of the node reached: every segment is matched against the first level of the trie"},
    # ---- benign-C03-R12 (lookup_route = normalise, then hand everything to a private lookup_segments) with a defect at the hand-over; caught whether the
    #      engine inlines the helper (the ordinary rules see one body) or not (the _link checks)
    {"name": "split-lookup-drops-version", "kind": "mutant", "expect": ["C01.R2"], "patch": "benign/C03-R12/patch.diff",
     "edits": [(RT, SPLIT_CALL, "self.lookup_segments(method, segments.into_iter(), None)")],
     "why": "the second half of the split lookup never sees the request's version"},
    {"name": "split-lookup-reverses-segments", "kind": "mutant", "expect": ["C01.R3"], "patch": "benign/C03-R12/patch.diff",
     "edits": [(RT, SPLIT_CALL, "self.lookup_segments(method, segments.into_iter().rev(), version)")],
     "why": "the walk receives the request's segments last to first"},
    {"name": "split-lookup-other-method", "kind": "mutant", "expect": ["C01.R4"], "patch": "benign/C03-R12/patch.diff",
     "edits": [(RT, SPLIT_CALL, "self.lookup_segments(&Method::GET, segments.into_iter(), version)")],
     "why": "the method table is keyed with GET whatever the request's method"},
    {"name": "selection-skips-first-handler-of-list", "kind": "mutant", "expect": ["C01.R2"],
     "edits": [(RT, HANDLERS_ARG, "node.methods.get(&methodname).map_or(&[][..], |v| &v[1..]),")],
     "why": "the default list is spelled `&[][..]` (tolerated), but the method's handler list is also indexed: its first endpoint can never be selected"},
    # ---- benign-C01-R9 (walk over a slice cursor, per-edge step record Hop{target, consumed, binding}) with a defect inside
    {"name": "slice-walk-single-consumes-two", "kind": "mutant", "expect": ["C01.R3"], "patch": "benign/C01-R9/patch.diff",
     "edits": [(RT, "                target,\n                consumed: 1,\n", "                target,\n                consumed: 2,\n")],
     "why": "a single-segment variable edge makes the cursor skip the segment after the one it bound"},
    {"name": "slice-walk-wildcard-consumes-one", "kind": "mutant", "expect": ["C01.R3"], "patch": "benign/C01-R9/patch.diff",
     "edits": [(RT, "                    consumed: segments.len(),\n", "                    consumed: 1,\n")],
     "why": "the wildcard binds every remaining segment but the walk goes on with the second of them"},
    {"name": "slice-walk-wildcard-drops-current", "kind": "mutant", "expect": ["C01.R3"], "patch": "benign/C01-R9/patch.diff",
     "edits": [(RT, "VariableValue::Components(segments.to_vec()),", "VariableValue::Components(segments[1..].to_vec()),")],
     "why": "the wildcard's list misses the current segment"},
    {"name": "slice-walk-wildcard-reversed", "kind": "mutant", "expect": ["C01.R3"], "patch": "benign/C01-R9/patch.diff",
     "edits": [(RT, "VariableValue::Components(segments.to_vec()),", "VariableValue::Components(\n                            segments.iter().rev().cloned().collect(),\n                        ),")],
     "why": "the wildcard's list holds the remaining segments last to first"},
    {"name": "slice-walk-single-binds-last", "kind": "mutant", "expect": ["C01.R3"], "patch": "benign/C01-R9/patch.diff",
     "edits": [(RT, "VariableValue::String(first.clone()),", "VariableValue::String(segments.last()?.clone()),")],
     "why": "a single-segment variable receives the last segment of the path instead of the current one"},
    {"name": "slice-walk-cursor-restarts", "kind": "mutant", "expect": ["C01.R3"], "patch": "benign/C01-R9/patch.diff",
     "edits": [(RT, "            unmatched = &unmatched[hop.consumed..];", "            unmatched = &segments[hop.consumed..];")],
     "why": "the cursor is re-derived from the whole path at every step: segments are matched again (or the walk never ends)"},
    {"name": "slice-walk-binding-dropped", "kind": "mutant", "expect": ["C01.R3"], "patch": "benign/C01-R9/patch.diff",
     "edits": [(RT, "                variables.insert(varname, value);", "                let _ = (varname, value);")],
     "why": "the step's (name, value) pair never reaches the variables map"},
    {"name": "slice-walk-literal-by-other-segment", "kind": "mutant", "expect": ["C01.R3"], "patch": "benign/C01-R9/patch.diff",
     "edits": [(RT, "                .get(first)\n", "                .get(segments.last()?)\n")],
     "why": "the literal child is looked up with the last segment of the path instead of the current one"},
    # ---------------------------------------------------------------- benign variants
    {"name": "benign-selection-find-map-then-some", "kind": "benign",
     "edits": [(RT, FIND_SEL, "handlers.into_iter().find_map(|candidate| candidate.versions.matches(version).then_some(candidate))")],
     "why": "behaviour-preserving: find(p) written as find_map(|x| p(x).then_some(x))"},
    {"name": "benign-conflict-loop-in-helper-over-slice", "kind": "benign",
     "edits": [(RT, "        for handler in existing_handlers.iter() {\n            if handler.versions.overlaps_with(&endpoint.versions) {\n                if handler.versions == endpoint.versions {\n                    panic!(\n"
                "                        \"URI path \\\"{}\\\": attempted to create duplicate route \\\n                        for method \\\"{}\\\"\",\n                        path, methodname\n                    );\n"
                "                } else {\n                    panic!(\n                        \"URI path \\\"{}\\\": attempted to register multiple \\\n                        handlers for method \\\"{}\\\" with overlapping version \\\n"
                "                        ranges\",\n                        path, methodname\n                    );\n                }\n            }\n        }\n",
                "        refuse_version_conflict(existing_handlers.as_slice(), &endpoint.versions, &path, &methodname);\n"),
               (RT, "/// Insert a variable into the set after checking for duplicates.",
                "fn refuse_version_conflict<C: ServerContext>(registered: &[ApiEndpoint<C>], new_versions: &ApiEndpointVersions, path: &str, methodname: &str) {\n"
                "    for handler in registered {\n        if !handler.versions.overlaps_with(new_versions) {\n            continue;\n        }\n"
                "        if handler.versions == *new_versions {\n            panic!(\"URI path \\\"{}\\\": attempted to create duplicate route for method \\\"{}\\\"\", path, methodname);\n        }\n"
                "        panic!(\"URI path \\\"{}\\\": attempted to register multiple handlers for method \\\"{}\\\" with overlapping version ranges\", path, methodname);\n    }\n}\n\n"
                "/// Insert a variable into the set after checking for duplicates.")],
     "why": "behaviour-preserving: the conflict loop extracted into a private helper that takes the list as a slice and uses guard clauses"},
    {"name": "benign-default-list-as-full-range-of-empty-array", "kind": "benign",
     "edits": [(RT, HANDLERS_ARG, "node.methods.get(&methodname).map_or(&[][..], Vec::as_slice),")],
     "why": "behaviour-preserving: `.map(|v| v.as_slice()).unwrap_or(&[])` written as `.map_or(&[][..], Vec::as_slice)`"},
    {"name": "benign-edges-as-ref", "kind": "benign",
     "edits": [(RT, "            node = match &node.edges {\n                None => None,", "            node = match node.edges.as_ref() {\n                None => None,")],
     "why": "behaviour-preserving: `&node.edges` matched as `node.edges.as_ref()`"},
    {"name": "benign-extra-statement-in-walk", "kind": "benign",
     "edits": [(RT, "            let segment_string = segment.to_string();\n", "            let segment_string = segment.to_string();\n            let _depth = variables.len();\n")],
     "why": "behaviour-preserving: an unrelated read of the variables map inside the walk loop"},
    {"name": "benign-handler-taken-before-context", "kind": "benign",
     "edits": [(SV, "    let rqctx = RequestContext {", "    let handler = Arc::clone(&lookup_result.handler);\n    let rqctx = RequestContext {"),
               (SV, "    let handler = lookup_result.handler;\n", "")],
     "why": "behaviour-preserving: independent statements reordered, handler cloned instead of moved"},
    {"name": "benign-flag-set-by-match", "kind": "benign",
     "edits": [(RT, "        if endpoint.versions != ApiEndpointVersions::All {\n            self.has_versioned_routes = true;\n        }\n",
                "        match endpoint.versions {\n            ApiEndpointVersions::All => {}\n            _ => self.has_versioned_routes = true,\n        }\n")],
     "why": "behaviour-preserving: the != All test written as a match"},
    {"name": "benign-flag-sticky-or", "kind": "benign",
     "edits": [(RT, "        if endpoint.versions != ApiEndpointVersions::All {\n            self.has_versioned_routes = true;\n        }\n",
                "        self.has_versioned_routes |= endpoint.versions != ApiEndpointVersions::All;\n")],
     "why": "behaviour-preserving: sticky flag written as |="},
    {"name": "benign-flag-negated-equality", "kind": "benign",
     "edits": [(RT, "        if endpoint.versions != ApiEndpointVersions::All {\n            self.has_versioned_routes = true;", "        if !(endpoint.versions == ApiEndpointVersions::All) {\n            self.has_versioned_routes = true;")],
     "why": "behaviour-preserving: a != b written as !(a == b)"},
    {"name": "benign-policy-check-as-match", "kind": "benign",
     "edits": [(SV, "        if let VersionPolicy::Unversioned = version_policy {\n            if router.has_versioned_routes() {\n                return Err(BuildError::UnversionedServerHasVersionedRoutes);\n            }\n        }\n",
                "        match version_policy {\n            VersionPolicy::Unversioned if router.has_versioned_routes() => {\n                return Err(BuildError::UnversionedServerHasVersionedRoutes);\n            }\n            _ => {}\n        }\n")],
     "why": "behaviour-preserving: nested if-let / if written as a match with a guard"},
    {"name": "benign-walk-child-bound-by-match", "kind": "benign",
     "edits": [(RT, "            node = match &node.edges {\n                None => None,", "            let next_node = match &node.edges {\n                None => None,"),
               (RT, '            }\n            .ok_or_else(|| {\n                HttpError::for_not_found(\n                    None,\n                    String::from("no route found (no path in router)"),\n                )\n            })?\n', "            };\n            node = match next_node {\n                Some(found) => found,\n"
                "                None => {\n                    return Err(HttpError::for_not_found(\n                        None,\n"
                "                        String::from(\"no route found (no path in router)\"),\n                    ))\n                }\n            };\n")],
     "why": "behaviour-preserving: `match {..}.ok_or_else(..)?` written as a named Option and an explicit match with early return"},
    {"name": "benign-rest-extended-from-iterator", "kind": "benign",
     "edits": [(RT, "                    while let Some(segment) = all_segments.next() {\n                        rest.push(segment);\n                    }\n",
                "                    rest.extend(all_segments.by_ref());\n")],
     "why": "behaviour-preserving: the drain loop written as Vec::extend over the walk's own iterator"},
    {"name": "benign-selection-as-for-loop", "kind": "benign",
     "edits": [(RT, "handlers.into_iter().find(|h| h.versions.matches(version))",
                "for candidate in handlers {\n        if candidate.versions.matches(version) {\n            return Some(candidate);\n        }\n    }\n    None")],
     "why": "behaviour-preserving: Iterator::find written as a for loop with early return"},
    {"name": "benign-request-version-by-match", "kind": "benign",
     "edits": [(SV, "        server.version_policy.request_version(&request, &request_log)?;",
                "        match server.version_policy.request_version(&request, &request_log) {\n            Ok(v) => v,\n            Err(e) => return Err(HandlerError::from(e)),\n        };")],
     "why": "behaviour-preserving: `?` written as match + From::from + return"},
    {"name": "benign-flag-by-matches-macro", "kind": "benign",
     "edits": [(RT, "        if endpoint.versions != ApiEndpointVersions::All {\n            self.has_versioned_routes = true;",
                "        let is_versioned = !matches!(endpoint.versions, ApiEndpointVersions::All);\n        if is_versioned {\n            self.has_versioned_routes = true;")],
     "why": "behaviour-preserving: != All written as !matches!(.., All) bound to a named flag"},
    {"name": "benign-policy-check-combined-condition", "kind": "benign",
     "edits": [(SV, "        if let VersionPolicy::Unversioned = version_policy {\n            if router.has_versioned_routes() {\n                return Err(BuildError::UnversionedServerHasVersionedRoutes);\n            }\n        }\n",
                "        let unversioned = matches!(version_policy, VersionPolicy::Unversioned);\n        if unversioned && router.has_versioned_routes() {\n            return Err(BuildError::UnversionedServerHasVersionedRoutes);\n        }\n")],
     "why": "behaviour-preserving: nested if-let / if written as a named flag && the accessor"},
    {"name": 'benign-flag-short-circuit-or', "kind": "benign",
     "edits": [(RT, '        if endpoint.versions != ApiEndpointVersions::All {\n            self.has_versioned_routes = true;\n        }\n', '        self.has_versioned_routes = self.has_versioned_routes\n            || endpoint.versions != ApiEndpointVersions::All;\n')],
     "why": 'behaviour-preserving: sticky flag written as `flag = flag || (versions != All)`'},
    {"name": 'benign-policy-check-flag-first', "kind": "benign",
     "edits": [(SV, '        if let VersionPolicy::Unversioned = version_policy {\n            if router.has_versioned_routes() {\n                return Err(BuildError::UnversionedServerHasVersionedRoutes);\n            }\n        }\n', '        let has_versioned = router.has_versioned_routes();\n        if has_versioned {\n            if let VersionPolicy::Unversioned = version_policy {\n                return Err(BuildError::UnversionedServerHasVersionedRoutes);\n            }\n        }\n')],
     "why": 'behaviour-preserving: the two independent tests nested in the other order (accessor first, then the policy)'},
    {"name": 'benign-walk-loop-with-let-else', "kind": "benign",
     "edits": [(RT, '        while let Some(segment) = all_segments.next() {\n            let segment_string = segment.to_string();\n', '        loop {\n            let Some(segment) = all_segments.next() else {\n                break;\n            };\n            let segment_string = segment.to_string();\n')],
     "why": 'behaviour-preserving: `while let Some(s) = it.next()` written as `loop { let Some(s) = it.next() else { break }; .. }`'},
    {"name": "benign-segment-clone", "kind": "benign",
     "edits": [(RT, "let segment_string = segment.to_string();", "let segment_string = segment.clone();")],
     "why": "behaviour-preserving: String::clone instead of to_string"},
    {"name": "benign-inline-method-and-uri", "kind": "benign",
     "edits": [(SV, "        &method,\n        uri.path().into(),", "        request.method(),\n        request.uri().path().into(),")],
     "why": "behaviour-preserving: accessors called in place instead of through the locals"},
    {"name": "benign-if-let-to-match", "kind": "benign",
     "edits": [(RT, "        // The wildcard match consumes the implicit, empty path segment\n        match &node.edges {\n            Some(HttpRouterEdges::VariableRest(varname, new_node)) => {",
                "        if let Some(HttpRouterEdges::VariableRest(varname, new_node)) = &node.edges {\n            {"),
               (RT, "                node = new_node;\n            }\n            _ => {}\n        }", "                node = new_node;\n            }\n        }")],
     "why": "behaviour-preserving: match with a catch-all arm rewritten as if let"},
    {"name": "benign-for-loop-over-rest", "kind": "benign",
     "edits": [(RT, "while let Some(segment) = all_segments.next() {\n                        rest.push(segment);", "for segment in all_segments.by_ref() {\n                        rest.push(segment);")],
     "why": "behaviour-preserving: the remaining segments are drained with a for loop over by_ref()"},
    {"name": "benign-arc-clone-method-syntax", "kind": "benign",
     "edits": [(RT, "handler: Arc::clone(&handler.handler),", "handler: handler.handler.clone(),")],
     "why": "behaviour-preserving: method-call syntax for Arc::clone"},
    {"name": "benign-iterate-by-reference", "kind": "benign",
     "edits": [(RT, "for handler in existing_handlers.iter() {", "for handler in &*existing_handlers {")],
     "why": "behaviour-preserving: IntoIterator for &Vec instead of .iter()"},
    {"name": "benign-predicate-closure-with-local", "kind": "benign",
     "edits": [(RT, "handlers.into_iter().find(|h| h.versions.matches(version))", "handlers.into_iter().find(|h| {\n        let selected = h.versions.matches(version);\n        selected\n    })")],
     "why": "behaviour-preserving: predicate result bound to a local before being returned"},
    {"name": "benign-filter-last", "kind": "benign",
     "edits": [(RT, "handlers.into_iter().find(|h| h.versions.matches(version))", "handlers.into_iter().filter(|h| h.versions.matches(version)).last()")],
     "why": "behaviour-preserving given uniqueness (R6 + C05.E2): at most one element matches, so last match = first match"},
    {"name": "benign-method-key-helper", "kind": "benign",
     "edits": [(RT, "let methodname = method.as_str().to_uppercase();\n        if let Some(handler)", "let methodname = method_key(method);\n        if let Some(handler)"),
               (RT, "let methodname = method.as_str().to_uppercase();\n        let existing_handlers", "let methodname = method_key(&method);\n        let existing_handlers"),
               (RT, "/// Insert a variable into the set after checking for duplicates.", "fn method_key(m: &Method) -> String {\n    m.as_str().to_uppercase()\n}\n\n/// Insert a variable into the set after checking for duplicates.")],
     "why": "behaviour-preserving: the key normalisation extracted into one helper used by both sides"},
    {"name": "benign-rest-once-chain-collect", "kind": "benign",
     "edits": [(RT, REST_LOOP, "                    let rest: Vec<String> = std::iter::once(segment)\n                        .chain(all_segments.by_ref())\n                        .collect();\n")],
     "why": "behaviour-preserving: vec![segment] + push loop written as once(segment).chain(<the walk's iterator>).collect()"},
    {"name": "benign-selection-by-and-then", "kind": "benign",
     "edits": [(RT, SELECT_CALL, "node\n            .methods\n            .get(&methodname)\n            .and_then(|handlers| find_handler_matching_version(handlers, version))\n        ")],
     "why": "behaviour-preserving: `find(get(k).map(as_slice).unwrap_or(&[]), v)` written as `get(k).and_then(|h| find(h, v))` (no list: nothing found, either way)"},
    {"name": "benign-literal-arm-fails-alone", "kind": "benign",
     "edits": [(RT, "                Some(HttpRouterEdges::Literals(edges)) => {\n                    edges.get(&segment_string)\n                }",
                "                Some(HttpRouterEdges::Literals(edges)) => {\n                    Some(edges.get(&segment_string).ok_or_else(|| {\n                        HttpError::for_not_found(\n                            None,\n"
                "                            String::from(\"no route found (no path in router)\"),\n                        )\n                    })?)\n                }")],
     "why": "behaviour-preserving: the literal arm reports its own miss with `?` (same 404) instead of leaving it to the ok_or_else behind the match"},
]
LEVEL_TEXT += " Also (R8 = C02.R2): each trie node has one kind of outgoing edge, which the walk's per-kind arms rely on. Also (R9): every ApiDescription method taking the description by value hands its router on (builders return the receiver, into_router returns self.router). Also (R10 = C03.R1): the segments fed to the walk are the client's, percent-decoded once and not otherwise rewritten."


SELFTEST += [
    {"name": "tag_config-through-a-binding", "kind": "benign", "why": "behaviour-preserving: the builder rebinds self before assigning the field",
     "edits": [("dropshot/src/api_description.rs", "    pub fn tag_config(mut self, tag_config: TagConfig) -> Self {\n        self.tag_config = tag_config;\n        self\n    }",
                "    pub fn tag_config(self, tag_config: TagConfig) -> Self {\n        let mut this = self;\n        this.tag_config = tag_config;\n        this\n    }")]},
    {"name": "tag_config-starts-over", "kind": "mutant", "expect": ["C01.R9"], "why": "the builder returns a fresh description: endpoints registered before the call are gone",
     "edits": [("dropshot/src/api_description.rs", "    pub fn tag_config(mut self, tag_config: TagConfig) -> Self {\n        self.tag_config = tag_config;\n        self\n    }",
                "    pub fn tag_config(self, tag_config: TagConfig) -> Self {\n        ApiDescription { router: HttpRouter::new(), tag_config }\n    }")]},
]
