"""C02 — accepted registrations are unambiguous; conflicts are rejected."""
import re

from . import absint as A
from .lib import PLUMBING, borrow_root, callee_allow, callers, closure_args_of_call, operand_local, result_split, try_edges
from .lib_c02 import compatible, conflict_loop, discr_edge_sets, position_tests, region_states, show_facts
from .lib_c01 import (VALUE_PRESERVING, access_path, always_err_try_edges, bool_switch_of_call, const_reach, dead_ends, edge_is_rejecting,
                      enum_switches, ok_return_blocks, option_edges, outermost_fn, resolve_path, sources, Renamed, PRE_FIX_F3_EDITS)

LEVEL = "other"
TECHNIQUE = ("static analysis: dominance of router.insert by the Ok edges of the three validations' results (on the combinator-normalised MIR), decision tables read off the MIR switches of HttpRouter::insert "
             "(segment kind x existing edge kind), ADT shape facts, exhaustive interpretation of validate_tags over its finite input shapes, set/map comprehension tables and path conditions (metadata variant x name-is-a-path-variable x kind x type-check outcome on every way of accepting a parameter) of the parameter validators, "
             "path facts on the single-alternative length test and value-source census of the subschema scalar check, and (re-evaluated from C05) the exact overlap table")
LEVEL_TEXT = ("Decides on every path of the type-checked MIR of the current tree: (R1) the only caller of HttpRouter::insert is _register, which reaches it only through the Ok edges of the results of "
              "validate_tags, validate_path_parameters, validate_named_parameters (`?`, match, or an and_then chain) applied to the same endpoint, and register propagates its Err; (R2) the 3x3 table "
              "segment kind x existing edge kind = same kind descends / other kinds panic, differently named variable at the same position panics, a repeated variable name panics "
              "(insert_var on one per-call set), segments after a wildcard panic; (R3) a node holds Option<one of Literals(map) | VariableSingle(name, child) | VariableRest(name, child)> "
              "and one handler list per method, so mixed kinds / two names per position are unrepresentable, and edges are only created by insert; (R4) the per-method loop panics iff "
              "overlaps_with(existing, new) is true for some existing element and otherwise appends, and (R4E2) overlaps_with equals 'some version in both' on all order types; "
              "(R5) path-variable set != path-parameter set -> Err, a query name that is a path variable -> Err, Path+Segment -> type_is_scalar?, Path+Wildcard -> type_is_string_enum?, "
              "Query -> type_is_scalar?, each on the parameter's own name and schema; (R5b) type_is_scalar_subschemas answers true only where justified - allOf/anyOf only where the list was found to hold exactly one element, which passed type_is_scalar_common; "
              "oneOf only when every element passed; each only for the exact shape (all other subschema fields None), with dependencies and the type predicate handed on unchanged; "
              "(R6) validate_tags returns exactly the specified verdict for every visible x policy x tag-count x "
              "allow_other_tags x membership shape. Not decided: the global converse (every accepted table is unambiguous and every endpoint reachable) as one theorem over all "
              "registration sequences - the rules check its premises, not the induction; type_is_scalar / type_is_string_enum over all schemas (schemars level) beyond the subschema clause R5b. Also (R5, vpp): validate_path_parameters returns Ok only through the `sets are equal` edge of the comparison of the template's variables with the handler's path parameters. Also (R7 = C01.R7): a router holding any version-restricted endpoint records it stickily and an unversioned server refuses it. Also (R8): the api_description macro fills a missing `allow_other_tags` of its tag_config from Default (false).")
LEVEL_NOTE = ("Trusts rustc MIR construction, the extractor, engine dominators/slices, rules/absint.py, std collections (BTreeMap::entry/get_or_insert, BTreeSet::contains/insert, HashSet equality, "
              "HashMap::contains_key) and panics as refusal. R4E2 re-runs rule C05.E2 of rules/c05.py (exhaustive interpretation of overlaps_with over all weak orders) under this property's id; "
              "it assumes semver::Version's order is total and unbounded below.")
EXPLANATION = ("Rules over the MIR of api_description::ApiDescription::{register, register::_register, validate_tags, validate_path_parameters, validate_named_parameters} and "
               "router::{HttpRouter::insert, insert_var} and type_util::type_is_scalar_subschemas extracted from the current tree: PASS/DOM on the pruned CFG, TABLE extraction from discriminant switches with access-path provenance of "
               "the compared operands, SHAPE facts from the ADT tables, DECIDE by abstract interpretation for validate_tags (all finite input shapes, tag counts 0..3) and for overlaps_with "
               "(all weak orders). The rules are written over roles, not spellings: a validation's result may be split by `?`, match or if-let or be chained with and_then (R1 reads the normalised view in which Option/Result combinators "
               "are the matches they abbreviate), and the three calls may sit in an inlined private helper - feasibility of paths is then decided with the variant of the returned Result propagated; "
               "the per-parameter dispatch of validate_named_parameters is read as path conditions, so nested matches, one flat match on a tuple, or-patterns, and contains_key / get(..).is_some() / match get(..) "
               "are the same table; the overlap test may be a loop or an iter().find/position/any search over the list that is pushed to; "
               "sets and maps of template variables may be built by filter_map + collect or by a loop with insert, with arms merged by or-patterns; validate_tags is interpreted with std's "
               "find/any/all/position/filter summarised (and indexing / get / first of the concrete tag list, Option::map_or, bool::then_some), so a for loop with early return, an Iterator::find and a "
               "position(..) + map_or(Ok(()), |i| Err(.. tags[i])) are the same function to the check, as is a policy table moved into a method of the policy enum (inlined by the engine). "
               "Anchors are roles, not places: the trie walk is the one function that creates edges (HttpRouter::insert, or the private function insert alone hands the root and the endpoint's path to); "
               "whether segments follow a wildcard is a path fact established by a look-ahead next() or by the enumerate() position of the segment against the length of the segment list "
               "(any exact comparison of index + a with len + b); the kind recorded for a path variable is whichever variant of whichever enum the map's construction stores for VarnameSegment / VarnameWildcard; "
               "a set or map may be produced through stages (a shared helper yielding (name, kind) pairs as an iterator or a Vec, a map(|(n, _)| n) projection, collect); the per-parameter "
               "dispatch may be the body of the loop over e.parameters or a closure / inlined function driven by try_for_each, whose verdict is its return value (a type check returned as it is accepts exactly when it answered Ok).")
TRUSTED = ["rustc nightly MIR construction + const evaluation", "mirfacts extractor", "rules/engine.py (incl. the combinator normalisation of ctx.dsn), rules/lib_c01.py, rules/lib_c02.py, rules/absint.py", "std collections semantics", "std Iterator::{find, position, any, all, filter, count} semantics (summarised for the interpretation of validate_tags and for the overlap search)",
           "std Iterator::{enumerate, map, try_for_each} and Vec::{len, index, as_slice} semantics (positions of enumerate count from 0 in iteration order; try_for_each stops at and returns the first Err)",
           "semver::Version PartialOrd (total order)", "type_util::type_is_scalar / type_is_string_enum (schemars-level, unit-tested upstream)"]

VP = VALUE_PRESERVING
SEG_TO_EDGE = {"Literal": "Literals", "VarnameSegment": "VariableSingle", "VarnameWildcard": "VariableRest"}


def _ins(ctx, R):
    return ctx.need_fn(ctx.ds, R, r"^router::HttpRouter::<Context>::insert$")


# --------------------------------------------------------------------------- R1
def r1_validation_before_insert(ctx):
    R = ctx.rule("C02.R1", "HttpRouter::insert has one caller (_register); there it is dominated by the Continue edges of validate_tags(&e)?, validate_path_parameters(&e)? and "
                 "validate_named_parameters(&e)? on the endpoint that is inserted; register returns _register's Err", floor=9)
    # evaluated on the normalised view: `a(..)?; b(..)?` and `a(..).and_then(|()| b(..))?` are the same switches on the results' discriminants there
    ds = ctx.dsn
    ins = ctx.need_fn(ds, R, r"^router::HttpRouter::<Context>::insert$")
    cs = callers(ds, r"^router::HttpRouter::<Context>::insert$")
    ctx.check(R, "single-insert-caller", len(cs) == 1, "HttpRouter::insert is called from %s" % sorted(f.id for f, _, _ in cs), ins)
    if len(cs) != 1:
        return
    reg, ibb, it = cs[0]
    INTO = [r"convert::Into::into$", r"convert::From::from$"]     # `endpoint.into()`: the ApiEndpoint the caller's value converts to
    pe = access_path(reg, it["args"][1], INTO)
    pr = access_path(reg, it["args"][0], VP)
    ctx.check(R, "insert-args", pe.kind() == "param" and not pe.path and pr.kind() == "param" and pr.path == ["router"] and pe.root[1] != pr.root[1],
              "insert(%r, %r)" % (pr, pe), (reg, ibb))
    for v in ("validate_tags", "validate_path_parameters", "validate_named_parameters"):
        vc = reg.live_calls(r"^api_description::ApiDescription::<Context>::%s$" % v)
        allv = callers(ds, r"^api_description::ApiDescription::<Context>::%s$" % v)
        if len(vc) != 1:
            ctx.check(R, "%s-dominates-insert" % v, False, "%s is called %d time(s) in %s: an endpoint reaches the router without this validation" % (v, len(vc), reg.id), (reg, ibb))
            continue
        vbb, vt = vc[0]
        sp = result_split(reg, vt["dest"]["l"])       # `x?`, `x.map_err(..)?`, match, if-let, let-else alike
        # feasible paths only (const_reach): when the three calls sit in an inlined helper, its `?`s hand an Err to the caller's `helper(..)?`,
        # which can then only take the Break edge
        okd = False
        if sp is not None:
            after_err = const_reach(reg, sp["err"])
            okd = ibb not in const_reach(reg, 0, avoid_edges=[(sp["switch_bb"], sp["ok"])]) and ibb not in after_err and \
                not any(b in after_err for b in ok_return_blocks(reg))
        ctx.check(R, "%s-dominates-insert" % v, okd, "`%s(..)`: insert is dominated by the Ok edge of its result and the Err edge returns the error without inserting: %s" % (v, okd), (reg, vbb))
        ps = access_path(reg, vt["args"][0], VP)
        pa = access_path(reg, vt["args"][1], VP + INTO)
        ctx.check(R, "%s-checks-the-inserted-endpoint" % v, pa.kind() == "param" and pa.root[1] == pe.root_local() and not pa.path and ps.kind() == "param" and ps.root[1] == pr.root_local() and not ps.path,
                  "%s(%r, %r); inserted: %r into %r" % (v, ps, pa, pe, pr), (reg, vbb))
    # register -> _register, error propagated
    rc = callers(ds, "^" + re.escape(reg.id) + "$")
    okp = False
    d = "callers of %s: %s" % (reg.id, sorted(f.id for f, _, _ in rc))
    if not rc and reg.raw.get("vis") == "Public" and reg.id.endswith("::register"):
        # the validating function is the public entry point itself (its private part was inlined): its own result is what the
        # caller sees, and the `-dominates-insert` instances above already show that every Err leaves without inserting
        okp = True
        d = "%s is the public registration entry point itself; nothing sits between its result and the caller" % reg.id
    if len(rc) == 1:
        top, cbb, ct = rc[0]
        sp = result_split(top, ct["dest"]["l"])
        if sp is not None:
            oks = ok_return_blocks(top)
            okp = bool(oks) and all(top.edge_dominates(sp["switch_bb"], sp["ok"], b) for b in oks) and not any(b in top.reachable(sp["err"]) for b in oks)
            d = "%s: Ok(()) is returned only on the Ok edge of _register(..)'s result (split by %s): %s" % (top.id, "/".join(sp["via"]), okp)
        # the value that is `?`-ed derives from the _register call through map_err only
        for tbb, tt in (top.live_calls(r"ops::Try::branch$") if not okp else []):
            p = access_path(top, tt["args"][0], VP + [r"Result::<T, E>::map_err$"])
            if p.call() and p.call()[2] is ct and not p.path:
                te = try_edges(top, operand_local(tt["args"][0]))
                if te:
                    oks = ok_return_blocks(top)
                    okp = bool(oks) and all(top.edge_dominates(te["switch_bb"], te["cont"], b) for b in oks) and not any(b in top.reachable(te["brk"]) for b in oks)
                    d = "%s: Ok(()) is returned only on the Continue edge of _register(..).map_err(..)?: %s" % (top.id, okp)
        if not okp:
            # or the result is returned as is: `return _register(..).map_err(..)`
            p = access_path(top, {"l": 0, "p": []}, VP + [r"Result::<T, E>::map_err$"])
            if p.call() and p.call()[2] is ct and not p.path:
                okp = True
                d = "%s returns _register(..).map_err(..) itself" % top.id
    ctx.check(R, "register-propagates-refusal", okp, d, reg)


# --------------------------------------------------------------------------- R2
EDGE_SLOT_WRITE = r"option::Option::<T>::get_or_insert$|option::Option::<T>::get_or_insert_with$|option::Option::<T>::insert$"


def _walk(ctx):
    """The function that walks the trie along the route template and creates the edges, found by role: the one named function
    in which Option::get_or_insert / get_or_insert_with / insert is applied to a node's `edges` slot.  It must be
    HttpRouter::insert itself (helpers small enough are inlined there by the engine) or a private function whose only call
    site is in insert (the whole walk extracted into a helper).  Returns (insert, walk, call term in insert or None) or a
    string saying why the anchor is lost."""
    ins = ctx.ds.one(r"^router::HttpRouter::<Context>::insert$")
    if ins is None:
        return "router::HttpRouter::insert"
    hosts = {}
    for f in ctx.ds.F.values():
        for bb, t in f.live_calls(EDGE_SLOT_WRITE):
            p = access_path(f, t["args"][0], VP)
            if p.path[-1:] == ["edges"] and "HttpRouterEdges" in f.local_ty(operand_local(t["args"][0]) or 0):
                g = outermost_fn(ctx.ds, f)
                hosts[g.id] = g
    if len(hosts) != 1:
        return "the one function creating trie edges (Option::get_or_insert on a node's `edges`): found in %s" % sorted(hosts)
    walk = list(hosts.values())[0]
    if walk is ins:
        return ins, walk, None
    cs = callers(ctx.ds, "^" + re.escape(walk.id) + "$")
    if len(cs) == 1 and cs[0][0] is ins:
        return ins, walk, cs[0][2]
    return "trie edges are created in %s, which is not HttpRouter::insert and is called from %s" % (walk.id, sorted(f.id for f, _, _ in cs))


def _template_iter_nexts(ins):
    """next() calls on the iterator over route_path_to_segments(endpoint.path): (bb, term, path of the iterator, enumerated?)."""
    thru = VP + [r"iter::IntoIterator::into_iter$", r"iter::Iterator::by_ref$", r"iter::Iterator::enumerate$"]
    out = []
    for bb, t in ins.live_calls(r"iter::Iterator::next$"):
        p = access_path(ins, t["args"][0], thru)
        if p.is_call(r"^router::route_path_to_segments$") and not p.path:
            out.append((bb, t, p, any(c.endswith("Iterator::enumerate") for c, _ in p.calls)))
    return out


def r2_conflict_table(ctx):
    R = ctx.rule("C02.R2", "insert: for each template segment kind the existing edge of the same kind is descended into and the two other kinds panic (3x3); a variable edge with a different "
                 "name panics; insert_var panics on a repeated name (one set per registration); a wildcard followed by more segments panics", floor=27)
    w = _walk(ctx)
    if isinstance(w, str):
        ctx.lost(R, w)
        return
    # `ins` below is the function holding the walk: HttpRouter::insert, or the private helper it hands the root and the template to
    insert_fn, ins, walk_call = w
    nexts = _template_iter_nexts(ins)
    if not nexts:
        ctx.lost(R, "next() on the iterator over route_path_to_segments(path)")
        return
    outer = [n for n in nexts if all(ins.dominates(n[0], m[0]) for m in nexts)]
    if len(outer) != 1:
        ctx.lost(R, "the loop-driving next() among %d candidates" % len(nexts))
        return
    obb, ot, op_, enumerated = outer[0]
    # the element under iteration: next()'s Some payload, or its second component when the iterator is enumerate()d (the first is the position)
    elem_path = ["as Some", "0", "1"] if enumerated else ["as Some", "0"]
    oe = option_edges(ins, ot["dest"]["l"])
    if oe is None:
        ctx.lost(R, "switch on the template iterator's next()")
        return
    osw, o_some, o_none = oe
    # the template is the endpoint's own path
    tp = access_path(ins, op_.call()[2]["args"][0], VP)
    if walk_call is not None and tp.kind() == "param" and not tp.path and tp.root[1] <= len(walk_call["args"]):
        tp = access_path(insert_fn, walk_call["args"][tp.root[1] - 1], VP)        # what insert hands to the walk
    ctx.check(R, "template-is-endpoint.path", tp.fn is insert_fn and tp.kind() == "param" and tp.root[1] == 2 and tp.path == ["path"], "segments come from route_path_to_segments(%r)" % tp, (ins, obb))
    segsw = [s for s in enum_switches(ins, r"^router::PathSegment$") if ins.edge_dominates(osw, o_some, s[0])]
    if len(segsw) != 1:
        ctx.lost(R, "the match on PathSegment inside the loop (%d found)" % len(segsw))
        return
    ssb, sinfo, stargets = segsw[0]
    sp = access_path(ins, sinfo["place"], VP)
    okseg = sp.is_call(r"^router::PathSegment::from$") and not sp.path
    if okseg:
        raw = access_path(ins, sp.call()[2]["args"][0], VP)
        okseg = raw.is_call(r"iter::Iterator::next$") and raw.call()[1] == obb and raw.path == elem_path
    ctx.check(R, "segment-kind-of-current-template-segment", okseg and sorted(stargets) == sorted(SEG_TO_EDGE), "match on %r; kinds %s" % (sp, sorted(stargets)), (ins, ssb))
    seg_local = sp.root_local()
    # node cursor = root of the receivers of get_or_insert
    goi = ins.live_calls(EDGE_SLOT_WRITE)
    node_roots = set()
    for bb, t in goi:
        p = access_path(ins, t["args"][0], VP)
        if p.path == ["edges"]:
            node_roots.add(p.root_local())
    node = list(node_roots)[0] if len(node_roots) == 1 else None
    if node is None:
        ctx.lost(R, "the `node` cursor (receivers of Option::get_or_insert on .edges: %s)" % sorted(node_roots))
        return
    # every value the cursor can receive inside the loop (a `node = match ..` result is followed into the arms; arms may also assign the cursor directly)
    loop_values = []
    for bb, k, n in ins.defs().get(node, []):
        if k == "assign" and not n["pl"]["p"] and ins.edge_dominates(osw, o_some, bb):
            for p in sources(ins, n["rv"].get("op") or n["rv"].get("pl"), VP, stop={node}):
                loop_values.append((bb, p))
    vs_calls = ins.live_calls(r"^router::insert_var$")
    set_roots = set()
    for seg, edge in SEG_TO_EDGE.items():
        tgt = stargets.get(seg)
        if tgt is None:
            ctx.lost(R, "arm for PathSegment::%s" % seg)
            continue

        def inarm(b, tgt=tgt):
            return ins.edge_dominates(ssb, tgt, b)
        ag = [(bb, t) for bb, t in goi if inarm(bb)]
        if len(ag) != 1:
            ctx.check(R, "%s:one-edge-slot-access" % seg, False, "get_or_insert calls on node.edges in this arm: %d" % len(ag), ins)
            continue
        gbb, gt = ag[0]
        pn = access_path(ins, gt["args"][0], VP)
        # the edge created when there is none: the value handed to get_or_insert, or what the closure handed to get_or_insert_with returns
        cx, pd = ins, access_path(ins, gt["args"][1], VP)
        made_by = closure_args_of_call(ins, gt)
        if made_by and gt["callee"].endswith("get_or_insert_with"):
            cx = made_by[0][0]
            made = sources(cx, {"l": 0, "p": []}, VP)
            pd = made[0] if len(made) == 1 else pd
        okd = pn.root_local() == node and pn.path == ["edges"] and pd.kind() == "agg" and pd.root[2].get("adt") == "router::HttpRouterEdges" and pd.root[2].get("variant") == edge
        if gt["callee"].endswith("Option::<T>::insert"):
            # `Option::insert` overwrites: it creates the edge "only when none exists" only under a test that the slot is empty
            # (added after adversary change C02-E: get_or_insert -> insert silently replaced the node's existing edges)
            def _on_edges(op):
                q = access_path(ins, op, VP)
                return q.root_local() == node and q.path == ["edges"]
            nones = [("call", b) for b, t2 in ins.live_calls(r"option::Option::<T>::is_none$") if _on_edges(t2["args"][0])]
            somes = [("call", b) for b, t2 in ins.live_calls(r"option::Option::<T>::is_some$") if _on_edges(t2["args"][0])]
            guarded = bool(nones or somes) and ins.guarded_by(gbb, atoms_true=nones, atoms_false=somes)[0]
            if not guarded:
                for sbb2, info2, tg2 in enum_switches(ins, r"^std::option::Option$"):
                    if _on_edges(info2["place"]) and tg2.get("None") is not None and ins.edge_dominates(sbb2, tg2["None"], gbb):
                        guarded = True
            okd = okd and guarded
        ctx.check(R, "%s:creates-%s-only-when-no-edge-exists" % (seg, edge), okd, "get_or_insert(%r, %s)" % (pn, (pd.root[2].get("variant") if pd.kind() == "agg" else pd)), (ins, gbb))
        if pd.kind() == "agg" and edge != "Literals" and len(pd.root[2]["ops"]) == 2:
            g_, pname = resolve_path(ctx.ds, cx, pd.root[2]["ops"][0], VP)
            ctx.check(R, "%s:new-edge-named-after-segment" % seg, g_ is ins and pname.root_local() == seg_local and pname.path == ["as " + seg, "0"], "new edge's variable name is %r" % pname, (ins, gbb))
        esw = [s for s in enum_switches(ins, r"^router::HttpRouterEdges$") if inarm(s[0]) and access_path(ins, s[1]["place"], VP).call() and access_path(ins, s[1]["place"], VP).call()[2] is gt]
        if len(esw) != 1:
            ctx.check(R, "%s:match-on-existing-edge" % seg, False, "switches on the existing edge kind in this arm: %d" % len(esw), (ins, gbb))
            continue
        ebb, einfo, etargets = esw[0]
        for ek in sorted(SEG_TO_EDGE.values()):
            et = etargets.get(ek)
            if ek == edge:
                ok = et is not None and not ins.is_diverging(et) and obb in ins.reachable(et)
                d = "same kind: %s" % ("descends and continues with the next segment" if ok else "does NOT continue")
            else:
                ok = et is not None and ins.is_diverging(et) and et != etargets.get(edge)
                d = "different kind: %s" % ("panics (registration refused)" if ok else "is ACCEPTED - a node would need two kinds of edge")
            ctx.check(R, "cell:%s-on-%s" % (seg, ek), ok, d, (ins, ebb))
        dt = etargets.get(edge)

        def indesc(b, dt=dt):
            return dt is not None and ins.edge_dominates(ebb, dt, b)
        # the child descended into
        cd = [p for nb, p in loop_values if indesc(nb) or any(indesc(hb) for _l, hb in p.hops) or (p.call() is not None and indesc(p.call()[1]))]
        okc = False
        pc = None
        if len(cd) == 1:
            pc = cd[0]
            if edge == "Literals":
                if pc.is_call(r"btree_map::Entry::<'a, K, V, A>::or_insert_with$|btree_map::Entry::<'a, K, V, A>::or_insert$|btree_map::Entry::<'a, K, V, A>::or_default$") and not pc.path:
                    pent = access_path(ins, pc.call()[2]["args"][0], VP)
                    if pent.is_call(r"BTreeMap::<K, V, A>::entry$"):
                        pm = access_path(ins, pent.call()[2]["args"][0], VP)
                        pk = access_path(ins, pent.call()[2]["args"][1], VP)
                        okc = pm.call() and pm.call()[2] is gt and pm.path == ["as Literals", "0"] and pk.root_local() == seg_local and pk.path == ["as Literal", "0"]
                        pc = "entry(%r, %r).or_insert_with(new node)" % (pm, pk)
            else:
                okc = pc.call() and pc.call()[2] is gt and pc.path == ["as " + edge, "1"]
        ctx.check(R, "%s:descends-into-that-edge's-child" % seg, okc, "node advances to %s" % (pc,), (ins, ebb))
        if edge == "Literals":
            continue
        # name agreement
        cmpc = [(bb, t) for bb, t in ins.live_calls(r"cmp::PartialEq::(eq|ne)$") if indesc(bb)]
        okn = False
        d = "no comparison of the new and the existing variable name on the descending branch"
        for bb, t in cmpc:
            pa, pb = access_path(ins, t["args"][0], VP), access_path(ins, t["args"][1], VP)
            new, old = (pa, pb) if pa.root_local() == seg_local else (pb, pa)
            if not (new.root_local() == seg_local and new.path == ["as " + seg, "0"] and old.call() and old.call()[2] is gt and old.path == ["as " + edge, "0"]):
                continue
            sw = bool_switch_of_call(ins, bb, t)
            if not sw:
                continue
            sbb, tb, fb = sw
            differ, same = (tb, fb) if t["callee"].endswith("::ne") else (fb, tb)
            okn = ins.is_diverging(differ) and not ins.is_diverging(same) and obb in ins.reachable(same) and not dead_ends(ins, same, avoid=[obb])
            d = "compare(%r, %r): different names %s, equal names continue: %s" % (new, old, "panic" if ins.is_diverging(differ) else "are ACCEPTED", okn)
        ctx.check(R, "%s:different-variable-name-refused" % seg, okn, d, (ins, ebb))
        # insert_var on every path through the arm
        av = [(bb, t) for bb, t in vs_calls if inarm(bb)]
        okv = False
        d = "insert_var calls in this arm: %d" % len(av)
        if len(av) == 1:
            vbb, vt = av[0]
            pset = access_path(ins, vt["args"][1], VP)
            pnm = access_path(ins, vt["args"][2], VP)
            must = obb not in ins.reachable(tgt, avoid=[vbb])
            okv = must and pnm.root_local() == seg_local and pnm.path == ["as " + seg, "0"] and pset.is_call(r"BTreeSet::<T>::new$")
            if pset.kind() == "call":
                set_roots.add((pset.root[1], pset.call()[1]))
            d = "insert_var(_, %r, %r) lies on every path from the arm to the next segment: %s" % (pset, pnm, must)
        ctx.check(R, "%s:variable-name-recorded-once-per-path" % seg, okv, d, (ins, tgt))
        if seg == "VarnameWildcard":
            # Nothing may follow a wildcard.  Whether segments follow is a fact of the path, established in either idiom:
            #   look-ahead : a further next() on the template iterator is Some / None (match, if-let, is_some(), is_none())
            #   position   : the iterator is enumerate()d and this element's position is compared with the length of the segment list
            #                (`index + 1 < n`, `index + 1 == n`, `index != n - 1`, ...; only comparisons that are exact count)
            # On every path through the arm that goes on (to the creation of the edge, to the next segment, to return) the fact must
            # be "nothing follows", and the paths on which segments follow must end in a panic.
            dim = "segments-follow"
            sfacts, afacts = {}, {}
            for nbb, nt, _p, _e in [n for n in nexts if n[0] != obb and inarm(n[0])]:
                ie = option_edges(ins, nt["dest"]["l"])
                if ie:
                    sfacts.setdefault(ie[0], []).append((dim, {ie[1]: frozenset(["yes"]), ie[2]: frozenset(["no"])}))
                for cbb, ct in ins.live_calls(r"Option::<T>::(is_some|is_none)$"):
                    pa = access_path(ins, ct["args"][0], VP)
                    if pa.call() and pa.call()[2] is nt and not pa.path:
                        afacts[cbb] = (dim, "yes", "no") if ct["callee"].endswith("is_some") else (dim, "no", "yes")
            if enumerated:
                seg_list = op_.call()[2]

                def is_index(q):
                    return q.call() is not None and q.call()[2] is ot and q.path == ["as Some", "0", "0"] and not q.calls

                def is_length(q):
                    if not (q.is_call(r"(vec::Vec::<T, A>|slice::<impl \[T\]>)::len$") and not q.path and not q.calls):
                        return False
                    v = access_path(ins, q.call()[2]["args"][0], VP + [r"vec::Vec::<T, A>::as_slice$"])
                    return v.call() is not None and v.call()[2] is seg_list and not v.path
                for atom, follow_when_true in position_tests(ins, is_index, is_length):
                    if inarm(atom[1]):
                        afacts[atom] = (dim, "yes", "no") if follow_when_true else (dim, "no", "yes")
            okw = False
            d = "no test in the wildcard arm whether further template segments follow (a look-ahead next() on the template iterator, or the element's position against the number of segments)"
            if sfacts or afacts:
                states = region_states(ins, tgt, stops=[gbb, obb] + list(ins.returns()), switch_facts=sfacts, atom_facts=afacts)
                if states is None:
                    d = "path conditions of the wildcard arm: state budget exceeded"
                else:
                    goes_on = [(k, b, f) for k, b, f in states if k != "diverge"]
                    bad = [(k, b, f) for k, b, f in goes_on if f.get(dim) != frozenset(["no"])]
                    refused = [b for k, b, f in states if k == "diverge" and f.get(dim) == frozenset(["yes"])]
                    okw = bool(goes_on) and not bad and bool(refused)
                    d = "segments follow the wildcard -> %s; the edge is created and the walk goes on only where nothing follows: %s (%s idiom)" % (
                        "panic" if refused else "ACCEPTED", not bad, "position" if any(isinstance(a, tuple) for a in afacts) else "look-ahead")
            ctx.check(R, "VarnameWildcard:segments-after-wildcard-refused", okw, d, (ins, tgt))
    # one varnames set per insert call, created before the loop
    oks = len(set_roots) == 1 and all(ins.dominates(b, obb) and b not in ins.reachable(o_some) for _, b in set_roots)
    ctx.check(R, "one-variable-name-set-per-registration", oks, "insert_var receives the set created at %d site(s), before the segment loop: %s" % (len(set_roots), oks), ins)
    # insert_var body
    iv = ctx.need_fn(ctx.ds, R, r"^router::insert_var$")
    okb = False
    d = "no membership test of the name in insert_var"
    for bb, t in iv.live_calls(r"BTreeSet::<T, A>::(contains|insert)$|HashSet::<T, S, A>::(contains|insert)$"):
        sw = bool_switch_of_call(iv, bb, t)
        if not sw:
            continue
        ps, pn = access_path(iv, t["args"][0], VP), access_path(iv, t["args"][1], VP)
        if not (ps.kind() == "param" and ps.root[1] == 2 and pn.kind() == "param" and pn.root[1] == 3 and not ps.path and not pn.path):
            continue
        sbb, tb, fb = sw
        if t["callee"].endswith("::contains"):
            present, absent = tb, fb
            adds = [b for b, t2 in iv.live_calls(r"Set::<T(, S)?, A>::insert$") if access_path(iv, t2["args"][0], VP).root == ps.root and
                    access_path(iv, t2["args"][1], VP).root == pn.root]
            recorded = bool(adds) and not any(r in iv.reachable(absent, avoid=adds) for r in iv.returns())
        else:
            present, absent = fb, tb
            recorded = True
        okb = iv.is_diverging(present) and not iv.is_diverging(absent) and recorded
        d = "%s(varnames, new_varname): already present -> %s; otherwise the name is recorded on every path to return: %s" % (
            t["callee"].split("::")[-1], "panic" if iv.is_diverging(present) else "ACCEPTED", recorded)
    ctx.check(R, "insert_var:repeated-name-refused", okb, d, iv)
    ivc = callers(ctx.ds, r"^router::insert_var$")
    ctx.check(R, "insert_var:called-only-from-insert", len(ivc) == 2 and all(f is ins for f, _, _ in ivc), "insert_var call sites: %s" % [(f.id.split("::")[-1]) for f, _, _ in ivc], iv)       # `ins`: the function holding the walk


# --------------------------------------------------------------------------- R3
def r3_shape(ctx):
    R = ctx.rule("C02.R3", "HttpRouterNode = { methods: map String -> Vec<ApiEndpoint>, edges: Option<HttpRouterEdges> } with HttpRouterEdges = Literals(map String -> Box<Node>) | "
                 "VariableSingle(String, Box<Node>) | VariableRest(String, Box<Node>): one edge kind and one variable name per position by construction; edges are built only in insert", floor=11)
    node = ctx.ds.adts.get("router::HttpRouterNode")
    edges = ctx.ds.adts.get("router::HttpRouterEdges")
    if not node or not edges:
        ctx.lost(R, "ADT tables of HttpRouterNode / HttpRouterEdges")
        return
    nf = {f["name"]: f for f in node["variants"][0]["fields"]}
    ctx.check(R, "node-fields", sorted(nf) == ["edges", "methods"], "HttpRouterNode fields: %s" % sorted(nf), nontrivial=False)
    ctx.check(R, "node.edges-is-Option<HttpRouterEdges>", bool(re.match(r"^std::option::Option<router::HttpRouterEdges<[^,]*>>$", nf.get("edges", {}).get("ty", ""))),
              "edges: %s" % nf.get("edges", {}).get("ty"), nontrivial=False)
    keyed = r"^std::collections::(BTreeMap|HashMap)<std::string::String, "
    ctx.check(R, "node.methods-one-list-per-method", bool(re.match(keyed + r"std::vec::Vec<api_description::ApiEndpoint<", nf.get("methods", {}).get("ty", ""))),
              "methods: %s" % nf.get("methods", {}).get("ty", "")[:100], nontrivial=False)
    names = [v["name"] for v in edges["variants"]]
    ctx.check(R, "edge-kinds", edges["kind"] == "enum" and sorted(names) == sorted(SEG_TO_EDGE.values()), "HttpRouterEdges variants: %s" % names, nontrivial=False)
    box = r"^std::boxed::Box<router::HttpRouterNode<"
    for v in edges["variants"]:
        tys = [f["ty"] for f in v["fields"]]
        if v["name"] == "Literals":
            ok = len(tys) == 1 and bool(re.match(keyed + r"std::boxed::Box<router::HttpRouterNode<", tys[0]))
        else:
            ok = len(tys) == 2 and tys[0] == "std::string::String" and bool(re.match(box, tys[1]))
        ctx.check(R, "edge-shape:%s" % v["name"], ok, "%s(%s)" % (v["name"], ", ".join(t[:70] for t in tys)), nontrivial=False)
    priv = all(f["vis"] != "Public" for f in node["variants"][0]["fields"]) and all(f["vis"] != "Public" for v in edges["variants"] for f in v["fields"])
    ctx.check(R, "trie-fields-not-public", priv, "no field of HttpRouterNode / HttpRouterEdges is public: %s" % priv, nontrivial=False)
    sites = sorted(set(outermost_fn(ctx.ds, f).id for f in ctx.ds.F.values() for _ in f.aggregates(r"^router::HttpRouterEdges$")))    # closures count for the function they are written in
    # "insert" here is the function holding the trie walk of the registration: HttpRouter::insert, or the private function it alone calls
    # for the walk (found by role, see _walk)
    w = _walk(ctx)
    home = [w[1].id] if not isinstance(w, str) else ["router::HttpRouter::<Context>::insert"]
    ctx.check(R, "edges-built-only-in-insert", sites == home, "aggregate sites of HttpRouterEdges: %s%s" % (sites, (" - " + w) if isinstance(w, str) else ""))
    nsites = sorted(set(outermost_fn(ctx.ds, f).id for f in ctx.ds.F.values() for _ in f.aggregates(r"^router::HttpRouterNode$")))
    ctx.check(R, "nodes-built-only-empty", nsites == ["router::HttpRouterNode::<Context>::new"], "aggregate sites of HttpRouterNode: %s" % nsites)
    # nobody assigns .edges directly (only Option::get_or_insert in insert writes it)
    writes = []
    for f in ctx.ds.F.values():
        for bb, i, st in f.stmts():
            if any(isinstance(e, dict) and e.get("n") == "edges" for e in st["pl"]["p"]) and "HttpRouterNode" in " ".join(f.raw["locals"]):
                writes.append(f.id)
        for bb, t in f.calls():
            if t["args"] and (t.get("callee") or "").startswith("std::option::Option::<T>::") and re.search(r"::(insert|replace|take|get_or_insert|get_or_insert_with|as_mut)$", t["callee"]):
                p = access_path(f, t["args"][0], VP)
                if p.path and p.path[-1] == "edges" and "HttpRouterEdges" in f.local_ty(operand_local(t["args"][0]) or 0):
                    writes.append(outermost_fn(ctx.ds, f).id)
    ctx.check(R, "edges-written-only-in-insert", sorted(set(writes)) == home, "functions writing a node's `edges`: %s" % sorted(set(writes)))


# --------------------------------------------------------------------------- R4
def r4_version_conflicts(ctx):
    R = ctx.rule("C02.R4", "the per-method loop of insert panics iff overlaps_with(existing.versions, new.versions) is true for some existing handler of that node and method, "
                 "and otherwise appends the endpoint (no other refusal, no untested element)", floor=9)
    ins = _ins(ctx, R)
    for key, ok, detail, site in conflict_loop(ctx.ds, ins):
        ctx.check(R, key, ok, detail, site)


def r4e2_overlap_table(ctx):
    from . import c05
    c05.e2_overlaps(Renamed(ctx, "C02.R4E2", "neither a shared version is accepted nor a disjoint pair refused: overlaps_with is exact on all order types"))


# --------------------------------------------------------------------------- R5
def _closure_variant_table(h, adt_pattern):
    """For a closure matching on an enum: {variant: ('Some', payload access path) | ('None', None) | ('?', None)} by which
    Option aggregate assigned to the return place is reachable from the variant's edge."""
    sws = enum_switches(h, adt_pattern)
    if len(sws) != 1:
        return None, None
    sbb, info, targets = sws[0]
    somes = [(b, st) for b, i, st in h.aggregates(r"^std::option::Option$", "Some") if st["pl"]["l"] == 0]
    nones = [(b, st) for b, i, st in h.aggregates(r"^std::option::Option$", "None") if st["pl"]["l"] == 0]
    out = {}
    for v, tgt in targets.items():
        r = h.reachable(tgt)
        s = [(b, st) for b, st in somes if b in r]
        n = [(b, st) for b, st in nones if b in r]
        if len(s) == 1 and not n:
            # the payload as seen from this variant's edge: an or-pattern `A(v) | B(v) => Some(v)` binds v once per alternative
            out[v] = ("Some", sources(h, s[0][1]["rv"]["ops"][0], VP, via=tgt))
        elif n and not s:
            out[v] = ("None", None)
        else:
            out[v] = ("?", None)
    return dict(info, targets=targets), out


def Path_prefix(p):
    """The access path one field up (`x.metadata` -> `x`)."""
    from .lib_c01 import Path
    q = Path(p.fn, p.root, p.path[:-1], p.calls)
    return q


FRESH_COLLECTION = r"(HashSet|BTreeSet|BTreeMap|HashMap)::<[^>]*>::(new|with_capacity|default)$|vec::Vec::<T>::(new|with_capacity)$|default::Default::default$"
ITER_VIEW = [r"iter::IntoIterator::into_iter$", r"slice::<impl \[T\]>::iter$", r"vec::Vec::<T, A>::iter$", r"vec::Vec::<T, A>::as_slice$"]


def _projection_of(h):
    """A closure handed to Iterator::map that only selects from its item: "id" (returns the item), k (returns component k of a tuple item), else None."""
    qs = sources(h, {"l": 0, "p": []}, VP)
    ks = set()
    for q in qs:
        if not (q.kind() == "param" and q.root[1] == 2 and len(q.path) <= 1):
            return None
        ks.add(q.path[0] if q.path else "id")
    if len(ks) != 1:
        return None
    k = ks.pop()
    return "id" if k == "id" else (int(k) if k.isdigit() else None)


def _comprehension(fn, coll, adt_pattern):
    """How a set / map / list is filled from an iteration with a match on an enum per element.  The producer is one of

      chain : src.iter().filter_map(|x| match E(x) { A(v) => Some(..v..), B => None })
      loop  : let mut c = Set::new(); for x in src { match E(x) { A(v) => { c.insert(..v..); } B => {} } }     (insert into a set / map, push onto a Vec)

    and what is produced may pass through any number of stages that keep or select, element by element, what was produced:
    `.collect()` into another collection, iteration over an intermediate collection (into_iter / iter), and
    `.map(|(a, _)| a)` - a closure that returns its item or one component of it (_projection_of).  So
    `helper(path).map(|(name, _)| name).collect::<HashSet<_>>()` with `helper` = the chain or the loop over `(name, kind)` pairs is
    the set of names.

    Returns None (not such a collection) or dict(form, ctx = the function or closure holding the match, info = the switch (place of the scrutinee),
    table = {variant: ("Some", [component sources..]) | ("None", None) | ("?", None)}, src = slice of the iterated source, local = the collection's
    local in fn, collected = the collection is the result of a collect(), is_elem = predicate telling whether an access path in ctx is the element
    under iteration).  A map's payload has two components."""
    la = access_path(fn, coll, VP)
    if la.path:
        return None
    cur, proj, collected = la, None, False
    for _ in range(6):
        if cur.is_call(r"iter::Iterator::collect$") and not cur.calls:
            collected = True
        elif cur.is_call(r"iter::Iterator::map$") and not cur.calls:
            cl = closure_args_of_call(fn, cur.call()[2])
            k = _projection_of(cl[0][0]) if len(cl) == 1 else None
            if k is None or (k != "id" and proj is not None):
                return None
            proj = proj if k == "id" else k
        else:
            break
        cur = access_path(fn, cur.call()[2]["args"][0], VP + ITER_VIEW)
        if cur.path:
            return None
    res = _producer(fn, cur, adt_pattern)
    if res is None:
        return None
    if proj is not None:
        res["table"] = {v: ((k, [comps[proj]]) if k == "Some" and proj < len(comps) else (k, None) if k != "Some" else ("?", None)) for v, (k, comps) in res["table"].items()}
    res["local"] = la.root_local()
    res["collected"] = collected or res["form"] == "chain"
    return res


def _tuple_components(g, comps, via, avoid=()):
    """A payload that is a tuple built on the spot is its components."""
    if len(comps) == 1 and len(comps[0]) == 1 and comps[0][0].kind() == "agg" and comps[0][0].root[2].get("agg") == "tuple" and not comps[0][0].path:
        return [sources(g, o, VP, via=via, avoid=avoid) for o in comps[0][0].root[2]["ops"]]
    return comps


def _producer(fn, la, adt_pattern):
    """The chain / loop producer behind access path `la` (see _comprehension)."""
    if la.is_call(r"iter::Iterator::filter_map$") and not [c for c, _ in la.calls if not re.search("|".join(ITER_VIEW), c)]:
        ft = la.call()[2]
        cl = closure_args_of_call(fn, ft)
        if len(cl) != 1:
            return None
        h = cl[0][0]
        sl = fn.slice(ft["args"][0])
        info, tab = _closure_variant_table(h, adt_pattern)
        if tab is None:
            return None
        table = {}
        for v, (k, qs) in tab.items():
            if k == "Some":
                table[v] = ("Some", _tuple_components(h, [qs], info["targets"][v]))
            else:
                table[v] = (k, None)
        return {"form": "chain", "ctx": h, "info": info, "table": table, "src": sl,
                "is_elem": lambda q: q.kind() == "param" and q.root[1] == 2 and not q.calls}
    if not (la.kind() == "call" and re.search(FRESH_COLLECTION, la.root[2]) and not [c for c, _ in la.calls if not re.search("|".join(ITER_VIEW), c)]):
        return None
    c = la.root_local()
    writes, foreign = [], []
    for bb, t in fn.live_calls():
        for idx, a in enumerate(t["args"]):
            l = operand_local(a)
            if l is not None and fn.local_ty(l).startswith("&") and "mut " in fn.local_ty(l)[:16] and borrow_root(fn, a) == c:
                if idx == 0 and re.search(r"(Set|Map)::<[^>]*>::insert$|vec::Vec::<T, A>::push$", t.get("callee") or "") and len(t["args"]) in (2, 3):
                    writes.append((bb, t))
                else:
                    foreign.append(t.get("callee"))
    if foreign or not writes:
        return None
    found = []
    for sbb, info, targets in enum_switches(fn, adt_pattern):
        pin = access_path(fn, info["place"], VP)
        e = pin
        if pin.call() and not pin.is_call(r"iter::Iterator::next$") and pin.call()[2]["args"]:
            e = access_path(fn, pin.call()[2]["args"][0], VP)
        if e.is_call(r"iter::Iterator::next$") and e.npath()[:2] == ["+", "0"]:
            found.append((sbb, dict(info, targets=targets), targets, e.call()[1], e.call()[2]))
    found = [x for x in found if any(wb in fn.reachable(x[0]) for wb, _ in writes)]
    if len(found) != 1:
        return None
    sbb, info, targets, nbb, nt = found[0]
    table = {}
    covered = set()
    wbs = [wb for wb, _ in writes]
    for v, tgt in targets.items():
        r = fn.reachable(tgt, avoid=[nbb])
        ws = [(wb, wt) for wb, wt in writes if wb in r]
        if len(ws) == 1:
            must = nbb not in fn.reachable(tgt, avoid=[ws[0][0]]) and not any(x in fn.reachable(tgt, avoid=[ws[0][0], nbb]) for x in fn.returns())
            covered.add(ws[0][0])
            table[v] = ("Some", _tuple_components(fn, [sources(fn, o, VP, via=tgt, avoid=[nbb]) for o in ws[0][1]["args"][1:]], tgt, [nbb])) if must else ("?", None)
        elif not ws:
            table[v] = ("None", None)
        else:
            table[v] = ("?", None)
    if set(wbs) - covered:
        return None         # a write that is not in any arm of the match (outside the loop, or unconditional)
    return {"form": "loop", "ctx": fn, "info": info, "table": table, "src": fn.slice(nt["args"][0]),
            "is_elem": lambda q: q.call() is not None and q.call()[2] is nt and q.npath()[:2] == ["+", "0"]}


def r5_parameter_rules(ctx):
    R = ctx.rule("C02.R5", "validate_path_parameters: {variables of the path template} != {Path(..) parameters} -> Err, equal -> Ok; validate_named_parameters: Query name that is a path "
                 "variable -> Err; Path+Segment -> type_is_scalar?, Path+Wildcard -> type_is_string_enum?, Query -> type_is_scalar?, each on that parameter's name and schema, on every path", floor=15)
    # ---------------- validate_path_parameters
    vpp = ctx.need_fn(ctx.ds, R, r"^api_description::ApiDescription::<Context>::validate_path_parameters$")
    cmpc = []
    for bb, t in vpp.live_calls(r"cmp::PartialEq::(eq|ne)$"):
        for xa, ya in ((t["args"][0], t["args"][1]), (t["args"][1], t["args"][0])):
            cx = _comprehension(vpp, xa, r"^router::PathSegment$")
            cy = _comprehension(vpp, ya, r"^api_description::ApiEndpointParameterMetadata$")
            if cx and cy and cx["src"].has_call(r"^router::route_path_to_segments$") and cy["src"].reads_field("parameters") and not cy["src"].has_call(r"^router::route_path_to_segments$"):
                cmpc.append((bb, t, cx, cy, xa, ya))
    if len(cmpc) != 1:
        ctx.lost(R, "the comparison of the template's variable set with the Path parameter set in validate_path_parameters (%d found)" % len(cmpc))
    else:
        bb, t, cp, cv, pa, va = cmpc[0]
        sp, sv = cp["src"], cv["src"]
        ctx.check(R, "vpp:template-side-is-e.path", sp.reads_field("path") and sp.params() == [2] and not sp.reads_field("parameters"),
                  "template side reads e.%s (params %s)" % ("path" if sp.reads_field("path") else "?", sp.params()), (vpp, bb))
        hp, tab = cp["ctx"], cp["table"]
        pin = access_path(hp, cp["info"]["place"], VP)
        src_ok = pin.is_call(r"^router::PathSegment::from$") and cp["is_elem"](access_path(hp, pin.call()[2]["args"][0], VP))
        pay = {}
        for v, (k, comps) in tab.items():
            if k == "Some":
                pay[v] = len(comps) == 1 and bool(comps[0]) and all(q.root_local() == pin.root_local() and q.path == ["as " + v, "0"] for q in comps[0])
        okp = src_ok and {v: k for v, (k, _) in tab.items()} == {"Literal": "None", "VarnameSegment": "Some", "VarnameWildcard": "Some"} and all(pay.values())
        ctx.check(R, "vpp:template-variables-are-both-variable-kinds", okp,
                  "PathSegment::from(segment) [%s idiom]: %s (payload is the variable name: %s)" % (cp["form"], {v: k for v, (k, _) in sorted(tab.items())}, pay), hp)
        hv, tab = cv["ctx"], cv["table"]
        pin = access_path(hv, cv["info"]["place"], VP)
        kinds = {v: k for v, (k, _) in tab.items()}
        pay = False
        if tab.get("Path", ("?", None))[0] == "Some":
            comps = tab["Path"][1]
            pay = len(comps) == 1 and bool(comps[0]) and all(q.root == pin.root and q.path == pin.path + ["as Path", "0"] for q in comps[0])
        elem_md = pin.path[-1:] == ["metadata"] and cv["is_elem"](Path_prefix(pin))
        okq = elem_md and kinds.get("Path") == "Some" and all(k == "None" for v, k in kinds.items() if v != "Path") and pay
        ctx.check(R, "vpp:parameter-side-is-the-Path-parameters", okq and sv.params() == [2],
                  "parameter.metadata [%s idiom]: %s (payload is the Path name: %s)" % (cv["form"], dict(sorted(kinds.items())), pay), hv)
        tya = vpp.local_ty(cp["local"]) if cp["local"] is not None else ""
        tyb = vpp.local_ty(cv["local"]) if cv["local"] is not None else ""
        isset = lambda ty: bool(re.match(r"^std::collections::(HashSet|BTreeSet)<std::string::String", ty))
        ctx.check(R, "vpp:compared-as-sets-of-names", isset(tya) and tya == tyb, "compared values: %s and %s" % (tya[:60], tyb[:60]), (vpp, bb))
        sw = bool_switch_of_call(vpp, bb, t)
        okm = False
        d = "no branch on the comparison"
        if sw:
            sbb, tb, fb = sw
            differ, same = (tb, fb) if t["callee"].endswith("::ne") else (fb, tb)
            rej = edge_is_rejecting(vpp, sbb, differ)
            acc_reach = vpp.reachable(same, avoid_edges=always_err_try_edges(vpp))
            residual = [b for b, tt in vpp.live_calls(r"ops::FromResidual::from_residual$") if b in acc_reach]
            errs = [b for b, i, st in vpp.aggregates(r"^std::result::Result$", "Err") if b in acc_reach]
            acc = any(b in acc_reach for b in ok_return_blocks(vpp)) and not residual and not errs and not dead_ends(vpp, same)
            okm = rej and acc
            d = "sets differ -> never Ok: %s; sets equal -> Ok with no refusal on the way: %s" % (rej, acc)
        ctx.check(R, "vpp:mismatch-is-Err-and-match-is-Ok", okm, d, (vpp, bb))
        # Added after adversary change C02-I (an early `return Ok(())` when the handler declares no path parameters skipped the
        # comparison, so `/things/{id}` with a handler that ignores `id` was accepted): the endpoint is accepted only after the
        # two sets were compared and found equal -- every Ok(..) return is reached only with the comparison established
        bypass = None
        if sw:
            sbb, tb, fb = sw
            same = fb if t["callee"].endswith("::ne") else tb
            reach = vpp.reachable(0, avoid_edges=list(always_err_try_edges(vpp)) + [(sbb, same)])
            bypass = [b2 for b2 in ok_return_blocks(vpp) if b2 in reach]
        ctx.check(R, "vpp:Ok-only-after-the-sets-compared-equal", bypass is not None and bool(ok_return_blocks(vpp)) and not bypass,
                  "Ok(..) returns of validate_path_parameters: %d, of which reachable without taking the `sets are equal` edge of the comparison: %s"
                  % (len(ok_return_blocks(vpp)), len(bypass) if bypass is not None else "n/a (no branch on the comparison)"), (vpp, bypass[0] if bypass else bb))
    # ---------------- validate_named_parameters
    _vnp_rules(ctx, R)


METADATA = r"^api_description::ApiEndpointParameterMetadata$"
MAP_LOOKUP = r"(BTreeMap::<K, V, A>|HashMap::<K, V, S, A>)::get$"
MAP_HAS = r"(BTreeMap::<K, V, A>|HashMap::<K, V, S, A>)::contains_key$"
OPT_COPY = [r"Option::<&T>::(copied|cloned)$", r"Option::<&mut T>::(copied|cloned)$"]


def _vnp_rules(ctx, R):
    """validate_named_parameters, decided from path conditions: for every way one iteration of the loop over e.parameters can end by
    accepting the parameter (going on to the next one, or returning Ok) the facts established on that path - which metadata variant,
    whether the name is a key of the path-variable map (contains_key / get is Some / get is None, through flags and tuples), which kind
    the map holds for it, which type checks returned Ok - must satisfy the specification of every (variant, presence, kind) cell the
    path is compatible with.  How the switches are nested, merged or ordered is irrelevant.  Evaluated on the normalised view, so
    Option/Result combinators are the matches they abbreviate."""
    ds = ctx.dsn
    vnp = ctx.need_fn(ds, R, r"^api_description::ApiDescription::<Context>::validate_named_parameters$")
    # path_segments map: name -> kind of the template's variables, built by collect() of a filter_map or by inserts in a loop
    maps = []
    cands = [t["dest"] for bb, t in vnp.live_calls(r"iter::Iterator::collect$")] + [t["dest"] for bb, t in vnp.live_calls(FRESH_COLLECTION)]
    for dest in cands:
        if dest["p"]:
            continue
        comp = _comprehension(vnp, dest, r"^router::PathSegment$")
        # (an intermediate list of (name, kind) pairs from which the map is collected is not the map)
        if comp and comp["src"].has_call(r"^router::route_path_to_segments$") and re.match(r"^std::collections::(BTreeMap|HashMap)<", vnp.local_ty(comp["local"])):
            maps.append(comp)
    if len(maps) != 1:
        ctx.lost(R, "the name -> segment-kind map built from the path template in validate_named_parameters (%d found)" % len(maps))
        return
    comp = maps[0]
    mlocal, msl, hm = comp["local"], comp["src"], comp["ctx"]
    # The map's values are the variable's kind.  Which enum (and which of its variants) stands for which kind is read off the map's
    # construction, not off names: "Segment" is whatever is recorded for a VarnameSegment, "Wildcard" whatever is recorded for a VarnameWildcard.
    okmap = False
    kind_adt, kind_name = None, {}
    pin = access_path(hm, comp["info"]["place"], VP)
    src_ok = pin.is_call(r"^router::PathSegment::from$") and comp["is_elem"](access_path(hm, pin.call()[2]["args"][0], VP))
    got = {}
    for v, (k, comps) in comp["table"].items():
        if k != "Some":
            got[v] = k
            continue
        if len(comps) == 2 and comps[0] and len(comps[1]) == 1:
            kd = comps[1][0]
            isk = kd.kind() == "agg" and kd.root[2].get("agg") == "adt" and not kd.root[2].get("ops") and not kd.path and ds.adts.get(kd.root[2].get("adt"), {}).get("kind") == "enum"
            got[v] = (all(nm.root_local() == pin.root_local() and nm.path == ["as " + v, "0"] for nm in comps[0]),
                      "%s::%s" % (kd.root[2]["adt"].split("::")[-1], kd.root[2]["variant"]) if isk else "?")
            if isk and v in ("VarnameSegment", "VarnameWildcard"):
                kind_adt = kd.root[2]["adt"] if kind_adt in (None, kd.root[2]["adt"]) else "?"
                kind_name.setdefault(kd.root[2]["variant"], []).append({"VarnameSegment": "Segment", "VarnameWildcard": "Wildcard"}[v])
        else:
            got[v] = "?"
    kinds_ok = kind_adt not in (None, "?") and sorted(x for xs in kind_name.values() for x in xs) == ["Segment", "Wildcard"] and all(len(xs) == 1 for xs in kind_name.values())
    kind_name = {k: xs[0] for k, xs in kind_name.items()} if kinds_ok else {}
    okmap = src_ok and kinds_ok and got.get("Literal") == "None" and all(isinstance(got.get(v), tuple) and got[v][0] for v in ("VarnameSegment", "VarnameWildcard")) and \
        sorted(got) == ["Literal", "VarnameSegment", "VarnameWildcard"] and msl.reads_field("path") and msl.params() == [2]
    d = "template segment -> map entry [%s idiom]: %s; two distinct kinds of one enum: %s" % (comp["form"], dict(sorted(got.items(), key=lambda kv: kv[0])), kinds_ok)
    # once built the map is only read: every mutable borrow of it feeds one of the recognised inserts (none when it is collect()ed)
    mut_borrows = [bb for bb, i, st in vnp.stmts() if st["rv"]["rv"] in ("ref", "rawptr") and st["rv"].get("mut") and st["rv"]["pl"]["l"] == mlocal]
    frozen = (comp["form"] == "loop" and not comp["collected"]) or not mut_borrows
    ctx.check(R, "vnp:path-variable-kinds-from-e.path", okmap and frozen and bool(re.match(r"^std::collections::(BTreeMap|HashMap)<std::string::String", vnp.local_ty(mlocal))),
              d + ("" if frozen else "; the map is borrowed mutably after it was collected"), hm)
    # ---- the per-parameter body: the body of the loop over e.parameters, or the closure handed to try_for_each on e.parameters' iterator
    over_params = VP + [r"iter::IntoIterator::into_iter$", r"slice::<impl \[T\]>::iter$", r"vec::Vec::<T, A>::iter$", r"vec::Vec::<T, A>::as_slice$"]
    loops, folds = [], []
    for bb, t in vnp.live_calls(r"iter::Iterator::next$"):
        p = access_path(vnp, t["args"][0], over_params)
        if p.kind() == "param" and p.root[1] == 2 and p.path == ["parameters"]:
            loops.append((bb, t))
    for bb, t in vnp.live_calls(r"iter::Iterator::try_for_each$"):
        p = access_path(vnp, t["args"][0], over_params)
        cl = closure_args_of_call(vnp, t)
        if p.kind() == "param" and p.root[1] == 2 and p.path == ["parameters"] and len(cl) == 1:
            folds.append((bb, t, cl[0][0]))
    if len(loops) + len(folds) != 1:
        ctx.lost(R, "the loop over e.parameters in validate_named_parameters (%d loops, %d try_for_each found)" % (len(loops), len(folds)))
        return
    if loops:
        # g: the function holding the body; start: its first block; again: the block that begins the next iteration
        g = vnp
        nbb, nt = loops[0]
        ne = option_edges(vnp, nt["dest"]["l"])
        if ne is None:
            ctx.lost(R, "switch on the parameter iterator's next()")
            return
        nsw, n_some, n_none = ne
        start, again = n_some, [nbb]

        def rel(p):
            """the path of p relative to the parameter under iteration, or None"""
            return p.path[2:] if p.call() is not None and p.call()[2] is nt and p.npath()[:2] == ["+", "0"] else None

        def is_map(op):
            q = access_path(vnp, op, VP)
            return q.root_local() == mlocal and not q.path and q.kind() in ("call", "local")
    else:
        fbb, ft, g = folds[0]
        start, again = 0, []
        nbb = fbb

        def rel(p):
            return list(p.path) if p.kind() == "param" and p.root[1] == 2 and p.fn is g else None

        def is_map(op):
            h, q = resolve_path(ds, g, op, VP)
            return h is vnp and q.root_local() == mlocal and not q.path and q.kind() in ("call", "local")
    in_iter = g.reachable(start, avoid=again)

    def this_param(p, *suffix):
        """p is <the element under iteration>.<suffix..>"""
        r = rel(p)
        return r is not None and r[:len(suffix)] == list(suffix)

    def is_own_name(op):
        """every value the operand can hold is the name carried by this parameter's metadata (`Path(name)` / `Query(name)`; an or-pattern binds it once per alternative)"""
        qs = sources(g, op, VP, avoid=again)
        return bool(qs) and all(rel(q) is not None and len(rel(q)) == 3 and rel(q)[0] == "metadata" and rel(q)[1] in ("as Path", "as Query") and rel(q)[2] == "0" for q in qs)

    # ---- what each switch / boolean test inside the body says
    switch_facts, atom_facts, kill = {}, {}, {}
    msw = []
    foreign_md = 0
    for sbb, info, tg in enum_switches(g, r".") :
        if sbb not in in_iter:
            continue
        p = access_path(g, info["place"], VP + OPT_COPY)
        sets = discr_edge_sets(g, sbb, info)
        if re.search(METADATA, info["adt"]):
            if rel(p) == ["metadata"]:
                switch_facts.setdefault(sbb, []).append(("metadata", sets))
                msw.append(sbb)
            else:
                foreign_md += 1
            continue
        if p.is_call(MAP_LOOKUP) and is_map(p.call()[2]["args"][0]) and is_own_name(p.call()[2]["args"][1]):
            if not p.path and info["adt"] == "std::option::Option":
                switch_facts.setdefault(sbb, []).append(("name-is-path-variable", {s: frozenset({"Some": "yes", "None": "no"}[v] for v in vs) for s, vs in sets.items()}))
            elif p.npath() == ["+", "0"] and kinds_ok and info["adt"] == kind_adt:
                switch_facts.setdefault(sbb, []).append(("kind", {s: frozenset(kind_name.get(v, v) for v in vs) for s, vs in sets.items()}))
                switch_facts[sbb].append(("name-is-path-variable", {s: frozenset(["yes"]) for s in sets}))
    for cbb, ct in g.live_calls(MAP_HAS):
        if cbb in in_iter and is_map(ct["args"][0]) and is_own_name(ct["args"][1]):
            atom_facts[cbb] = ("name-is-path-variable", "yes", "no")
    for cbb, ct in g.live_calls(r"Option::<T>::(is_some|is_none)$"):
        p = access_path(g, ct["args"][0], VP + OPT_COPY)
        if cbb in in_iter and p.is_call(MAP_LOOKUP) and not p.path and is_map(p.call()[2]["args"][0]) and is_own_name(p.call()[2]["args"][1]):
            atom_facts[cbb] = ("name-is-path-variable", "yes", "no") if ct["callee"].endswith("is_some") else ("name-is-path-variable", "no", "yes")
    ctx.check(R, "vnp:dispatch-on-this-parameter's-metadata", bool(msw) and not foreign_md,
              "switches on the current parameter's metadata inside the loop: %d; on some other metadata value: %d" % (len(msw), foreign_md), (g, nbb if loops else 0))
    # ---- the type checks: applied to this parameter's own name, schema and dependencies; their outcome is a fact of the path
    checks = [(bb, t) for bb, t in g.live_calls(r"^type_util::type_is_(scalar|string_enum)$")]
    passed_dim = {}
    verdict_of = {}             # (closure idiom) block after a check whose result is the body's verdict itself -> its dimension
    bad_sites = []
    for cbb, ct in checks:
        fnname = ct["callee"].split("::")[-1]
        schs = sources(g, ct["args"][2], VP, avoid=again)
        deps = sources(g, ct["args"][3], VP, avoid=again)
        ok_args = cbb in in_iter and is_own_name(ct["args"][1]) and \
            bool(schs) and all(this_param(q, "schema") and rel(q)[-1] == "schema" and len(rel(q)) > 1 for q in schs) and \
            bool(deps) and all(this_param(q, "schema") and rel(q)[-1] == "dependencies" for q in deps)
        returned = not loops and ct["dest"]["l"] == 0 and not ct["dest"]["p"] and "to" in ct
        sp = None if returned else result_split(g, ct["dest"]["l"])        # `check(..)?`, match, if-let-Err, let-else alike
        if not ok_args or (sp is None and not returned):
            bad_sites.append("%s(.., %r, %r, ..)%s" % (fnname, access_path(g, ct["args"][1], VP), access_path(g, ct["args"][2], VP), "" if sp or returned else " whose result is never split into Ok / Err"))
            continue
        dim = ("result", fnname, cbb)
        passed_dim[dim] = fnname
        if returned:
            verdict_of[ct["to"]] = dim
            continue
        switch_facts.setdefault(sp["switch_bb"], []).append((dim, {sp["ok"]: frozenset(["Ok"]), sp["err"]: frozenset(["Err"])}))
        kill.setdefault(cbb, []).append(dim)
    for cbb, ct in g.live_calls(r"Result::<T, E>::(is_ok|is_err)$"):
        p = access_path(g, ct["args"][0], VP)
        if p.call() is not None and not p.path:
            for dim in passed_dim:
                if dim[2] == p.call()[1]:
                    atom_facts[cbb] = (dim, "Ok", "Err") if ct["callee"].endswith("is_ok") else (dim, "Err", "Ok")
    ctx.check(R, "vnp:type-checks-apply-to-this-parameter", bool(checks) and not bad_sites,
              "type_is_scalar / type_is_string_enum calls in the loop: %d; not applied to this parameter's own name, Static schema and dependencies: %s" % (len(checks), bad_sites or "none"), g)
    # ---- every way the body can accept its parameter
    if loops:
        oks = ok_return_blocks(vnp)
        states = region_states(vnp, start, stops=[nbb] + oks, switch_facts=switch_facts, atom_facts=atom_facts, kill=kill)
        if states is None:
            ctx.lost(R, "path conditions of the parameter loop (state budget exceeded)")
            return
        accepting = [(b, f) for k, b, f in states if k == "stop"]
        refusing_states = [(k, b, f) for k, b, f in states if k != "stop"]
        goes_to = lambda b: "the next parameter" if b == nbb else "Ok(())"
    else:
        # The closure's verdict is its return value: the parameter is accepted iff that is Ok.  Every definition of the return place ends
        # the path: `Ok(..)` built on the spot accepts, `Err(..)` / a `?` residual refuses, a type check whose result is returned as it is
        # accepts exactly when the check answered Ok (recorded as that check's fact), anything else counts as accepting (fail closed).
        stops, verdict = {}, {}
        for dbb, kind, node in g.defs().get(0, []):
            if dbb not in in_iter:
                continue
            if kind == "call" and node.get("to") in verdict_of:
                stops[node["to"]] = ("check", verdict_of[node["to"]])
            elif kind == "call" and (node.get("callee") or "").endswith("FromResidual::from_residual") and "to" in node:
                stops[node["to"]] = ("refuse", None)
            elif kind == "assign" and not node["pl"]["p"] and node["rv"]["rv"] == "agg" and node["rv"].get("adt") == "std::result::Result":
                stops[dbb] = ("accept", None) if node["rv"].get("variant") == "Ok" else ("refuse", None)
            else:
                stops[node["to"] if kind == "call" and "to" in node else dbb] = ("accept", None)
        states = region_states(g, start, stops=list(stops), switch_facts=switch_facts, atom_facts=atom_facts, kill=kill)
        if states is None:
            ctx.lost(R, "path conditions of the per-parameter closure (state budget exceeded)")
            return
        accepting, refusing_states = [], []
        for k, b, f in states:
            if k == "stop" and stops[b][0] == "check":
                accepting.append((b, dict(list(f.items()) + [(stops[b][1], frozenset(["Ok"]))])))
                refusing_states.append(("refuse", b, dict(list(f.items()) + [(stops[b][1], frozenset(["Err"]))])))
            elif k == "stop" and stops[b][0] == "accept":
                accepting.append((b, f))
            elif k == "return":
                accepting.append((b, f))        # a path to return on which the verdict was never assigned: not understood, counts as accepting
            else:
                refusing_states.append((k, b, f))
        goes_to = lambda b: "Ok(()) for this parameter"

    def passed(f):
        return sorted(set(fnname for dim, fnname in passed_dim.items() if f.get(dim) == frozenset(["Ok"])))

    cells = [
        ("vnp:check:Path+Segment", {"metadata": "Path", "name-is-path-variable": "yes", "kind": "Segment"}, "type_is_scalar",
         "a Path parameter bound to a single-segment variable"),
        ("vnp:check:Path+Wildcard", {"metadata": "Path", "name-is-path-variable": "yes", "kind": "Wildcard"}, "type_is_string_enum",
         "a Path parameter bound to a wildcard variable"),
        ("vnp:check:Query", {"metadata": "Query", "name-is-path-variable": "no"}, "type_is_scalar",
         "a Query parameter whose name is not a path variable"),
    ]
    for key, cell, want, what in cells:
        acc = [(b, f) for b, f in accepting if compatible(f, cell)]
        bad = [(b, f) for b, f in acc if want not in passed(f)]
        d = "%s is accepted on %d path class(es), each only after %s(this name, this schema, ..) returned Ok" % (what, len(acc), want)
        if bad:
            b, f = bad[0]
            d = "%s can be accepted without %s having returned Ok: a path with facts %s (checks passed: %s) goes on to %s" % (
                what, want, show_facts({k: v for k, v in f.items() if isinstance(k, str)}), passed(f) or "none", goes_to(b))
        if not acc:
            d = "%s is never accepted (no path of the loop body compatible with this case reaches the next parameter): the analysis found no such path" % what
        ctx.check(R, key, bool(acc) and not bad, d, (g, bad[0][0] if bad else (nbb if loops else 0)))
    for var in ("Path", "Query"):
        acc = [(b, f) for b, f in accepting if compatible(f, {"metadata": var})]
        bad = [(b, f) for b, f in acc if not passed(f)]
        ctx.check(R, "vnp:every-%s-parameter-is-checked" % var, not bad,
                  "a %s parameter can reach the next iteration / Ok without passing a type check: %s%s" % (var, bool(bad), (" - facts " + show_facts(bad[0][1])) if bad else ""), (g, nbb if loops else 0))
    # Query name that is also a path variable: never accepted
    clash = {"metadata": "Query", "name-is-path-variable": "yes"}
    bad = [(b, f) for b, f in accepting if compatible(f, clash)]
    tested = any(d == "name-is-path-variable" for v in switch_facts.values() for d, _ in v) or any(v[0] == "name-is-path-variable" for v in atom_facts.values())
    refusing = [(k, b) for k, b, f in refusing_states if f.get("metadata") == frozenset(["Query"]) and f.get("name-is-path-variable") == frozenset(["yes"])]
    d = "a Query parameter whose name is a key of the path-variable map ends the registration (Err / panic) on %d path class(es) and is never accepted: %s" % (len(refusing), not bad)
    if bad:
        d = "a Query parameter whose name is also a path variable is accepted: a path with facts %s goes on to %s" % (show_facts(bad[0][1]), goes_to(bad[0][0]))
    elif not tested:
        d = "no test whether the parameter's name is a key of the path-variable map (contains_key / get)"
    ctx.check(R, "vnp:query-name-clashing-with-path-variable-refused", not bad and tested and bool(refusing), d, vnp)
    # Ok only when every parameter was accepted
    if loops:
        ctx.check(R, "vnp:Ok-only-after-all-parameters", bool(oks) and all(vnp.edge_dominates(nsw, n_none, b) for b in oks), "Ok(()) is dominated by the None edge of the parameter iterator", vnp)
    else:
        # try_for_each (std): applies the closure to the elements in order, returns the first Err as it is and Ok(()) when there was none.
        # validate_named_parameters must answer with that value: return it unchanged, or return Ok only on its Ok edge.
        rets = sources(vnp, {"l": 0, "p": []}, VP)
        as_is = bool(rets) and all(q.call() is not None and q.call()[2] is ft and not q.path for q in rets)
        okf = as_is
        d = "validate_named_parameters returns the result of try_for_each(per-parameter check) unchanged: %s" % as_is
        if not as_is:
            sp = result_split(vnp, ft["dest"]["l"])
            oks = ok_return_blocks(vnp)
            okf = sp is not None and bool(oks) and all(vnp.edge_dominates(sp["switch_bb"], sp["ok"], b) for b in oks) and not any(b in vnp.reachable(sp["err"]) for b in oks)
            d = "Ok(()) is returned only on the Ok edge of try_for_each(per-parameter check)'s result: %s" % okf
        ctx.check(R, "vnp:Ok-only-after-all-parameters", okf, d, (vnp, fbb))


# --------------------------------------------------------------------------- R5b
SUBS_ELEMENT_ACCESS = [r"slice::<impl \[T\]>::(first|last|get|iter|as_ptr|len)$", r"vec::Vec::<T, A>::(as_slice|iter|len|first)$", r"Option::<T>::(unwrap|expect|unwrap_unchecked)$",
                       r"ops::Index::index$", r"iter::Iterator::next$", r"iter::IntoIterator::into_iter$"]


def _option_field_edges(fs, sub_param, field):
    """Edges of fs on which `subschemas.<field>` is known None / known Some: ([none edges], [some edges]) from discriminant
    switches on that place (patterns, match, if-let) and from is_none() / is_some() tests."""
    none_e, some_e = [], []
    for sbb, info, tg in enum_switches(fs, r"^std::option::Option$"):
        p = access_path(fs, info["place"], VP)
        if p.kind() == "param" and p.root[1] == sub_param and p.path == [field] and not [c for c in p.call_names() if not re.search(r"as_ref$|as_deref$|Deref::deref$", c)]:
            if tg.get("None") is not None and tg.get("Some") is not None and tg["None"] != tg["Some"]:
                none_e.append((sbb, tg["None"]))
                some_e.append((sbb, tg["Some"]))
    for cbb, ct in fs.live_calls(r"Option::<T>::(is_some|is_none)$"):
        p = access_path(fs, ct["args"][0], VP)
        if p.kind() == "param" and p.root[1] == sub_param and p.path == [field]:
            sw = bool_switch_of_call(fs, cbb, ct)
            if sw:
                some_t, none_t = (sw[1], sw[2]) if ct["callee"].endswith("is_some") else (sw[2], sw[1])
                none_e.append((sw[0], none_t))
                some_e.append((sw[0], some_t))
    return none_e, some_e


def _shape_guard(fs, sub_param, fields, site, some_of, none_of):
    """Every path to `site` established Some for one of the fields `some_of` (and None for the others of that group) and None for all of `none_of`."""
    bad = []
    for f in none_of:
        ne, se = _option_field_edges(fs, sub_param, f)
        if not ne or site in fs.reachable(0, avoid_edges=ne):
            bad.append("%s may be Some" % f)
    some_edges = []
    for f in some_of:
        some_edges += _option_field_edges(fs, sub_param, f)[1]
    if not some_edges or site in fs.reachable(0, avoid_edges=some_edges):
        bad.append("none of %s need be Some" % "/".join(some_of))
    if len(some_of) > 1:
        none_edges = []
        for f in some_of:
            none_edges += _option_field_edges(fs, sub_param, f)[0]
        if not none_edges or site in fs.reachable(0, avoid_edges=none_edges):
            bad.append("%s may all be Some" % "/".join(some_of))
    return bad


def _passes_checker_args(ds, g, fs, t, dep_param, tc_param):
    """The recursive call hands on the caller's `dependencies` and `type_check` unchanged (a different type_check would accept other types)."""
    ok = True
    for idx, want in ((3, dep_param), (4, tc_param)):
        h, p = resolve_path(ds, g, t["args"][idx], VP)
        ok = ok and h is fs and p.kind() == "param" and p.root[1] == want and not p.path and not [c for c in p.call_names() if not re.search(r"Deref::deref$|Clone::clone$", c)]
    return ok


def r5b_scalar_check_is_total(ctx):
    R = ctx.rule("C02.R5b", "type_is_scalar_subschemas answers true only when justified: allOf/anyOf - only where the list was found to have exactly one element (len == 1 on every path) and "
                 "that element passed type_is_scalar_common; oneOf - only when EVERY element passed it (Iterator::all / a loop that returns false at the first failure; not any, not first); "
                 "each only for the exact shape (the other subschema fields None); every other shape answers false", floor=7)
    fs = ctx.need_fn(ctx.ds, R, r"^type_util::type_is_scalar_subschemas$")
    sub_param = [i for i in range(1, fs.argc + 1) if "SubschemaValidation" in fs.local_ty(i)]
    dep_param = [i for i in range(1, fs.argc + 1) if "IndexMap<" in fs.local_ty(i)]
    tc_param = [i for i in range(1, fs.argc + 1) if "InstanceType) -> bool" in fs.local_ty(i)]
    fields = [f["name"] for f in (ctx.ds.adt_fields("schemars::schema::SubschemaValidation") or [])]
    if len(sub_param) != 1 or len(dep_param) != 1 or len(tc_param) != 1 or not {"all_of", "any_of", "one_of"} <= set(fields):
        ctx.lost(R, "parameters (subschemas, dependencies, type_check) of type_is_scalar_subschemas / fields of SubschemaValidation")
        return
    sub_param, dep_param, tc_param = sub_param[0], dep_param[0], tc_param[0]
    others = [f for f in fields if f not in ("all_of", "any_of", "one_of")]
    rec_rx = r"^type_util::type_is_scalar_common$"
    # ---- the recursion sites
    sites = [(fs, bb, t) for bb, t in fs.live_calls(rec_rx)]
    for h in ctx.ds.descendants(fs):
        sites += [(h, bb, t) for bb, t in h.live_calls(rec_rx)]
    justified = {}          # id(call term in fs whose success justifies `true`) -> description
    classified = set()

    def list_of(g, op):
        """Which subschema list (field name) does an operand of fs derive from - through element access only?"""
        sl = fs.slice(op)
        got = [f for f in ("all_of", "any_of", "one_of") if sl.reads_field(f)]
        bad = callee_allow(sl, PLUMBING + SUBS_ELEMENT_ACCESS)
        return got, sl, [b[0] for b in bad]

    # (a) direct recursion on the single element of allOf / anyOf
    for g, bb, t in sites:
        if g is not fs:
            continue
        got, sl, bad = list_of(fs, t["args"][2])
        pe = access_path(fs, t["args"][2], VP + [r"Option::<T>::(unwrap|expect)$"])
        in_loop = pe.is_call(r"iter::Iterator::next$")
        if in_loop or not got or not set(got) <= {"all_of", "any_of"}:
            continue
        classified.add(id(t))
        # len == 1 established on every path: comparisons of the list's length with 1 (==, !=, through flags, &&, early returns), or a `match len { 1 => .. }`
        at, af = [], []
        for cb, i, st in fs.stmts():
            rv = st["rv"]
            if rv["rv"] == "binop" and rv["op"] in ("Eq", "Ne"):
                for x, y in ((rv["a"], rv["b"]), (rv["b"], rv["a"])):
                    yc = access_path(fs, y, [])        # the constant, possibly through a temporary (`[only]` pattern: Eq(len, move _tmp) with _tmp = 1_usize)
                    yv = y if y.get("k") == "const" else (yc.root[2] if yc.kind() == "const" and not yc.path else {})
                    if (yv.get("val") or {}).get("int") == 1 and x.get("k") in ("copy", "move"):
                        xs = fs.slice(x)
                        if (xs.reads_field("all_of") or xs.reads_field("any_of")) and not callee_allow(xs, PLUMBING + [r"::len$", r"vec::Vec::<T, A>::as_slice$"]):
                            (at if rv["op"] == "Eq" else af).append(("cmp", cb, i))
        okl = bool(at or af) and fs.guarded_by(bb, atoms_true=at, atoms_false=af)[0]
        if not okl:
            one_edges = []
            for sbb, st in fs.switches():
                q = access_path(fs, st["discr"], VP) if st["discr"].get("k") in ("copy", "move") else None
                if q is not None and q.is_call(r"::len$") and not q.path:
                    qs = fs.slice(q.call()[2]["args"][0])
                    if (qs.reads_field("all_of") or qs.reads_field("any_of")) and fs.switch_target(sbb, 1) != st["otherwise"]:
                        one_edges.append((sbb, fs.switch_target(sbb, 1)))
            okl = bool(one_edges) and bb not in fs.reachable(0, avoid_edges=one_edges)
        ctx.check(R, "allOf/anyOf:recursion-only-for-a-single-alternative", okl,
                  "the recursive check of an allOf/anyOf element is reached only where the list's length was found to be exactly 1 (%d length tests): %s - otherwise only the inspected "
                  "element is known to be scalar" % (len(at) + len(af), okl), (fs, bb))
        ctx.check(R, "allOf/anyOf:recurses-on-that-alternative", not bad and _passes_checker_args(ctx.ds, fs, fs, t, dep_param, tc_param),
                  "schema argument derives from subschemas.%s by element access only (other callees: %s); dependencies and type_check are handed on unchanged" % ("/".join(got), bad), (fs, bb))
        sg = _shape_guard(fs, sub_param, fields, bb, ["all_of", "any_of"], ["one_of"] + others)
        ctx.check(R, "allOf/anyOf:only-for-the-exact-shape", not sg, "on every path to the recursion exactly one of all_of / any_of is Some and every other subschema field is None%s"
                  % ("" if not sg else " - NOT established: " + "; ".join(sg)), (fs, bb))
        justified[id(t)] = ("call", t, bb)
    # (b) oneOf: every element checked
    b_sites = []
    for abb, at_ in fs.live_calls(r"iter::Iterator::all$"):
        got, sl, bad = list_of(fs, at_["args"][0])
        cls = closure_args_of_call(fs, at_)
        if got != ["one_of"] or len(cls) != 1:
            continue
        h = cls[0][0]
        pit = access_path(fs, at_["args"][0], VP + [r"slice::<impl \[T\]>::iter$", r"vec::Vec::<T, A>::iter$", r"iter::IntoIterator::into_iter$", r"iter::Iterator::by_ref$"])
        whole = pit.kind() == "param" and pit.root[1] == sub_param and pit.npath() == ["one_of", "+", "0"]
        inner = [(bb, t) for bb, t in h.live_calls(rec_rx)]
        okc = False
        d = "the closure handed to all() does not consist of one recursive check"
        if len(inner) == 1:
            ibb, it_ = inner[0]
            classified.add(id(it_))
            item = access_path(h, it_["args"][2], VP)
            rets = sources(h, {"l": 0, "p": []}, VP)
            sp = result_split(h, it_["dest"]["l"])
            ok_ret = True
            for p in rets:
                if p.is_call(r"Result::<T, E>::is_ok$") and not p.path and access_path(h, p.call()[2]["args"][0], VP).call() is not None and \
                        access_path(h, p.call()[2]["args"][0], VP).call()[2] is it_:
                    continue
                if p.kind() == "const" and (p.root[2].get("val") or {}).get("int") == 0:
                    continue
                if p.kind() == "const" and (p.root[2].get("val") or {}).get("int") == 1 and sp is not None and p.hops and \
                        any(h.edge_dominates(sp["switch_bb"], sp["ok"], hb) for _l, hb in p.hops):
                    continue
                ok_ret = False
            okc = item.kind() == "param" and item.root[1] == 2 and not item.path and ok_ret and _passes_checker_args(ctx.ds, h, fs, it_, dep_param, tc_param)
            d = "all(|s| type_is_scalar_common(.., s, dependencies, type_check) succeeded): item is the closure's element: %s; the closure is true only on success: %s" % (
                item.kind() == "param" and item.root[1] == 2, ok_ret)
        ctx.check(R, "oneOf:every-alternative-checked", whole and not bad and okc, "Iterator::all over %r (whole list: %s; other callees: %s); %s" % (pit, whole, bad, d), (fs, abb))
        sg = _shape_guard(fs, sub_param, fields, abb, ["one_of"], ["all_of", "any_of"] + others)
        ctx.check(R, "oneOf:only-for-the-exact-shape", not sg, "on every path to the oneOf check one_of is Some and every other subschema field is None%s"
                  % ("" if not sg else " - NOT established: " + "; ".join(sg)), (fs, abb))
        justified[id(at_)] = ("all", at_, abb)
        b_sites.append(abb)
    # (b') the same as an explicit loop: for s in one_of { if check(s) failed { return false } } true
    loop_true_ok = []
    for g, bb, t in sites:
        if g is not fs or id(t) in classified:
            continue
        pe = access_path(fs, t["args"][2], VP)
        if not (pe.is_call(r"iter::Iterator::next$") and pe.npath() == ["+", "0"]):
            continue
        nbb, nt = pe.call()[1], pe.call()[2]
        got, sl, bad = list_of(fs, nt["args"][0])
        pit = access_path(fs, nt["args"][0], VP + [r"slice::<impl \[T\]>::iter$", r"vec::Vec::<T, A>::iter$", r"iter::IntoIterator::into_iter$", r"iter::Iterator::by_ref$"])
        whole = got == ["one_of"] and pit.kind() == "param" and pit.root[1] == sub_param and pit.npath() == ["one_of", "+", "0"]
        ne = option_edges(fs, nt["dest"]["l"])
        classified.add(id(t))
        okloop = False
        if ne is not None and whole:
            nsw, n_some, n_none = ne
            fail_edges = []
            sp = result_split(fs, t["dest"]["l"])
            if sp is not None:
                fail_edges.append(sp["err"])
            for cbb, ct in fs.live_calls(r"Result::<T, E>::(is_ok|is_err)$"):
                q = access_path(fs, ct["args"][0], VP)
                if q.call() is not None and q.call()[2] is t:
                    sw = bool_switch_of_call(fs, cbb, ct)
                    if sw:
                        fail_edges.append(sw[2] if ct["callee"].endswith("is_ok") else sw[1])
            noskip = nbb not in fs.reachable(n_some, avoid=[bb])
            fails_stop = bool(fail_edges) and all(nbb not in fs.reachable(fe) for fe in fail_edges)
            okloop = noskip and fails_stop
            if okloop:
                loop_true_ok.append((nsw, n_none, fail_edges))
        ctx.check(R, "oneOf:every-alternative-checked", okloop and not bad and _passes_checker_args(ctx.ds, fs, fs, t, dep_param, tc_param),
                  "explicit loop over %r: every element reaches the check and a failed check leaves the loop: %s" % (pit, okloop), (fs, bb))
        sg = _shape_guard(fs, sub_param, fields, bb, ["one_of"], ["all_of", "any_of"] + others)
        ctx.check(R, "oneOf:only-for-the-exact-shape", not sg, "on every path to the oneOf check one_of is Some and every other subschema field is None%s"
                  % ("" if not sg else " - NOT established: " + "; ".join(sg)), (fs, bb))
    stray = [(g.id, bb) for g, bb, t in sites if id(t) not in classified]
    ctx.check(R, "recursion-sites-census", not stray and bool(sites), "type_is_scalar_common is applied to subschema elements at %d site(s); not recognised as the single allOf/anyOf element or as one of "
              "all oneOf elements: %s" % (len(sites), [s_[0].split("::")[-1] for s_ in stray] or "none"), fs)
    # ---- what the function can return
    bad_ret = []
    kinds = []
    for p in sources(fs, {"l": 0, "p": []}, VP):
        if p.kind() == "const" and (p.root[2].get("val") or {}).get("int") == 0:
            kinds.append("false")
            continue
        if p.is_call(r"Result::<T, E>::is_ok$") and not p.path:
            q = access_path(fs, p.call()[2]["args"][0], VP)
            if q.call() is not None and id(q.call()[2]) in justified and not q.path:
                kinds.append("is_ok(check of the single allOf/anyOf element)")
                continue
        if p.call() is not None and id(p.call()[2]) in justified and justified[id(p.call()[2])][0] == "all" and not p.path:
            kinds.append("all(oneOf elements pass)")
            continue
        if p.kind() == "const" and (p.root[2].get("val") or {}).get("int") == 1 and p.hops:
            okt = False
            for key, (kind, t, tb) in justified.items():
                sp = result_split(fs, t["dest"]["l"]) if kind == "call" else None
                if sp is not None and any(fs.edge_dominates(sp["switch_bb"], sp["ok"], hb) for _l, hb in p.hops):
                    okt = True
            for nsw, n_none, fail_edges in loop_true_ok:
                if any(fs.edge_dominates(nsw, n_none, hb) and not any(hb in fs.reachable(fe) for fe in fail_edges) for _l, hb in p.hops):
                    okt = True
            if okt:
                kinds.append("true (after a successful check)")
                continue
        bad_ret.append(repr(p))
    ctx.check(R, "true-only-when-justified", not bad_ret, "values the function can return: %s; not justified by a recognised check: %s" % (sorted(set(kinds)), bad_ret or "none"), fs)


# --------------------------------------------------------------------------- R6
def _tags_spec(visible, policy, tags, allow_other, known):
    if not visible:
        return "Ok"
    n = len(tags)
    if policy == "AtLeastOne" and n == 0:
        return "Err"
    if policy == "ExactlyOne" and n != 1:
        return "Err"
    if not allow_other and any(t not in known for t in tags):
        return "Err"
    return "Ok"


def r6_tag_policy(ctx):
    R = ctx.rule("C02.R6", "validate_tags(e) = Ok for invisible endpoints; otherwise Err iff (AtLeastOne and 0 tags) or (ExactlyOne and tag count != 1) or (!allow_other_tags and some tag is not "
                 "configured) - interpreted over visible x policy x tag lists of length 0..3 x allow_other_tags x configured/unknown per tag", floor=182)
    vt = ctx.need_fn(ctx.ds, R, r"^api_description::ApiDescription::<Context>::validate_tags$")
    adts = ctx.ds.adts
    need = ["api_description::ApiDescription", "api_description::TagConfig", "api_description::EndpointTagPolicy", "api_description::ApiEndpoint"]
    if any(a not in adts for a in need):
        ctx.lost(R, "ADT tables %s" % [a for a in need if a not in adts])
        return
    pol = [v["name"] for v in adts["api_description::EndpointTagPolicy"]["variants"]]
    ctx.check(R, "policy-kinds", sorted(pol) == ["Any", "AtLeastOne", "ExactlyOne"], "EndpointTagPolicy variants: %s" % pol, nontrivial=False)

    def struct(adt, vals):
        fs = [f["name"] for f in adts[adt]["variants"][0]["fields"]]
        return A.V_struct(adt, [vals.get(f, A.V_opaque(adt.split("::")[-1] + "." + f)) for f in fs]), fs

    def s_len(it, argv, t):
        v = it.deref_all(argv[0])
        if v[0] != "vec":
            raise A.LeavesFragment("len of a non-list")
        return A.V_int(len(v[1]))

    def s_is_empty(it, argv, t):
        v = it.deref_all(argv[0])
        if v[0] != "vec":
            raise A.LeavesFragment("is_empty of a non-list")
        return A.V_bool(len(v[1]) == 0)

    def s_into_iter(it, argv, t):
        v = it.deref_all(argv[0])
        if v[0] == "vec":
            return ("iter", v[1], [0])
        if v[0] == "iter":
            return v
        raise A.LeavesFragment("iteration over %s" % v[0])

    def s_next(it, argv, t):
        v = it.deref_all(argv[0])
        if v[0] != "iter":
            raise A.LeavesFragment("next() on %s" % v[0])
        i = v[2][0]
        if i >= len(v[1]):
            return A.V_none()
        v[2][0] = i + 1
        return A.V_some(A.V_ref(A.Cell(v[1][i])))

    def s_contains(it, argv, t):
        m = it.deref_all(argv[0])
        k = it.deref_all(argv[1])
        if m[0] != "map" or k[0] != "tag":
            raise A.LeavesFragment("contains_key(%s, %s)" % (m[0], k[0]))
        return A.V_bool(k[1] in m[1])

    def s_get(it, argv, t):
        m = it.deref_all(argv[0])
        k = it.deref_all(argv[1])
        if m[0] != "map" or k[0] != "tag":
            raise A.LeavesFragment("get(%s, %s)" % (m[0], k[0]))
        return A.V_some(A.V_ref(A.Cell(A.V_opaque("TagDetails")))) if k[1] in m[1] else A.V_none()

    # iterator adaptors over a concrete list (std semantics: the predicate is applied to the items in order; find / any / all / position
    # stop at the first decisive item).  Items of a slice iterator are references to the elements.
    def _iter_of(it, v):
        v = it.deref_all(v)
        if v is None or v[0] != "iter":
            raise A.LeavesFragment("iterator adaptor on %s" % (v[0] if v else None))
        return v

    def _item(v, i):
        return A.V_ref(A.Cell(v[1][i]))

    def _truth(it, r):
        r = it.deref_all(r)
        if r is None or r[0] != "bool":
            raise A.LeavesFragment("predicate returned a non-boolean")
        return r[1]

    def s_find(it, argv, t):
        v = _iter_of(it, argv[0])
        while v[2][0] < len(v[1]):
            i = v[2][0]
            v[2][0] = i + 1
            item = _item(v, i)
            if _truth(it, it.call_closure(argv[1], A.V_ref(A.Cell(item)))):
                return A.V_some(item)
        return A.V_none()

    def s_position(it, argv, t):
        v = _iter_of(it, argv[0])
        n = 0
        while v[2][0] < len(v[1]):
            i = v[2][0]
            v[2][0] = i + 1
            if _truth(it, it.call_closure(argv[1], _item(v, i))):
                return A.V_some(A.V_int(n))
            n += 1
        return A.V_none()

    def s_any(it, argv, t):
        v = _iter_of(it, argv[0])
        while v[2][0] < len(v[1]):
            i = v[2][0]
            v[2][0] = i + 1
            if _truth(it, it.call_closure(argv[1], _item(v, i))):
                return A.V_bool(True)
        return A.V_bool(False)

    def s_all(it, argv, t):
        v = _iter_of(it, argv[0])
        while v[2][0] < len(v[1]):
            i = v[2][0]
            v[2][0] = i + 1
            if not _truth(it, it.call_closure(argv[1], _item(v, i))):
                return A.V_bool(False)
        return A.V_bool(True)

    def s_filter(it, argv, t):
        v = _iter_of(it, argv[0])
        keep = [v[1][i] for i in range(v[2][0], len(v[1])) if _truth(it, it.call_closure(argv[1], A.V_ref(A.Cell(_item(v, i)))))]
        return ("iter", keep, [0])

    def s_count(it, argv, t):
        v = _iter_of(it, argv[0])
        return A.V_int(len(v[1]) - v[2][0])

    def s_same_iter(it, argv, t):
        return _iter_of(it, argv[0])

    def s_index(it, argv, t):
        # `list[i]` with a concrete position (what Iterator::position returned): a reference to that element; out of range panics
        v = it.deref_all(argv[0])
        i = it.deref_all(argv[1])
        if v is None or v[0] != "vec" or i is None or i[0] != "int":
            raise A.LeavesFragment("index(%s, %s)" % (v[0] if v else None, i[0] if i else None))
        if not 0 <= i[1] < len(v[1]):
            raise A.LeavesFragment("index %d out of range of a list of %d: the code panics" % (i[1], len(v[1])))
        return A.V_ref(A.Cell(v[1][i[1]]))

    def s_get_at(it, argv, t):
        # slice::get / Vec::get with a concrete position
        v = it.deref_all(argv[0])
        i = it.deref_all(argv[1])
        if v is None or v[0] != "vec" or i is None or i[0] != "int":
            raise A.LeavesFragment("get(%s, %s)" % (v[0] if v else None, i[0] if i else None))
        return A.V_some(A.V_ref(A.Cell(v[1][i[1]]))) if 0 <= i[1] < len(v[1]) else A.V_none()

    def s_first(it, argv, t):
        v = it.deref_all(argv[0])
        if v is None or v[0] != "vec":
            raise A.LeavesFragment("first() of a non-list")
        return A.V_some(A.V_ref(A.Cell(v[1][0]))) if v[1] else A.V_none()

    def s_as_slice(it, argv, t):
        v = it.deref_all(argv[0])
        if v is None or v[0] != "vec":
            raise A.LeavesFragment("as_slice() of a non-list")
        return argv[0]

    summ = {
        "std::iter::Iterator::find": s_find, "std::iter::Iterator::position": s_position, "std::iter::Iterator::any": s_any, "std::iter::Iterator::all": s_all,
        "std::iter::Iterator::filter": s_filter, "std::iter::Iterator::count": s_count, "std::iter::Iterator::by_ref": s_same_iter,
        "std::iter::Iterator::peekable": s_same_iter, "std::iter::Iterator::fuse": s_same_iter,
        "std::vec::Vec::<T, A>::len": s_len, "std::vec::Vec::<T, A>::is_empty": s_is_empty,
        "core::slice::<impl [T]>::len": s_len, "core::slice::<impl [T]>::is_empty": s_is_empty,
        "std::ops::Index::index": s_index, "core::slice::<impl [T]>::get": s_get_at, "core::slice::<impl [T]>::first": s_first,
        "std::vec::Vec::<T, A>::as_slice": s_as_slice,
        "std::iter::IntoIterator::into_iter": s_into_iter, "core::slice::<impl [T]>::iter": s_into_iter, "std::vec::Vec::<T, A>::iter": s_into_iter,
        "std::iter::Iterator::next": s_next,
        "std::collections::HashMap::<K, V, S, A>::contains_key": s_contains, "std::collections::HashMap::<K, V, S, A>::get": s_get,
        "std::collections::BTreeMap::<K, V, A>::contains_key": s_contains, "std::collections::BTreeMap::<K, V, A>::get": s_get,
    }
    opaque = [r"^core::fmt::", r"^std::fmt::", r"^std::string::ToString::to_string$", r"^std::convert::From::from$", r"^std::convert::Into::into$", r"^std::borrow::ToOwned::to_owned$",
              r"^alloc::fmt::format$", r"^std::string::String::"]
    import itertools
    n_cells = 0
    for visible in (True, False):
        for policy in pol:
            for allow in (True, False):
                for n in range(0, 4):
                    for member in itertools.product((True, False), repeat=n):
                        tags = ["t%d" % i for i in range(n)]
                        known = set(tg for tg, m in zip(tags, member) if m)
                        key = "visible=%s policy=%s tags=%d allow_other=%s configured=%s" % (visible, policy, n, allow, "".join("y" if m else "n" for m in member) or "-")
                        want = _tags_spec(visible, policy, tags, allow, known)
                        try:
                            it = A.Interp(ctx.ds, {}, summaries=summ, opaque_callees=opaque)
                            tc, _ = struct("api_description::TagConfig", {
                                "allow_other_tags": A.V_bool(allow),
                                "policy": A.V_enum("api_description::EndpointTagPolicy", pol.index(policy), policy, []),
                                "tags": ("map", known)})
                            sv, _ = struct("api_description::ApiDescription", {"tag_config": tc})
                            ev, _ = struct("api_description::ApiEndpoint", {"visible": A.V_bool(visible), "tags": ("vec", [("tag", x) for x in tags])})
                            got = A.strip(it.call_fn(vt, [A.V_ref(A.Cell(sv)), A.V_ref(A.Cell(ev))]))
                            verdict = got[1] if got and got[0] == "enum" and got[1] in ("Ok", "Err") else repr(got)
                            ctx.check(R, key, verdict == want, "code=%s spec=%s%s" % (verdict, want, "" if verdict == want else
                                                                                     (": a registration violating the tag policy is accepted" if want == "Err" else ": a conforming registration is refused")), vt)
                        except A.LeavesFragment as e:
                            ctx.check(R, key, False, "interpreter aborted: %s" % e, vt)
                        n_cells += 1
    ctx.notes["validate_tags_cells"] = n_cells
    ctx.assume("invisible endpoints (visible = false) are exempt from the tag policy, as documented at validate_tags; tag counts above 3 behave like 3 (the code only compares the count with 0 and 1)")
    # the count is compared only with small constants (justifies the 0..3 representatives)
    consts = set()
    for bb, i, st in vt.stmts():
        if st["rv"]["rv"] == "binop":
            for o in (st["rv"]["a"], st["rv"]["b"]):
                if o.get("k") == "const" and o.get("val") and "int" in o["val"]:
                    consts.add(o["val"]["int"])
    for bb, t in vt.switches():
        if "usize" in vt.local_ty(t["discr"]["pl"]["l"]) or t["discr"]["pl"]["p"]:
            for v, _b in t["targets"]:
                consts.add(v)
    ctx.check(R, "count-compared-with-small-constants-only", all(c <= 2 for c in consts), "integer constants the tag count is compared with: %s (representatives 0..3 cover every outcome)" % sorted(consts), vt)


def r8_macro_tag_config_defaults(ctx):
    """Added after adversary change C02-N (the proc-macro's mirror of TagConfig, `ApiTagConfig`, got `#[serde(default = "..")]` with a helper
    returning true for `allow_other_tags`: an `#[api_description { tag_config = { tags = {..} } }]` that omits the flag then accepted
    endpoints with tags outside the declared list, which the tag policy refuses): a `tag_config` that does not say `allow_other_tags`
    means `false` -- the parser of the macro argument fills a missing flag from `Default` (or `missing_field`), not from a helper of its own."""
    R = ctx.rule("C02.R8", "the api_description macro parses `tag_config` with the documented defaults: a missing `allow_other_tags` is bool's default (false); no crate-local default function is consulted", floor=1)
    ep = ctx.ep
    vis = [f for k, f in ep.F.items() if "ApiTagConfig" in k and "Deserialize" in k and re.search(r"::visit_(map|seq)$", k)]
    if not vis:
        ctx.lost(R, "the Deserialize visitors of dropshot_endpoint's ApiTagConfig")
        return
    for f in vis:
        # (a crate-local helper the rules do not know is inlined by the engine: it shows in the list of inlined bodies)
        local = sorted(set(t["callee"] for b, t in f.live_calls() if re.search(r"^api_trait::(?!_::)", t.get("callee") or "")) |
                       set(x for x in (f.raw.get("inlined") or []) if re.search(r"^api_trait::(?!_::)", x) and "{closure" not in x))
        ctx.check(R, "no-custom-default:%s" % f.id.rsplit("::", 1)[-1], not local, "crate-local functions consulted while parsing tag_config: %s" % (local or "none"), f)


def r7_versioned_routes_refused_on_unversioned_server(ctx):
    """`whenever registration succeeds no request can match two endpoints`: on a server without a version policy every request matches every
    version range, so two endpoints that differ only in their ranges are ambiguous there -- the router remembers (stickily) that it holds a
    version-restricted endpoint and such a server refuses to start.  This is C01.R7, re-evaluated here (adversary change C02-K: the flag
    became a plain assignment, so an unrestricted endpoint registered last cleared it)."""
    from . import c01
    from .lib_c01 import Renamed
    c01.r7_versioned_routes_need_versioned_server(Renamed(ctx, "C02.R7", "a router holding any version-restricted endpoint says so, whatever was registered after it, and an unversioned server refuses it"))


RULES = [("C02.R8", r8_macro_tag_config_defaults), ("C02.R7", r7_versioned_routes_refused_on_unversioned_server), ("C02.R1", r1_validation_before_insert), ("C02.R2", r2_conflict_table), ("C02.R3", r3_shape), ("C02.R4", r4_version_conflicts), ("C02.R4E2", r4e2_overlap_table),
         ("C02.R5", r5_parameter_rules), ("C02.R5b", r5b_scalar_check_is_total), ("C02.R6", r6_tag_policy)]

RT = "dropshot/src/router.rs"
AD = "dropshot/src/api_description.rs"
TU = "dropshot/src/type_util.rs"

_VARREST_PANIC_ARM = ('                        HttpRouterEdges::VariableRest(varname, _) => panic!(\n'
                      '                            "URI path \\"{}\\": attempted to register route for \\\n'
                      '                             variable path segment (variable name: \\"{}\\") \\\n'
                      '                             when a route already exists for the remainder of \\\n'
                      '                             the path as {}",\n'
                      '                            path, new_varname, varname,\n'
                      '                        ),\n')
_CONTAINS_PANIC = ('    if varnames.contains(new_varname) {\n'
                   '        panic!(\n'
                   '            "URI path \\"{}\\": variable name \\"{}\\" is used more than once",\n'
                   '            path, new_varname\n'
                   '        );\n'
                   '    }\n')

_VNP_DISPATCH = ('            match &param.metadata {\n'
                 '                ApiEndpointParameterMetadata::Path(ref name) => {\n'
                 '                    match path_segments.get(name) {\n'
                 '                        Some(SegmentOrWildcard::Segment) => {\n'
                 '                            type_is_scalar(\n'
                 '                                &e.operation_id,\n'
                 '                                name,\n'
                 '                                schema,\n'
                 '                                dependencies,\n'
                 '                            )?;\n'
                 '                        }\n'
                 '                        Some(SegmentOrWildcard::Wildcard) => {\n'
                 '                            type_is_string_enum(\n'
                 '                                &e.operation_id,\n'
                 '                                name,\n'
                 '                                schema,\n'
                 '                                dependencies,\n'
                 '                            )?;\n'
                 '                        }\n'
                 '                        None => {\n'
                 '                            panic!("all path variables should be accounted for")\n'
                 '                        }\n'
                 '                    }\n'
                 '                }\n'
                 '                ApiEndpointParameterMetadata::Query(ref name) => {\n'
                 '                    if path_segments.contains_key(name) {\n'
                 '                        return Err(format!(\n'
                 '                            "the parameter \'{}\' is specified for both query \\\n'
                 '                             and path parameters",\n'
                 '                            name\n'
                 '                        ));\n'
                 '                    }\n'
                 '                    type_is_scalar(\n'
                 '                        &e.operation_id,\n'
                 '                        name,\n'
                 '                        schema,\n'
                 '                        dependencies,\n'
                 '                    )?;\n'
                 '                }\n'
                 '                _ => (),\n'
                 '            }\n')


def _flat_dispatch(scalar_arms, clash_arm):
    """The same dispatch as one flat match on (metadata, map lookup)."""
    return ('            let name = match &param.metadata {\n'
            '                ApiEndpointParameterMetadata::Path(name) | ApiEndpointParameterMetadata::Query(name) => name,\n'
            '                _ => continue,\n'
            '            };\n'
            '            match (&param.metadata, path_segments.get(name)) {\n'
            '                ' + scalar_arms + ' => {\n'
            '                    type_is_scalar(&e.operation_id, name, schema, dependencies)?;\n'
            '                }\n'
            '                (ApiEndpointParameterMetadata::Path(_), Some(SegmentOrWildcard::Wildcard)) => {\n'
            '                    type_is_string_enum(&e.operation_id, name, schema, dependencies)?;\n'
            '                }\n'
            '                (ApiEndpointParameterMetadata::Path(_), None) => panic!("all path variables should be accounted for"),\n'
            + clash_arm +
            '                _ => (),\n'
            '            }\n')


_FLAT_CLASH_ARM = ('                (ApiEndpointParameterMetadata::Query(_), Some(_)) => {\n'
                   '                    return Err(format!("the parameter \'{}\' is specified for both query and path parameters", name));\n'
                   '                }\n')
_THREE_VALIDATIONS = '            s.validate_tags(&e)?;\n            s.validate_path_parameters(&e)?;\n            s.validate_named_parameters(&e)?;\n'

SELFTEST = [
    # ---------------------------------------------------------------- mutants
    {"name": "named-parameters-not-validated", "kind": "mutant", "expect": ["C02.R1"],
     "edits": [(AD, "            s.validate_named_parameters(&e)?;\n", "")],
     "why": "non-scalar path/query parameters and path/query name clashes are registered (DESIGN Appendix B)"},
    {"name": "repeated-variable-name-accepted", "kind": "mutant", "expect": ["C02.R2"],
     "edits": [(RT, _CONTAINS_PANIC, "    let _ = path;\n")],
     "why": "a template using one variable name twice is accepted (DESIGN Appendix B: insert_var without the contains check)"},
    {"name": "exactly-one-accepts-zero-tags", "kind": "mutant", "expect": ["C02.R6"],
     "edits": [(AD, "(EndpointTagPolicy::ExactlyOne, n) if n != 1 =>", "(EndpointTagPolicy::ExactlyOne, n) if n > 1 =>")],
     "why": "an endpoint with no tag passes the ExactlyOne policy (DESIGN Appendix B)"},
    {"name": "segments-after-wildcard-accepted", "kind": "mutant", "expect": ["C02.R2"],
     "edits": [(RT, "if all_segments.next().is_some() {", "if false {")],
     "why": "a template with segments after the wildcard is accepted; the trailing part can never match (DESIGN Appendix B)"},
    {"name": "variable-on-wildcard-edge-accepted", "kind": "mutant", "expect": ["C02.R2"],
     "edits": [(RT, _VARREST_PANIC_ARM, "                        HttpRouterEdges::VariableRest(_, ref mut node) => node,\n")],
     "why": "a single-segment variable is registered below an existing wildcard edge: two kinds of segment at one position"},
    {"name": "different-variable-name-accepted", "kind": "mutant", "expect": ["C02.R2"],
     "edits": [(RT, "if *new_varname != *varname {\n                                // Don't allow people", "if false {\n                                // Don't allow people")],
     "why": "two differently named variables share a position; the second endpoint's path parameter is never bound"},
    {"name": "only-identical-ranges-conflict", "kind": "mutant", "expect": ["C02.R4"],
     "edits": [(RT, "if handler.versions.overlaps_with(&endpoint.versions) {", "if handler.versions == endpoint.versions {")],
     "why": "overlapping but different version ranges on one method and path are both accepted"},
    {"name": "overlap-table-misses-contained-range", "kind": "mutant", "expect": ["C02.R4E2"],
     "edits": [(AD, ") => earliest <= range_earliest || r.matches(Some(&earliest)),\n            (\n                r @ ApiEndpointVersions::FromUntil",
                ") => r.matches(Some(&earliest)),\n            (\n                r @ ApiEndpointVersions::FromUntil")],
     "why": "From(A) and FromUntil(e,u) with A < e share every version of [e,u) but are reported disjoint (same class as the repaired defect F3)"},
    {"name": "pre-fix-F3-overlap", "kind": "mutant", "expect": ["C02.R4E2"], "edits": PRE_FIX_F3_EDITS,
     "why": "the repaired defect F3: overlaps_with(From(A), FromUntil(A,A)) = false although both contain A, so both endpoints register"},
    {"name": "wildcard-parameter-checked-as-scalar", "kind": "mutant", "expect": ["C02.R5"],
     "edits": [(AD, "                        Some(SegmentOrWildcard::Wildcard) => {\n                            type_is_string_enum(",
                "                        Some(SegmentOrWildcard::Wildcard) => {\n                            type_is_scalar(")],
     "why": "a scalar-typed parameter is accepted for a wildcard segment (and the required string list refused)"},
    {"name": "query-path-name-clash-accepted", "kind": "mutant", "expect": ["C02.R5"],
     "edits": [(AD, "if path_segments.contains_key(name) {", "if false {")],
     "why": "one name used as both path and query parameter is accepted"},
    {"name": "extra-path-parameters-accepted", "kind": "mutant", "expect": ["C02.R5"],
     "edits": [(AD, "if path != vars {", "if !path.is_subset(&vars) {")],
     "why": "handler path parameters that do not occur in the template are accepted"},
    {"name": "unknown-tags-check-inverted", "kind": "mutant", "expect": ["C02.R6"],
     "edits": [(AD, "if !self.tag_config.allow_other_tags {", "if self.tag_config.allow_other_tags {")],
     "why": "unconfigured tags are accepted exactly when the policy forbids them"},
    # ---- breaking changes written in the alternative idioms the rules accept
    {"name": "conflict-search-skips-first", "kind": "mutant", "expect": ["C02.R4"],
     "edits": [(RT, '        for handler in existing_handlers.iter() {\n            if handler.versions.overlaps_with(&endpoint.versions) {\n                if handler.versions == endpoint.versions {', "        if let Some(handler) = existing_handlers.iter().skip(1).find(|h| h.versions.overlaps_with(&endpoint.versions)) {\n            {\n                if handler.versions == endpoint.versions {")],
     "why": "the conflict test written as iter().find(..), but over all handlers except the first registered one"},
    {"name": "conflict-search-inverted", "kind": "mutant", "expect": ["C02.R4"],
     "edits": [(RT, '        for handler in existing_handlers.iter() {\n            if handler.versions.overlaps_with(&endpoint.versions) {\n                if handler.versions == endpoint.versions {', "        if let Some(handler) = existing_handlers.iter().find(|h| !h.versions.overlaps_with(&endpoint.versions)) {\n            {\n                if handler.versions == endpoint.versions {")],
     "why": "the conflict test written as iter().find(..) with the predicate negated: disjoint ranges are refused, overlapping ones accepted"},
    {"name": "unknown-tags-search-inverted", "kind": "mutant", "expect": ["C02.R6"],
     "edits": [(AD, '            for tag in &e.tags {\n                if !self.tag_config.tags.contains_key(tag) {\n                    return Err(format!("Invalid tag: {}", tag));\n                }\n            }\n', "            if let Some(tag) = e.tags.iter().find(|t| self.tag_config.tags.contains_key(*t)) {\n                return Err(format!(\"Invalid tag: {}\", tag));\n            }\n")],
     "why": "the unknown-tag scan written with Iterator::find, but reporting the first configured tag instead of the first unknown one"},
    {"name": "validation-result-ignored", "kind": "mutant", "expect": ["C02.R1"],
     "edits": [(AD, "            s.validate_path_parameters(&e)?;\n", "            if let Err(_unused) = s.validate_path_parameters(&e) {}\n")],
     "why": "the validation is still called but its Err no longer stops the registration"},
    {"name": 'validations-helper-ignores-one-result', "kind": "mutant", "expect": ['C02.R1'],
     "edits": [(AD, '            s.validate_tags(&e)?;\n            s.validate_path_parameters(&e)?;\n            s.validate_named_parameters(&e)?;\n', '            s.validate_endpoint(&e)?;\n'),
               (AD, '    /// Validate that the tags conform to the tags policy.\n', '    fn validate_endpoint(&self, e: &ApiEndpoint<Context>) -> Result<(), String> {\n        self.validate_tags(e)?;\n        let _ = self.validate_path_parameters(e);\n        self.validate_named_parameters(e)\n    }\n\n    /// Validate that the tags conform to the tags policy.\n')],
     "why": 'the three validations are moved into one helper, which discards the result of validate_path_parameters'},
    {"name": 'template-set-loop-misses-wildcard', "kind": "mutant", "expect": ['C02.R5'],
     "edits": [(AD, '        let path = route_path_to_segments(&e.path)\n            .iter()\n            .filter_map(|segment| match PathSegment::from(segment) {\n                PathSegment::VarnameSegment(v) => Some(v),\n                PathSegment::VarnameWildcard(v) => Some(v),\n                PathSegment::Literal(_) => None,\n            })\n            .collect::<HashSet<_>>();\n', '        let mut path = HashSet::new();\n        for segment in route_path_to_segments(&e.path).iter() {\n            match PathSegment::from(segment) {\n                PathSegment::VarnameSegment(v) => {\n                    path.insert(v);\n                }\n                PathSegment::VarnameWildcard(_) | PathSegment::Literal(_) => {}\n            }\n        }\n')],
     "why": "the template's variable set is built by a loop that leaves out wildcard variables"},
    {"name": 'kind-map-loop-swaps-kinds', "kind": "mutant", "expect": ['C02.R5'],
     "edits": [(AD, '        let path_segments = route_path_to_segments(&e.path)\n            .iter()\n            .filter_map(|segment| {\n                let seg = PathSegment::from(segment);\n                match seg {\n                    PathSegment::VarnameSegment(v) => {\n                        Some((v, SegmentOrWildcard::Segment))\n                    }\n                    PathSegment::VarnameWildcard(v) => {\n                        Some((v, SegmentOrWildcard::Wildcard))\n                    }\n                    PathSegment::Literal(_) => None,\n                }\n            })\n            .collect::<BTreeMap<_, _>>();\n', '        let mut path_segments = BTreeMap::new();\n        for segment in route_path_to_segments(&e.path).iter() {\n            match PathSegment::from(segment) {\n                PathSegment::VarnameSegment(v) => {\n                    path_segments.insert(v, SegmentOrWildcard::Wildcard);\n                }\n                PathSegment::VarnameWildcard(v) => {\n                    path_segments.insert(v, SegmentOrWildcard::Segment);\n                }\n                PathSegment::Literal(_) => {}\n            }\n        }\n')],
     "why": 'the name -> kind map is built by a loop that records Segment for wildcards and Wildcard for segments'},
    {"name": 'scalar-check-first-alternative-only', "kind": "mutant", "expect": ['C02.R5b'],
     "edits": [(TU, '        } if subs.len() == 1 => type_is_scalar_common(\n            operation_id,\n            name,\n            subs.first().unwrap(),\n            dependencies,\n            type_check,\n        )\n        .is_ok(),\n', '        } => subs.first().is_some_and(|sub| {\n            type_is_scalar_common(operation_id, name, sub, dependencies, type_check).is_ok()\n        }),\n')],
     "why": 'adversary round 2 (C02-C): `if subs.len() == 1 => check(subs.first().unwrap())` tidied into `subs.first().is_some_and(|s| check(s))`: only the first allOf/anyOf alternative is checked, so anyOf[scalar, array] passes as scalar'},
    {"name": 'scalar-check-oneof-any', "kind": "mutant", "expect": ['C02.R5b'],
     "edits": [(TU, '        } => subs.iter().all(|schema| {', '        } => subs.iter().any(|schema| {')],
     "why": 'a oneOf schema passes as scalar as soon as ONE alternative is scalar'},
    {"name": 'scalar-check-len-at-least-one', "kind": "mutant", "expect": ['C02.R5b'],
     "edits": [(TU, '        } if subs.len() == 1 => type_is_scalar_common(', '        } if subs.len() >= 1 => type_is_scalar_common(')],
     "why": 'the single-alternative requirement weakened to `len >= 1`: further alternatives are never looked at'},
    {"name": 'scalar-check-ignores-not-field', "kind": "mutant", "expect": ['C02.R5b'],
     "edits": [(TU, '            all_of: Some(subs),\n            any_of: None,\n            one_of: None,\n            not: None,', '            all_of: Some(subs),\n            any_of: None,\n            one_of: None,\n            not: _,')],
     "why": 'an allOf schema that also carries a `not` subschema is treated like a plain allOf'},
    {"name": 'scalar-check-oneof-loop-skips-failures', "kind": "mutant", "expect": ['C02.R5b'],
     "edits": [(TU, '        } => subs.iter().all(|schema| {\n            type_is_scalar_common(\n                operation_id,\n                name,\n                schema,\n                dependencies,\n                type_check,\n            )\n            .is_ok()\n        }),\n', '        } => {\n            let mut seen_scalar = false;\n            for schema in subs {\n                if type_is_scalar_common(operation_id, name, schema, dependencies, type_check).is_err() {\n                    continue;\n                }\n                seen_scalar = true;\n            }\n            seen_scalar\n        }\n')],
     "why": 'oneOf written as a loop that skips failing alternatives and answers true if any passed'},
    {"name": 'scalar-check-other-type-predicate', "kind": "mutant", "expect": ['C02.R5b'],
     "edits": [(TU, '                schema,\n                dependencies,\n                type_check,\n            )\n            .is_ok()\n        }),', '                schema,\n                dependencies,\n                |_| true,\n            )\n            .is_ok()\n        }),')],
     "why": 'the recursive check of oneOf alternatives uses a predicate that accepts every instance type'},
    {"name": 'flat-dispatch-accepts-query-clash', "kind": "mutant", "expect": ['C02.R5'],
     "edits": [(AD, _VNP_DISPATCH, _flat_dispatch('(ApiEndpointParameterMetadata::Path(_), Some(SegmentOrWildcard::Segment)) | (ApiEndpointParameterMetadata::Query(_), _)', ''))],
     "why": 'the dispatch written as one flat match on (metadata, path_segments.get(name)) in which the Query arm no longer looks at the lookup: a query parameter named like a path variable is accepted'},
    {"name": 'flat-dispatch-wildcard-falls-into-scalar-arm', "kind": "mutant", "expect": ['C02.R5'],
     "edits": [(AD, _VNP_DISPATCH, _flat_dispatch('(ApiEndpointParameterMetadata::Path(_), Some(_)) | (ApiEndpointParameterMetadata::Query(_), None)', _FLAT_CLASH_ARM))],
     "why": 'flat match whose first arm takes every Path parameter that is a template variable, so wildcard parameters are checked as scalars (the string-enum arm is dead)'},
    {"name": 'validation-chain-recovers-from-error', "kind": "mutant", "expect": ['C02.R1'],
     "edits": [(AD, _THREE_VALIDATIONS, '            s.validate_tags(&e)\n                .or_else(|_| s.validate_path_parameters(&e))\n                .and_then(|()| s.validate_named_parameters(&e))?;\n')],
     "why": 'the three validations chained with combinators, but or_else instead of and_then: an endpoint violating the tag policy is registered when its path parameters are fine'},
    # ---- breaking changes written in the round-3 idioms (a benign refactoring of the corpus + one edit that breaks the property in the refactored text)
    {"name": 'enumerate-walk-wildcard-off-by-one', "kind": "mutant", "expect": ['C02.R2'], "patch": "benign/C02-R10/patch.diff",
     "edits": [(RT, "if index + 1 < nsegments {", "if index + 2 < nsegments {")],
     "why": 'the trie walk as `for (index, seg) in segments.into_iter().enumerate()` with per-kind child methods; the "segments follow the wildcard" test is off by one, so one trailing segment after a wildcard is accepted'},
    {"name": 'enumerate-walk-wildcard-arm-accepted', "kind": "mutant", "expect": ['C02.R2'], "patch": "benign/C02-R10/patch.diff",
     "edits": [(RT, '            HttpRouterEdges::VariableRest(varname, _) => panic!(\n                "URI path \\"{}\\": attempted to register route for \\\n                 variable path segment (variable name: \\"{}\\") \\\n                 when a route already exists for the remainder of \\\n                 the path as {}",\n                path, new_varname, varname,\n            ),\n',
                '            HttpRouterEdges::VariableRest(_, child) => child,\n')],
     "why": 'in the extracted HttpRouterNode::variable_child an existing wildcard edge is descended into for a single-segment variable'},
    {"name": 'walk-helper-last-segment-test-always-true', "kind": "mutant", "expect": ['C02.R2'], "patch": "benign/C01-R10/patch.diff",
     "edits": [(RT, "let is_last_segment = index + 1 == segment_count;", "let is_last_segment = index + 1 <= segment_count;")],
     "why": 'the walk extracted into node_for_route_mut (too large to be inlined); its named flag `is_last_segment` is true for every position, so segments after a wildcard are accepted'},
    {"name": 'walk-helper-template-is-not-the-endpoint-path', "kind": "mutant", "expect": ['C02.R2'], "patch": "benign/C01-R10/patch.diff",
     "edits": [(RT, "let node = Self::node_for_route_mut(&mut self.root, path.as_str());", "let node = Self::node_for_route_mut(&mut self.root, endpoint.operation_id.as_str());")],
     "why": 'insert hands the walk helper another string than the endpoint path as the template'},
    {"name": 'conflict-helper-skips-first-handler', "kind": "mutant", "expect": ['C02.R4'], "patch": "benign/C05-R10/patch.diff",
     "edits": [(RT, "    for handler in registered {\n", "    for handler in registered.iter().skip(1) {\n")],
     "why": 'the conflict loop extracted into assert_no_version_conflict(&[ApiEndpoint], ..) tests all registered handlers except the first'},
    {"name": 'conflict-helper-guard-inverted', "kind": "mutant", "expect": ['C02.R4'], "patch": "benign/C05-R10/patch.diff",
     "edits": [(RT, "        if !handler.versions.overlaps_with(new_versions) {\n            continue;", "        if handler.versions.overlaps_with(new_versions) {\n            continue;")],
     "why": 'guard-clause form of the conflict loop with the guard inverted: overlapping handlers are skipped, disjoint ones refused'},
    {"name": 'per-parameter-fn-accepts-query-clash', "kind": "mutant", "expect": ['C02.R5'], "patch": "benign/C02-R11/patch.diff",
     "edits": [(AD, "        if path_segments.contains_key(name) {\n            return Err(format!(", "        if false {\n            return Err(format!(")],
     "why": 'the loop body as a free fn driven by try_for_each; the query/path name clash is no longer refused'},
    {"name": 'per-parameter-fn-wildcard-checked-as-scalar', "kind": "mutant", "expect": ['C02.R5'], "patch": "benign/C02-R11/patch.diff",
     "edits": [(AD, "                type_is_string_enum(operation_id, name, schema, dependencies)", "                type_is_scalar(operation_id, name, schema, dependencies)")],
     "why": 'in the try_for_each form the type check whose result is the closure\'s verdict is the scalar check for wildcard variables'},
    {"name": 'per-parameter-results-discarded', "kind": "mutant", "expect": ['C02.R5'], "patch": "benign/C02-R11/patch.diff",
     "edits": [(AD, "        e.parameters.iter().try_for_each(|param| {\n            validate_named_parameter(&e.operation_id, param, &path_segments)\n        })\n",
                "        e.parameters.iter().for_each(|param| {\n            let _ = validate_named_parameter(&e.operation_id, param, &path_segments);\n        });\n        Ok(())\n")],
     "why": 'try_for_each replaced by for_each: every parameter is still checked but the verdicts are thrown away'},
    {"name": 'shared-template-parser-drops-wildcards', "kind": "mutant", "expect": ['C02.R5'], "patch": "benign/C02-R11/patch.diff",
     "edits": [(AD, "            PathSegment::VarnameWildcard(v) => {\n                variables.push((v, PathVariableKind::Wildcard))\n            }\n", "            PathSegment::VarnameWildcard(_) => (),\n")],
     "why": 'the shared path_variables() helper (loop pushing (name, kind) pairs, collected into the set and the map) leaves out wildcard variables'},
    {"name": 'shared-template-iterator-one-kind-only', "kind": "mutant", "expect": ['C02.R5'], "patch": "benign/C01-R11/patch.diff",
     "edits": [(AD, "            PathSegment::VarnameWildcard(v) => {\n                Some((v, SegmentOrWildcard::Wildcard))\n            }\n", "            PathSegment::VarnameWildcard(v) => {\n                Some((v, SegmentOrWildcard::Segment))\n            }\n")],
     "why": 'the shared route_path_variables() iterator records wildcard variables as single-segment ones, so their parameters are checked as scalars'},
    {"name": 'tag-policy-method-exactly-one-accepts-zero', "kind": "mutant", "expect": ['C02.R6'], "patch": "benign/C02-R12/patch.diff",
     "edits": [(AD, '(ntags != 1).then_some("Exactly one tag is required")', '(ntags > 1).then_some("Exactly one tag is required")')],
     "why": 'the policy as EndpointTagPolicy::violated_by with bool::then_some; ExactlyOne accepts an endpoint without tags'},
    {"name": 'unknown-tag-position-search-inverted', "kind": "mutant", "expect": ['C02.R6'], "patch": "benign/C02-R12/patch.diff",
     "edits": [(AD, "e.tags.iter().position(|tag| !known_tags.contains_key(tag))", "e.tags.iter().position(|tag| known_tags.contains_key(tag))")],
     "why": 'the unknown-tag scan as Iterator::position + map_or, reporting the first configured tag'},
    # ---------------------------------------------------------------- benign variants
    {"name": 'benign-walk-over-enumerated-segments', "kind": "benign",
     "edits": [(RT, "        let all_segments = route_path_to_segments(path.as_str());\n\n        let mut all_segments = all_segments.into_iter();\n",
                "        let all_segments = route_path_to_segments(path.as_str());\n        let nsegments = all_segments.len();\n"),
               (RT, "while let Some(raw_segment) = all_segments.next() {", "for (index, raw_segment) in all_segments.into_iter().enumerate() {"),
               (RT, "if all_segments.next().is_some() {", "let is_last = index + 1 == nsegments;\n                    if !is_last {")],
     "why": 'behaviour-preserving: the manually advanced iterator with a look-ahead next() written as a for loop over enumerate(), the "segments follow the wildcard" test as the position of the element against the number of segments (named flag, negated)'},
    {"name": 'benign-conflict-loop-over-slice', "kind": "benign",
     "edits": [(RT, "for handler in existing_handlers.iter() {", "for handler in existing_handlers.as_slice() {")],
     "why": 'behaviour-preserving: the handler list iterated through Vec::as_slice'},
    {"name": 'benign-template-set-through-pairs', "kind": "benign",
     "edits": [(AD, "                PathSegment::VarnameSegment(v) => Some(v),\n                PathSegment::VarnameWildcard(v) => Some(v),\n                PathSegment::Literal(_) => None,\n            })\n            .collect::<HashSet<_>>();",
                "                PathSegment::VarnameSegment(v) => Some((v, false)),\n                PathSegment::VarnameWildcard(v) => Some((v, true)),\n                PathSegment::Literal(_) => None,\n            })\n            .map(|(name, _is_wildcard)| name)\n            .collect::<HashSet<_>>();")],
     "why": 'behaviour-preserving: the filter_map yields (name, kind) pairs and a map stage projects the name before the collect'},
    {"name": 'benign-unknown-tag-scan-as-position', "kind": "benign",
     "edits": [(AD, '            for tag in &e.tags {\n                if !self.tag_config.tags.contains_key(tag) {\n                    return Err(format!("Invalid tag: {}", tag));\n                }\n            }\n',
                '            let first_unknown = e.tags.iter().position(|tag| !self.tag_config.tags.contains_key(tag));\n            return first_unknown.map_or(Ok(()), |at| Err(format!("Invalid tag: {}", e.tags[at])));\n')],
     "why": 'behaviour-preserving: the for loop with early return written as Iterator::position + Option::map_or + indexing'},
    {"name": "benign-negated-equality", "kind": "benign",
     "edits": [(RT, "if *new_varname != *varname {\n                                // Don't allow people", "if !(*new_varname == *varname) {\n                                // Don't allow people")],
     "why": "behaviour-preserving: a != b written as !(a == b)"},
    {"name": "benign-set-insert-as-test", "kind": "benign",
     "edits": [(RT, "    if varnames.contains(new_varname) {\n        panic!(", "    if !varnames.insert(new_varname.clone()) {\n        panic!("),
               (RT, "    varnames.insert(new_varname.clone());\n}", "}")],
     "why": "behaviour-preserving: BTreeSet::insert's return value used as the duplicate test"},
    {"name": "benign-tag-count-guard-rewritten", "kind": "benign",
     "edits": [(AD, "(EndpointTagPolicy::ExactlyOne, n) if n != 1 =>", "(EndpointTagPolicy::ExactlyOne, n) if n == 0 || n > 1 =>")],
     "why": "behaviour-preserving: n != 1 written as n == 0 || n > 1"},
    {"name": "benign-validations-reordered", "kind": "benign",
     "edits": [(AD, "s.validate_tags(&e)?;\n            s.validate_path_parameters(&e)?;", "s.validate_path_parameters(&e)?;\n            s.validate_tags(&e)?;")],
     "why": "behaviour-preserving for acceptance: independent validations in another order (only which error is reported first changes)"},
    {"name": "benign-commuted-set-comparison", "kind": "benign",
     "edits": [(AD, "if path != vars {", "if vars != path {")],
     "why": "behaviour-preserving: commuted comparison"},
    {"name": "benign-iterate-by-reference", "kind": "benign",
     "edits": [(RT, "for handler in existing_handlers.iter() {", "for handler in &*existing_handlers {")],
     "why": "behaviour-preserving: IntoIterator for &Vec instead of .iter()"},
    {"name": "benign-register-returns-result-directly", "kind": "benign",
     "edits": [(AD, "            message: error,\n        })?;\n\n        Ok(())\n", "            message: error,\n        })\n")],
     "why": "behaviour-preserving: `x?; Ok(())` on a Result<(), E> written as `x`"},
    {"name": "benign-visible-compared-with-false", "kind": "benign",
     "edits": [(AD, "if !e.visible {", "if e.visible == false {")],
     "why": "behaviour-preserving: !b written as b == false"},
    {"name": "benign-conflict-test-as-find", "kind": "benign",
     "edits": [(RT, '        for handler in existing_handlers.iter() {\n            if handler.versions.overlaps_with(&endpoint.versions) {\n                if handler.versions == endpoint.versions {', "        if let Some(handler) = existing_handlers.iter().find(|h| h.versions.overlaps_with(&endpoint.versions)) {\n            {\n                if handler.versions == endpoint.versions {")],
     "why": "behaviour-preserving: the loop that panics at the first overlapping handler written as iter().find(..) + if let"},
    {"name": "benign-conflict-test-as-position", "kind": "benign",
     "edits": [(RT, '        for handler in existing_handlers.iter() {\n            if handler.versions.overlaps_with(&endpoint.versions) {\n                if handler.versions == endpoint.versions {', "        if let Some(at) = existing_handlers.iter().position(|h| h.versions.overlaps_with(&endpoint.versions)) {\n            {\n                let handler = &existing_handlers[at];\n                if handler.versions == endpoint.versions {")],
     "why": "behaviour-preserving: the first overlapping handler located with iter().position(..)"},
    {"name": "benign-unknown-tag-scan-as-find", "kind": "benign",
     "edits": [(AD, '            for tag in &e.tags {\n                if !self.tag_config.tags.contains_key(tag) {\n                    return Err(format!("Invalid tag: {}", tag));\n                }\n            }\n', "            if let Some(tag) = e.tags.iter().find(|t| !self.tag_config.tags.contains_key(*t)) {\n                return Err(format!(\"Invalid tag: {}\", tag));\n            }\n")],
     "why": "behaviour-preserving: the for loop with early return written as Iterator::find"},
    {"name": "benign-variable-arms-merged", "kind": "benign",
     "edits": [(AD, "                PathSegment::VarnameSegment(v) => Some(v),\n                PathSegment::VarnameWildcard(v) => Some(v),\n",
                "                PathSegment::VarnameSegment(v) | PathSegment::VarnameWildcard(v) => Some(v),\n")],
     "why": "behaviour-preserving: two match arms with identical bodies merged into one or-pattern"},
    {"name": "benign-validation-error-by-match", "kind": "benign",
     "edits": [(AD, "            s.validate_tags(&e)?;\n", "            if let Err(message) = s.validate_tags(&e) {\n                return Err(message);\n            }\n")],
     "why": "behaviour-preserving: `?` on a Result<(), String> written as if-let + return"},
    {"name": 'benign-validations-in-one-helper', "kind": "benign",
     "edits": [(AD, '            s.validate_tags(&e)?;\n            s.validate_path_parameters(&e)?;\n            s.validate_named_parameters(&e)?;\n', '            s.validate_endpoint(&e)?;\n'),
               (AD, '    /// Validate that the tags conform to the tags policy.\n', '    fn validate_endpoint(&self, e: &ApiEndpoint<Context>) -> Result<(), String> {\n        self.validate_tags(e)?;\n        self.validate_path_parameters(e)?;\n        self.validate_named_parameters(e)\n    }\n\n    /// Validate that the tags conform to the tags policy.\n')],
     "why": 'behaviour-preserving: the three `validate_x(&e)?` calls extracted into one private helper called with `?`'},
    {"name": 'benign-template-set-built-by-loop', "kind": "benign",
     "edits": [(AD, '        let path = route_path_to_segments(&e.path)\n            .iter()\n            .filter_map(|segment| match PathSegment::from(segment) {\n                PathSegment::VarnameSegment(v) => Some(v),\n                PathSegment::VarnameWildcard(v) => Some(v),\n                PathSegment::Literal(_) => None,\n            })\n            .collect::<HashSet<_>>();\n', '        let mut path = HashSet::new();\n        for segment in route_path_to_segments(&e.path).iter() {\n            match PathSegment::from(segment) {\n                PathSegment::VarnameSegment(v) | PathSegment::VarnameWildcard(v) => {\n                    path.insert(v);\n                }\n                PathSegment::Literal(_) => {}\n            }\n        }\n')],
     "why": 'behaviour-preserving: filter_map(..).collect::<HashSet<_>>() written as a for loop inserting into a set (arms merged by an or-pattern)'},
    {"name": 'benign-kind-map-built-by-loop', "kind": "benign",
     "edits": [(AD, '        let path_segments = route_path_to_segments(&e.path)\n            .iter()\n            .filter_map(|segment| {\n                let seg = PathSegment::from(segment);\n                match seg {\n                    PathSegment::VarnameSegment(v) => {\n                        Some((v, SegmentOrWildcard::Segment))\n                    }\n                    PathSegment::VarnameWildcard(v) => {\n                        Some((v, SegmentOrWildcard::Wildcard))\n                    }\n                    PathSegment::Literal(_) => None,\n                }\n            })\n            .collect::<BTreeMap<_, _>>();\n', '        let mut path_segments = BTreeMap::new();\n        for segment in route_path_to_segments(&e.path).iter() {\n            match PathSegment::from(segment) {\n                PathSegment::VarnameSegment(v) => {\n                    path_segments.insert(v, SegmentOrWildcard::Segment);\n                }\n                PathSegment::VarnameWildcard(v) => {\n                    path_segments.insert(v, SegmentOrWildcard::Wildcard);\n                }\n                PathSegment::Literal(_) => {}\n            }\n        }\n')],
     "why": 'behaviour-preserving: the name -> kind BTreeMap built by a for loop with insert instead of filter_map + collect'},
    {"name": 'benign-edge-created-lazily', "kind": "benign",
     "edits": [(RT, '                    let edges = node.edges.get_or_insert(\n                        HttpRouterEdges::VariableSingle(\n                            new_varname.clone(),\n                            Box::new(HttpRouterNode::new()),\n                        ),\n                    );\n', '                    let edges = node.edges.get_or_insert_with(|| {\n                        HttpRouterEdges::VariableSingle(\n                            new_varname.clone(),\n                            Box::new(HttpRouterNode::new()),\n                        )\n                    });\n')],
     "why": 'behaviour-preserving: get_or_insert(value) written as get_or_insert_with(|| value)'},
    {"name": 'benign-type-check-error-by-if-let', "kind": "benign",
     "edits": [(AD, '                    type_is_scalar(\n                        &e.operation_id,\n                        name,\n                        schema,\n                        dependencies,\n                    )?;\n                }\n                _ => (),', '                    if let Err(message) = type_is_scalar(\n                        &e.operation_id,\n                        name,\n                        schema,\n                        dependencies,\n                    ) {\n                        return Err(message);\n                    }\n                }\n                _ => (),')],
     "why": 'behaviour-preserving: `type_is_scalar(..)?` written as if let Err(m) = .. { return Err(m) }'},
    {"name": 'benign-single-alternative-early-return', "kind": "benign",
     "edits": [(TU, '        } if subs.len() == 1 => type_is_scalar_common(\n            operation_id,\n            name,\n            subs.first().unwrap(),\n            dependencies,\n            type_check,\n        )\n        .is_ok(),\n', '        } => {\n            if subs.len() != 1 {\n                return false;\n            }\n            type_is_scalar_common(operation_id, name, &subs[0], dependencies, type_check).is_ok()\n        }\n')],
     "why": 'behaviour-preserving: the match guard `if subs.len() == 1` written as `if subs.len() != 1 { return false }` inside the arm'},
    {"name": 'benign-single-alternative-slice-pattern', "kind": "benign",
     "edits": [(TU, '        } if subs.len() == 1 => type_is_scalar_common(\n            operation_id,\n            name,\n            subs.first().unwrap(),\n            dependencies,\n            type_check,\n        )\n        .is_ok(),\n', '        } => match subs.as_slice() {\n            [only] => type_is_scalar_common(operation_id, name, only, dependencies, type_check).is_ok(),\n            _ => false,\n        },\n')],
     "why": 'behaviour-preserving: `len() == 1` + first().unwrap() written as the slice pattern `[only]`'},
    {"name": 'benign-oneof-as-loop', "kind": "benign",
     "edits": [(TU, '        } => subs.iter().all(|schema| {\n            type_is_scalar_common(\n                operation_id,\n                name,\n                schema,\n                dependencies,\n                type_check,\n            )\n            .is_ok()\n        }),\n', '        } => {\n            for schema in subs {\n                if type_is_scalar_common(operation_id, name, schema, dependencies, type_check).is_err() {\n                    return false;\n                }\n            }\n            true\n        }\n')],
     "why": 'behaviour-preserving: Iterator::all written as a for loop that returns false at the first failing alternative'},
    {"name": 'benign-single-alternative-flag-and', "kind": "benign",
     "edits": [(TU, '        } if subs.len() == 1 => type_is_scalar_common(\n            operation_id,\n            name,\n            subs.first().unwrap(),\n            dependencies,\n            type_check,\n        )\n        .is_ok(),\n', '        } => {\n            let single = subs.len() == 1;\n            single && type_is_scalar_common(operation_id, name, &subs[0], dependencies, type_check).is_ok()\n        }\n')],
     "why": 'behaviour-preserving: the guard bound to a named flag and combined with &&'},
    {"name": "benign-panic-in-helper", "kind": "benign",
     "edits": [(RT, _CONTAINS_PANIC, "    if varnames.contains(new_varname) {\n        duplicate_variable(path, new_varname);\n    }\n"),
               (RT, "/// Insert a variable into the set after checking for duplicates.",
                "fn duplicate_variable(path: &str, new_varname: &String) -> ! {\n    panic!(\n        \"URI path \\\"{}\\\": variable name \\\"{}\\\" is used more than once\",\n"
                "        path, new_varname\n    );\n}\n\n/// Insert a variable into the set after checking for duplicates.")],
     "why": "behaviour-preserving: the refusal extracted into a diverging helper function"},
    {"name": "benign-endpoint-rebound", "kind": "benign",
     "edits": [(AD, "            s.router.insert(e);", "            let validated = e;\n            s.router.insert(validated);")],
     "why": "behaviour-preserving: the validated endpoint moved through a local"},
    {"name": 'benign-validations-chained-with-and_then', "kind": "benign",
     "edits": [(AD, _THREE_VALIDATIONS, '            s.validate_tags(&e)\n                .and_then(|()| s.validate_path_parameters(&e))\n                .and_then(|()| s.validate_named_parameters(&e))?;\n')],
     "why": 'behaviour-preserving: three sequential `?` written as one and_then chain (decided on the normalised view, where and_then is the match it abbreviates)'},
    {"name": 'benign-parameter-dispatch-as-flat-tuple-match', "kind": "benign",
     "edits": [(AD, _VNP_DISPATCH, _flat_dispatch('(ApiEndpointParameterMetadata::Path(_), Some(SegmentOrWildcard::Segment)) | (ApiEndpointParameterMetadata::Query(_), None)', _FLAT_CLASH_ARM))],
     "why": 'behaviour-preserving: the nested match metadata { Path => match get(name) {..}, Query => if contains_key(name) .. } written as one flat match on the tuple '
            '(metadata, get(name)) with the two type_is_scalar arms merged by an or-pattern: the same cells, read off path conditions instead of the nesting of switches'},
    {"name": 'benign-query-clash-test-by-lookup', "kind": "benign",
     "edits": [(AD, "if path_segments.contains_key(name) {", "let clashes = path_segments.get(name).is_some();\n                    if clashes {")],
     "why": 'behaviour-preserving: contains_key(name) written as get(name).is_some() bound to a named flag'},
]


SELFTEST += [
    {"name": "vpp-equal-test-negated", "kind": "benign", "why": "behaviour-preserving: `if path != vars` written `if !(path == vars)`; the Ok is still reached only when the sets compared equal",
     "edits": [("dropshot/src/api_description.rs", "        if path != vars {", "        if !(path == vars) {")]},
    {"name": "vpp-early-ok-when-no-path-params", "kind": "mutant", "expect": ["C02.R5"], "why": "the comparison is skipped when the handler declares no path parameters: `/things/{id}` with a handler that ignores `id` is accepted",
     "edits": [("dropshot/src/api_description.rs", "        if path != vars {", "        if vars.is_empty() {\n            return Ok(());\n        }\n        if path != vars {")]},
]
