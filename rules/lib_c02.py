"""Helpers of rules/c02.py: path conditions over discriminant switches and boolean tests.

Nothing here looks at source text, line numbers or block numbers; everything is built on engine.Fn facts.

`region_states` is generic (a candidate for engine.py / lib.py): it is `Fn.bool_states_at` extended with facts read off
discriminant switches (`match`, `if let`, let-else, `?`), restricted to a region of the CFG (e.g. one iteration of a loop),
and with *semantic* fact dimensions chosen by the caller, so that `m.contains_key(k)`, `m.get(k).is_some()` and
`match m.get(k) { Some(..) .. None .. }` all establish the same fact, and a switch on a tuple `(a, b)` built in the
function is a switch on a and on b (lib_c01.access_path projects through tuples built in the function).
"""
from .lib import operand_local


def discr_edge_sets(fn, sbb, info):
    """For a switch on a discriminant: {successor block: frozenset(names of the variants that take this edge)}.
    The `otherwise` edge stands for every variant without an explicit target; successors that no variant takes
    (the `unreachable` otherwise of an exhaustive match) get the empty set."""
    out = {s: set() for s in fn.succ(sbb)}
    t = fn.blocks[sbb]["term"]
    every = set(out) | set(b for _v, b in t["targets"]) | {t["otherwise"]}
    for s in every:
        out.setdefault(s, set())
    for idx, name in info["variants"].items():
        out.setdefault(fn.switch_target(sbb, idx), set()).add(name)
    return {s: frozenset(v) for s, v in out.items()}


def region_states(fn, start, stops=(), switch_facts=None, atom_facts=None, kill=None, max_states=60000):
    """Path-sensitive facts on every path from block `start` to the blocks in `stops` (not expanded further) and to the
    ends of the function (return, panic).

    switch_facts : {switch_bb: [(dim, {successor bb: frozenset(values the dimension can have on this edge)})]}
                   successors not listed for a dimension are unconstrained.
    atom_facts   : {call_bb: (dim, value when the call answers true, value when it answers false)} for bool-returning calls;
                   the value is followed through copies, `!`, named flags, `a || b` / `a && b` lowering, `match flag`.
    kill         : {bb: [dims]} dimensions whose facts are forgotten when block bb is executed (a call that is the
                   subject of the dimension and may run again inside an inner loop).

    Boolean constants assigned to flags (`matches!(..)`, `let mut ok = false; .. ok = true;`) are propagated and decide
    the switches on them.  A state whose facts become contradictory (empty set of values) is infeasible and dropped.
    Returns a list of (kind, bb, facts) with kind "stop" (reached a block of `stops`), "return" or "diverge", and facts
    = {dim: frozenset(values)} (absent dimension: nothing known) — or None if the state budget is exceeded."""
    switch_facts = switch_facts or {}
    atom_facts = atom_facts or {}
    kill = kill or {}
    stops = set(stops)
    fn.succ(0)
    results = []
    seen = set()
    work = [(start, (), ())]
    first = True
    n = 0
    while work:
        bb, vals_t, facts_t = work.pop()
        key = (bb, vals_t, facts_t)
        if key in seen:
            continue
        seen.add(key)
        n += 1
        if n > max_states:
            return None
        facts = dict(facts_t)
        if bb in stops and not first:
            results.append(("stop", bb, facts))
            continue
        first = False
        vals = dict(vals_t)
        blk = fn.blocks[bb]
        for d in kill.get(bb, ()):
            facts.pop(d, None)
        for st in blk["st"]:
            if st["s"] != "assign":
                continue
            l = st["pl"]["l"]
            if st["pl"]["p"]:
                if "*" not in st["pl"]["p"]:
                    vals.pop(l, None)
                continue
            rv = st["rv"]
            new = None
            if rv["rv"] == "use":
                op = rv["op"]
                if op.get("k") == "const" and op.get("ty") == "bool" and op.get("val") and "int" in op["val"]:
                    new = ("c", bool(op["val"]["int"]))
                elif op.get("k") in ("copy", "move") and not op["pl"]["p"]:
                    new = vals.get(op["pl"]["l"])
            elif rv["rv"] == "unop" and rv["op"] == "Not":
                op = rv["a"]
                v = vals.get(op["pl"]["l"]) if op.get("k") in ("copy", "move") and not op["pl"]["p"] else None
                if v is not None:
                    new = ("c", not v[1]) if v[0] == "c" else ("a", v[1], not v[2])
            if new is None:
                vals.pop(l, None)
            else:
                vals[l] = new
        t = blk["term"]
        if t["t"] == "call":
            d = t["dest"]
            vals.pop(d["l"], None)
            if bb in atom_facts and not d["p"]:
                for x in [x for x, v in vals.items() if v[0] == "a" and v[1] == bb]:
                    del vals[x]
                vals[d["l"]] = ("a", bb, False)
        succs = list(fn.succ(bb))
        if not succs:
            results.append(("return" if t["t"] == "return" else "diverge", bb, facts))
            continue
        nxt = None
        if t["t"] == "switch" and len(succs) > 1:
            if bb in switch_facts:
                nxt = []
                for sx in succs:
                    f2 = dict(facts)
                    feasible = True
                    for dim, per_edge in switch_facts[bb]:
                        allowed = per_edge.get(sx)
                        if allowed is None:
                            continue
                        cur = f2.get(dim)
                        got = allowed if cur is None else (cur & allowed)
                        if not got:
                            feasible = False
                            break
                        f2[dim] = got
                    if feasible:
                        nxt.append((sx, f2))
            else:
                dl = operand_local(t["discr"]) if t["discr"].get("k") in ("copy", "move") and not t["discr"]["pl"]["p"] else None
                v = vals.get(dl) if dl is not None else None
                false_t = None
                for val, tgt in t["targets"]:
                    if val == 0:
                        false_t = tgt
                if v is not None and false_t is not None and fn.local_ty(dl) == "bool":
                    true_t = t["otherwise"]
                    nxt = []
                    if v[0] == "c":
                        tgt = true_t if v[1] else false_t
                        if tgt in succs:
                            nxt.append((tgt, facts))
                    else:
                        dim, vt, vf = atom_facts[v[1]]
                        for tgt, holds in ((true_t, True), (false_t, False)):
                            if tgt not in succs:
                                continue
                            allowed = frozenset([vt if (holds != v[2]) else vf])
                            cur = facts.get(dim)
                            got = allowed if cur is None else (cur & allowed)
                            if not got:
                                continue
                            f2 = dict(facts)
                            f2[dim] = got
                            nxt.append((tgt, f2))
        if nxt is None:
            nxt = [(sx, facts) for sx in succs]
        vt_ = tuple(sorted(vals.items()))
        for sx, f2 in nxt:
            work.append((sx, vt_, tuple(sorted(f2.items(), key=lambda kv: repr(kv[0])))))
    return results


def compatible(facts, cell):
    """A concrete cell {dim: value} is compatible with path facts {dim: frozenset} when no fact excludes it."""
    return all(dim not in facts or val in facts[dim] for dim, val in cell.items())


def show_facts(facts):
    return "{%s}" % ", ".join("%s=%s" % (d if isinstance(d, str) else "/".join(str(x) for x in d[:2]), "|".join(sorted(str(v) for v in vs)))
                              for d, vs in sorted(facts.items(), key=lambda kv: repr(kv[0])))
