"""Helpers of rules/c02.py: path conditions over discriminant switches and boolean tests.

Nothing here looks at source text, line numbers or block numbers; everything is built on engine.Fn facts.

`region_states` is generic (a candidate for engine.py / lib.py): it is `Fn.bool_states_at` extended with facts read off
discriminant switches (`match`, `if let`, let-else, `?`), restricted to a region of the CFG (e.g. one iteration of a loop),
and with *semantic* fact dimensions chosen by the caller, so that `m.contains_key(k)`, `m.get(k).is_some()` and
`match m.get(k) { Some(..) .. None .. }` all establish the same fact, and a switch on a tuple `(a, b)` built in the
function is a switch on a and on b (lib_c01.access_path projects through tuples built in the function).
"""
import re

from .lib import PLUMBING, callee_allow, closure_args_of_call, operand_local
from .lib_c01 import VALUE_PRESERVING, access_path, bool_switch_of_call, dead_ends, enum_switches, option_edges, resolve_path


def discr_edge_sets(fn, sbb, info):
    """For a switch on a discriminant: {successor block: frozenset(names of the variants that take this edge)}.
    The `otherwise` edge stands for every variant without an explicit target; successors that no variant takes
    (the `unreachable` otherwise of an exhaustive match) get the empty set."""
    out = {s: set() for s in fn.succ(sbb)}
    t = fn.blocks[sbb]["term"]
    every = set(out) | set(b for _v, b in t["targets"]) | {t["otherwise"]}
    for s in every:
        out.setdefault(s, set())
    for idx, name in info["variants"].items():
        out.setdefault(fn.switch_target(sbb, idx), set()).add(name)
    return {s: frozenset(v) for s, v in out.items()}


def region_states(fn, start, stops=(), switch_facts=None, atom_facts=None, kill=None, max_states=60000):
    """Path-sensitive facts on every path from block `start` to the blocks in `stops` (not expanded further) and to the
    ends of the function (return, panic).

    switch_facts : {switch_bb: [(dim, {successor bb: frozenset(values the dimension can have on this edge)})]}
                   successors not listed for a dimension are unconstrained.
    atom_facts   : {call_bb: (dim, value when the call answers true, value when it answers false)} for bool-returning calls, and
                   {("cmp", bb, statement index): (dim, value when true, value when false)} for MIR comparisons;
                   the value is followed through copies, `!`, named flags, `a || b` / `a && b` lowering, `match flag`.
    kill         : {bb: [dims]} dimensions whose facts are forgotten when block bb is executed (a call that is the
                   subject of the dimension and may run again inside an inner loop).

    Boolean constants assigned to flags (`matches!(..)`, `let mut ok = false; .. ok = true;`) are propagated and decide
    the switches on them.  A state whose facts become contradictory (empty set of values) is infeasible and dropped.
    Returns a list of (kind, bb, facts) with kind "stop" (reached a block of `stops`), "return" or "diverge", and facts
    = {dim: frozenset(values)} (absent dimension: nothing known) — or None if the state budget is exceeded."""
    switch_facts = switch_facts or {}
    atom_facts = atom_facts or {}
    kill = kill or {}
    stops = set(stops)
    fn.succ(0)
    results = []
    seen = set()
    work = [(start, (), ())]
    first = True
    n = 0
    while work:
        bb, vals_t, facts_t = work.pop()
        key = (bb, vals_t, facts_t)
        if key in seen:
            continue
        seen.add(key)
        n += 1
        if n > max_states:
            return None
        facts = dict(facts_t)
        if bb in stops and not first:
            results.append(("stop", bb, facts))
            continue
        first = False
        vals = dict(vals_t)
        blk = fn.blocks[bb]
        for d in kill.get(bb, ()):
            facts.pop(d, None)
        for si, st in enumerate(blk["st"]):
            if st["s"] != "assign":
                continue
            l = st["pl"]["l"]
            if st["pl"]["p"]:
                if "*" not in st["pl"]["p"]:
                    vals.pop(l, None)
                continue
            rv = st["rv"]
            new = None
            if rv["rv"] == "binop" and ("cmp", bb, si) in atom_facts:
                atom = ("cmp", bb, si)
                for x in [x for x, v in vals.items() if v[0] == "a" and v[1] == atom]:
                    del vals[x]
                new = ("a", atom, False)
            elif rv["rv"] == "use":
                op = rv["op"]
                if op.get("k") == "const" and op.get("ty") == "bool" and op.get("val") and "int" in op["val"]:
                    new = ("c", bool(op["val"]["int"]))
                elif op.get("k") in ("copy", "move") and not op["pl"]["p"]:
                    new = vals.get(op["pl"]["l"])
            elif rv["rv"] == "unop" and rv["op"] == "Not":
                op = rv["a"]
                v = vals.get(op["pl"]["l"]) if op.get("k") in ("copy", "move") and not op["pl"]["p"] else None
                if v is not None:
                    new = ("c", not v[1]) if v[0] == "c" else ("a", v[1], not v[2])
            if new is None:
                vals.pop(l, None)
            else:
                vals[l] = new
        t = blk["term"]
        if t["t"] == "call":
            d = t["dest"]
            vals.pop(d["l"], None)
            if bb in atom_facts and not d["p"]:
                for x in [x for x, v in vals.items() if v[0] == "a" and v[1] == bb]:
                    del vals[x]
                vals[d["l"]] = ("a", bb, False)
        succs = list(fn.succ(bb))
        if not succs:
            results.append(("return" if t["t"] == "return" else "diverge", bb, facts))
            continue
        nxt = None
        if t["t"] == "switch" and len(succs) > 1:
            if bb in switch_facts:
                nxt = []
                for sx in succs:
                    f2 = dict(facts)
                    feasible = True
                    for dim, per_edge in switch_facts[bb]:
                        allowed = per_edge.get(sx)
                        if allowed is None:
                            continue
                        cur = f2.get(dim)
                        got = allowed if cur is None else (cur & allowed)
                        if not got:
                            feasible = False
                            break
                        f2[dim] = got
                    if feasible:
                        nxt.append((sx, f2))
            else:
                dl = operand_local(t["discr"]) if t["discr"].get("k") in ("copy", "move") and not t["discr"]["pl"]["p"] else None
                v = vals.get(dl) if dl is not None else None
                false_t = None
                for val, tgt in t["targets"]:
                    if val == 0:
                        false_t = tgt
                if v is not None and false_t is not None and fn.local_ty(dl) == "bool":
                    true_t = t["otherwise"]
                    nxt = []
                    if v[0] == "c":
                        tgt = true_t if v[1] else false_t
                        if tgt in succs:
                            nxt.append((tgt, facts))
                    else:
                        dim, vt, vf = atom_facts[v[1]]
                        for tgt, holds in ((true_t, True), (false_t, False)):
                            if tgt not in succs:
                                continue
                            allowed = frozenset([vt if (holds != v[2]) else vf])
                            cur = facts.get(dim)
                            got = allowed if cur is None else (cur & allowed)
                            if not got:
                                continue
                            f2 = dict(facts)
                            f2[dim] = got
                            nxt.append((tgt, f2))
        if nxt is None:
            nxt = [(sx, facts) for sx in succs]
        vt_ = tuple(sorted(vals.items()))
        for sx, f2 in nxt:
            work.append((sx, vt_, tuple(sorted(f2.items(), key=lambda kv: repr(kv[0])))))
    return results


_ADD = ("Add", "AddWithOverflow", "AddUnchecked")
_SUB = ("Sub", "SubWithOverflow", "SubUnchecked")
_CMP = {"Eq": lambda x, y: x == y, "Ne": lambda x, y: x != y, "Lt": lambda x, y: x < y, "Le": lambda x, y: x <= y, "Gt": lambda x, y: x > y, "Ge": lambda x, y: x >= y}


def linear_form(fn, op, transparent=()):
    """An integer operand as `base + k`: follows copies and additions / subtractions of a constant (checked, wrapping-checked
    or unchecked arithmetic alike) back to a value that is not such a sum.  Returns (access path of the base, k); a constant
    is (None, value).  Generic (a candidate for lib.py)."""
    k = 0
    for _ in range(8):
        p = access_path(fn, op, transparent)
        if p.kind() == "const":
            v = (p.root[2].get("val") or {}).get("int")
            return (None, k + v) if v is not None and not p.path else (p, k)
        if p.kind() == "local" and not p.calls and p.path in ([], ["0"]):
            ds = fn.defs().get(p.root_local(), [])
            if len(ds) == 1 and ds[0][1] == "assign" and not ds[0][2]["pl"]["p"] and ds[0][2]["rv"]["rv"] == "binop":
                rv = ds[0][2]["rv"]
                o = rv["op"]
                if (o in _ADD or o in _SUB) and (p.path == ["0"]) == o.endswith("WithOverflow"):
                    ca, cb = const_int_of(rv["a"]), const_int_of(rv["b"])
                    if cb is not None:
                        k += cb if o in _ADD else -cb
                        op = rv["a"]
                        continue
                    if ca is not None and o in _ADD:
                        k += ca
                        op = rv["b"]
                        continue
        return p, k
    return p, k


def const_int_of(op):
    if op.get("k") == "const" and op.get("val") and "int" in op["val"]:
        return op["val"]["int"]
    return None


def position_tests(fn, is_index, is_length, transparent=()):
    """Comparisons that decide, for the element at position `index` of a sequence of `length` elements under iteration
    (0 <= index < length), whether further elements follow: any comparison of index + a with length + b (either side, any of
    == != < <= > >=) whose truth value at the last position (index - length = -1) differs from its value at every earlier
    position - `index + 1 < n`, `index + 1 == n`, `index != n - 1`, `n > index + 1`, `index < n - 1`, ...
    Returns [(("cmp", bb, stmt index), follow_when_true)].  A comparison that is not exact (`index + 2 < n`, `index < n`)
    is not a position test and is not returned."""
    out = []
    for blk in fn.blocks:
        if blk.get("cleanup"):
            continue
        for i, st in enumerate(blk["st"]):
            if st["s"] != "assign" or st["rv"]["rv"] != "binop" or st["rv"]["op"] not in _CMP:
                continue
            pa, ka = linear_form(fn, st["rv"]["a"], transparent)
            pb, kb = linear_form(fn, st["rv"]["b"], transparent)
            if pa is None or pb is None:
                continue
            if is_index(pa) and is_length(pb):
                f = lambda d, ka=ka, kb=kb, o=st["rv"]["op"]: _CMP[o](d + ka, kb)
            elif is_length(pa) and is_index(pb):
                f = lambda d, ka=ka, kb=kb, o=st["rv"]["op"]: _CMP[o](ka, d + kb)
            else:
                continue
            # d = index - length; the last element has d = -1, every earlier one d <= -2 (the forms are monotone or point tests in d,
            # with offsets far smaller than the sample range)
            earlier = set(f(d) for d in range(-2, -40, -1))
            if len(earlier) == 1 and f(-1) not in earlier:
                out.append((("cmp", blk["bb"], i), f(-2)))
    return out


def compatible(facts, cell):
    """A concrete cell {dim: value} is compatible with path facts {dim: frozenset} when no fact excludes it."""
    return all(dim not in facts or val in facts[dim] for dim, val in cell.items())


def show_facts(facts):
    return "{%s}" % ", ".join("%s=%s" % (d if isinstance(d, str) else "/".join(str(x) for x in d[:2]), "|".join(sorted(str(v) for v in vs)))
                              for d, vs in sorted(facts.items(), key=lambda kv: repr(kv[0])))


# ----------------------------------------------------------------------------- the per-method version-conflict test (rule C02.R4)
# A copy of lib_c01._conflict_test / conflict_loop (lib_c01.py is shared and was frozen for this module while it was hardened) in
# which the handler list may also be looked at through Vec::as_slice / as_mut_slice (the conflict loop extracted into a helper
# taking `&[ApiEndpoint]`).  When lib_c01.ITER_ADAPT gains these two callees this copy can be replaced by the import again.
# ways of looking at the handler list as the sequence of its elements (value-preserving for "which elements are visited")
ITER_ADAPT = [r"iter::IntoIterator::into_iter$", r"slice::<impl \[T\]>::iter$", r"vec::Vec::<T, A>::iter$", r"vec::Vec::<T, A>::as_slice$", r"vec::Vec::<T, A>::as_mut_slice$"]


SEARCH_ADAPTORS = r"iter::Iterator::(find|position|any|rposition|find_map)$|iter::DoubleEndedIterator::rfind$"


def _conflict_test(facts, ins, vec):
    """The test `some existing element of the handler list overlaps the new endpoint`, whatever the idiom.  Returns a dict
    {idiom, site, elem_ok, new_ok, iter_ok, hit:(switch_bb,target) taken when an overlapping element was found, clear:(switch_bb,target) taken when
     every element was tested and none overlapped, again: block of the loop head (loop idiom) or None, detail} or (None, reason).

    loop   : for h in list { if h.versions.overlaps_with(&new.versions) { refuse } }            hit = true edge of the test, clear = None edge of next()
    search : list.iter().find / position / rfind (|h| h.versions.overlaps_with(&new.versions))   hit = Some edge of the result, clear = its None edge
             list.iter().any(|h| h.versions.overlaps_with(&new.versions))                        hit = true edge, clear = false edge
    (std's find / position / any apply the predicate to every element in turn until it first holds)"""
    sites = [(ins, bb, t) for bb, t in ins.live_calls(r"^api_description::ApiEndpointVersions::overlaps_with$")]
    for h in facts.descendants(ins):
        sites += [(h, bb, t) for bb, t in h.live_calls(r"^api_description::ApiEndpointVersions::overlaps_with$")]
    if len(sites) != 1:
        return None, "overlaps_with call sites in insert (and its closures): %d (want the one test applied to every existing handler)" % len(sites)
    f, obb, ot = sites[0]
    if f is ins:
        pa = access_path(ins, ot["args"][0], VALUE_PRESERVING)
        pb = access_path(ins, ot["args"][1], VALUE_PRESERVING)
        elem, new = (pa, pb) if pa.is_call(r"iter::Iterator::next$") else (pb, pa)
        res = {"idiom": "loop", "site": (ins, obb), "hit": None, "clear": None, "again": None}
        res["new_ok"] = new.kind() == "param" and new.root[1] == 2 and new.path == ["versions"]
        res["elem_ok"] = elem.is_call(r"iter::Iterator::next$") and elem.npath() == ["+", "0", "versions"]
        res["iter_ok"] = False
        ne = None
        if res["elem_ok"]:
            nbb, nt = elem.call()[1], elem.call()[2]
            pit = access_path(ins, nt["args"][0], VALUE_PRESERVING + ITER_ADAPT)
            res["iter_ok"] = pit.root[0] == vec.root[0] and pit.root_local() == vec.root_local() and pit.path == vec.path
            ne = option_edges(ins, nt["dest"]["l"])
            res["again"] = nbb
            if ne is not None:
                res["clear"] = (ne[0], ne[2])
                res["elem_ok"] = res["elem_ok"] and ins.edge_dominates(ne[0], ne[1], obb)
        sw = bool_switch_of_call(ins, obb, ot)
        if sw is not None:
            res["hit"] = (sw[0], sw[1])
            res["miss"] = (sw[0], sw[2])
        res["detail"] = "overlaps_with(%r, %r) inside a loop over the list" % (pa, pb)
        return res, None
    # the test lives in a closure: it must be the predicate of a short-circuit search over the list
    if f.raw["kind"] != "Closure":
        return None, "overlaps_with is called in %s" % f.id
    pa = access_path(f, ot["args"][0], VALUE_PRESERVING)
    pb = access_path(f, ot["args"][1], VALUE_PRESERVING)
    elem, newop = (pa, ot["args"][1]) if (pa.kind() == "param" and pa.root[1] == 2) else (pb, ot["args"][0])
    res = {"idiom": "search", "site": (f, obb), "hit": None, "clear": None, "again": None}
    res["elem_ok"] = elem.kind() == "param" and elem.root[1] == 2 and elem.path == ["versions"] and not [c for c in elem.call_names() if not c.endswith("Deref::deref")]
    g, new = resolve_path(facts, f, newop, VALUE_PRESERVING)
    res["new_ok"] = g is ins and new.kind() == "param" and new.root[1] == 2 and new.path == ["versions"]
    ret = access_path(f, {"l": 0, "p": []}, [])
    returns_test = ret.call() is not None and ret.call()[2] is ot and not ret.path
    users = []
    for bb, t in ins.live_calls():
        for h, _n in closure_args_of_call(ins, t):
            if h is f:
                users.append((bb, t))
    res["iter_ok"] = False
    res["detail"] = "overlaps_with(%r, %r) in a closure" % (pa, pb)
    if len(users) != 1 or not returns_test:
        res["detail"] += " that %s and is used by %d call(s)" % ("returns the test" if returns_test else "does NOT return the test itself", len(users))
        res["elem_ok"] = False
        return res, None
    ubb, ut = users[0]
    callee = ut.get("callee") or ""
    is_filter = bool(re.search(r"iter::Iterator::filter$", callee))
    if is_filter:
        # `for h in list.iter().filter(|h| h.versions.overlaps_with(new)) { refuse }`: the loop body runs for exactly the elements
        # the predicate holds for, every element being tested on the way -- hit = the Some edge of the filtered iterator's next(),
        # clear = its None edge (all elements tested, none overlapped)
        for nbb, nt in ins.live_calls(r"iter::Iterator::next$"):
            q = access_path(ins, nt["args"][0], VALUE_PRESERVING + ITER_ADAPT)
            if q.call() and q.call()[2] is ut and not q.path:
                sp = None
                for sbb, info, tg in enum_switches(ins, r"^std::option::Option$"):
                    q2 = access_path(ins, info["place"], VALUE_PRESERVING)
                    if q2.call() and q2.call()[2] is nt and not q2.path:
                        sp = sbb
                if sp is not None:
                    res["hit"], res["clear"] = (sp, ins.switch_target(sp, 1)), (sp, ins.switch_target(sp, 0))
    if not is_filter and (not re.search(SEARCH_ADAPTORS, callee) or callee.endswith("find_map")):
        res["detail"] += " handed to %s, which is not a search over every element" % callee.split("::")[-1]
        res["elem_ok"] = False
        return res, None
    pit = access_path(ins, ut["args"][0], VALUE_PRESERVING + ITER_ADAPT)
    res["iter_ok"] = pit.root[0] == vec.root[0] and pit.root_local() == vec.root_local() and pit.path == vec.path and \
        not [c for c in pit.call_names() if not re.search(r"Deref::deref$|DerefMut::deref_mut$|slice::<impl \[T\]>::iter$|iter::IntoIterator::into_iter$|vec::Vec::<T, A>::iter$|vec::Vec::<T, A>::as_(mut_)?slice$|Clone::clone$|AsRef::as_ref$|Borrow::borrow$", c)]
    res["detail"] += " handed to %s over %r" % (callee.split("::")[-1], pit)
    if is_filter:
        pass
    elif callee.endswith("::any"):
        sw = bool_switch_of_call(ins, ubb, ut)
        if sw is not None:
            res["hit"], res["clear"] = (sw[0], sw[1]), (sw[0], sw[2])
    else:
        for sbb, info, tg in enum_switches(ins, r"^std::option::Option$"):
            q = access_path(ins, info["place"], VALUE_PRESERVING)
            if q.call() and q.call()[2] is ut and not q.path:
                res["hit"], res["clear"] = (sbb, ins.switch_target(sbb, 1)), (sbb, ins.switch_target(sbb, 0))
        if res["hit"] is None:
            for cbb, ct in ins.live_calls(r"Option::<T>::(is_some|is_none)$"):
                q = access_path(ins, ct["args"][0], VALUE_PRESERVING)
                if q.call() and q.call()[2] is ut and not q.path:
                    sw = bool_switch_of_call(ins, cbb, ct)
                    if sw is not None:
                        some_t, none_t = (sw[1], sw[2]) if ct["callee"].endswith("is_some") else (sw[2], sw[1])
                        res["hit"], res["clear"] = (sw[0], some_t), (sw[0], none_t)
    return res, None


def conflict_loop(facts, ins, which=None):
    """Structure of the per-method version-conflict test of HttpRouter::insert, found by role.
    Yields (key, ok, detail, site) checks; `which` selects a subset by key."""
    out = []

    def emit(key, ok, detail, site):
        if which is None or key in which:
            out.append((key, bool(ok), detail, site))

    appends = []
    for bb, t in ins.live_calls(r"vec::Vec::<T, A>::(push|insert|append|extend_from_slice|push_within_capacity)$|iter::Extend::extend$|collections::VecDeque"):
        l = operand_local(t["args"][-1]) if t["args"] else None
        if l is not None and "ApiEndpoint<" in ins.local_ty(l):
            appends.append((bb, t))
    pushes = [(bb, t) for bb, t in appends if t["callee"].endswith("Vec::<T, A>::push")]
    emit("one-append", len(appends) == 1 and len(pushes) == 1, "calls adding an ApiEndpoint to a handler list in insert: %s"
         % [t["callee"].split("::")[-1] for _, t in appends], ins)
    if len(pushes) != 1:
        return out
    pbb, pt = pushes[0]
    vec = access_path(ins, pt["args"][0], VALUE_PRESERVING)
    # the vector is node.methods.entry(METHOD).or_default()
    vs = ins.slice(pt["args"][0], stop_at_calls=r"BTreeMap::<K, V, A>::entry$")
    ent = vs.calls(r"BTreeMap::<K, V, A>::entry$")
    okv = False
    pm = None
    if len(ent) == 1:
        pm = access_path(ins, ent[0][2]["args"][0], VALUE_PRESERVING)
        okv = pm.path == ["methods"] and not callee_allow(vs, PLUMBING + [r"BTreeMap::<K, V, A>::entry$", r"btree_map::Entry::<'a, K, V, A>::or_default$",
                                                                        r"btree_map::Entry::<'a, K, V, A>::or_insert_with$", r"btree_map::Entry::<'a, K, V, A>::or_insert$"])
    emit("vector-is-node.methods[METHOD]", okv, "push receiver is %r obtained from entry(%r)" % (vec, pm), (ins, pbb))
    pe = access_path(ins, pt["args"][1], [])
    emit("appended-value-is-the-new-endpoint", pe.kind() == "param" and pe.root[1] == 2 and not pe.path, "pushed value is %r" % pe, (ins, pbb))
    ct, why = _conflict_test(facts, ins, vec)
    if ct is None:
        emit("every-element-tested", False, why, ins)
        return out
    emit("every-element-tested", ct["new_ok"] and ct["elem_ok"] and ct["iter_ok"],
         "%s: one side is each element of the vector that is pushed to (element: %s, that vector: %s), the other the new endpoint's versions (%s)"
         % (ct["detail"], ct["elem_ok"], ct["iter_ok"], ct["new_ok"]), ct["site"])
    if ct["hit"] is None or ct["clear"] is None:
        emit("overlap-true-diverges", False, "no branch on the outcome of the overlap test (%s idiom)" % ct["idiom"], ct["site"])
        return out
    hsw, htgt = ct["hit"]
    csw, ctgt = ct["clear"]
    again = ct["again"]
    true_div = ins.is_diverging(htgt) and (again is None or again not in ins.reachable(htgt)) and pbb not in ins.reachable(htgt)
    emit("overlap-true-diverges", true_div, "the edge taken when an existing element overlaps %s (registration refused by panic)" % ("never returns" if true_div else "can continue to the push"), (ins, hsw))
    if ct["idiom"] == "loop":
        msw, mtgt = ct["miss"]
        false_cont = again in ins.reachable(mtgt, avoid=[pbb]) and not dead_ends(ins, mtgt, avoid=[again])
        emit("overlap-false-continues", false_cont, "the false edge goes on to the next element without any refusal in between: %s" % false_cont, (ins, msw))
    else:
        emit("overlap-false-continues", True, "short-circuit search (std find/position/any): the predicate is applied to each element in turn until it first holds", (ins, hsw))
    emit("append-after-loop-exit", ins.edge_dominates(csw, ctgt, pbb), "push is dominated by the edge taken when all elements were tested and none overlapped: %s"
         % ins.edge_dominates(csw, ctgt, pbb), (ins, pbb))
    de = dead_ends(ins, ctgt)
    rets = ins.returns()
    emit("no-refusal-after-loop", not de and all(ins.dominates(pbb, r) or r not in ins.reachable(ctgt) for r in rets),
         "from there every path reaches the push and returns (refusal sites after the test: %d)" % len(de), (ins, ctgt))
    # nothing else touches the vector before the push
    foreign = []
    for bb, t in ins.live_calls():
        if t is pt or not t["args"]:
            continue
        for a in t["args"]:
            if a.get("k") not in ("copy", "move"):
                continue
            q = access_path(ins, a, VALUE_PRESERVING)
            if q.root[0] == vec.root[0] and q.root_local() == vec.root_local() and q.path == vec.path and q.root[0] == "call":
                c = t.get("callee") or ""
                if not re.search(r"Deref::deref$|DerefMut::deref_mut$|slice::<impl \[T\]>::(iter|get|first|last|len|is_empty)$|iter::IntoIterator::into_iter$|"
                                 r"vec::Vec::<T, A>::(iter|len|is_empty|as_slice)$|ops::Index::index$", c):
                    foreign.append(c)
    emit("vector-untouched-before-append", not foreign, "other operations on the handler list in insert: %s" % (foreign or "only iteration"), (ins, pbb))
    return out
