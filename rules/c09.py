"""C09 — handlers receive exactly what the client sent."""
import json
import re

from .lib import (PLUMBING, callee_allow, callers, closure_args_of_call, lit_strs, operand_local, result_split)
from .lib_c09 import handoffs, precise_operands, stream_emissions
from .lib_c10 import (closure_site, impl_fns, ok_sources, upvar_fields, upvar_origin, upvar_params, value_sources)

LEVEL = "other"
TECHNIQUE = ("static analysis: value-preserving CHAIN slices from every decoder input / extractor payload back to the request, sibling agreement of the "
             "from_map primitive table, SAME-SOURCE slices of the per-request context, census of statics and interior-mutable shared state")
LEVEL_TEXT = ("Decides on the type-checked MIR of the current tree: (R1) every decoder is fed the request's own data unmodified — path: rqctx.endpoint.variables -> from_map; "
              "query: uri().query() (only unwrap_or(\"\")) -> serde_urlencoded::from_str; typed bodies: the buffered body bytes -> serde_json / form_urlencoded; raw: the same bytes frozen; "
              "stream: each emitted chunk (`yield` of the try_stream! generator, or `Ok(Some((chunk, state)))` of a try_unfold step whose state carries the body on unchanged) is the frame's data payload; accumulation (written as a try_fold or as a `while let Some(chunk) = s.try_next().await?` loop): one append site puts each element of this "
              "body's stream whole into an initially empty buffer, every pulled element is appended before the next pull, nothing else writes the buffer, and the buffer is what is returned "
              "— and each extractor wraps exactly the decoder's output (the Ok side of the decoder's Result, however the error side is spelled); "
              "any other operation on such a chain (case change, trim, slicing, re-encoding, a constant) is a violation; (R2) in from_map every deserialize_<T> parses the raw string as T "
              "and hands the parsed value to visit_<T> for the same T (12 primitives), string kinds pass as_value() to visit_str unmodified, and MapValue::as_value returns the stored string; "
              "(R3) the one RequestContext aggregate is built from this invocation's request, peer address, request id and lookup result, RequestInfo::new copies method/uri/version/headers/"
              "remote_addr from its own arguments, each accessor returns its own field, the peer address flows per connection from accept() through ServerRequestHandler to http_request_handle, "
              "and both handler invocations receive that context and that request; (R4) neither crate has a `static mut` or an interior-mutable static on the server path, and the state shared "
              "between requests (DropshotState and everything it owns, the two hyper service structs, RequestContext) has no interior-mutable field other than the reviewed table entries "
              "(walk over the field types of crate-defined ADTs, transitively; third-party types such as slog::Logger or waitgroup::Worker and the consumer's own context type are not opened); "
              "(R5) the multipart boundary comes from multer::parse_boundary applied to this request's Content-Type header, with no substring surgery, and the multipart stream is this request's body; "
              "(R6) each HttpHandlerFunc impl passes rqctx and the tuple components to the user function in declared order. "
              "Not decided: value fidelity inside serde, serde_json, serde_urlencoded, percent-encoding, multer and hyper's de-framing; schedules are not explored — the argument for "
              "concurrency is the absence of shared mutable state plus per-invocation data flow.")
LEVEL_NOTE = ("Trusts rustc MIR construction, the fact extractor, the engine's slices (flow-insensitive over-approximation: can alarm, cannot hide a callee), and the named third-party "
              "decoders; user server context (`private`) and slog drains are outside the claim.")
EXPLANATION = ("Static rules over MIR facts of the current /repo tree. CHAIN: backward slice of each decoder argument and of each extractor's payload; every callee on the slice must be on a short "
               "allow-list of value-preserving operations and the slice must reach the expected origin (a specific parameter / captured variable / field). SIBLINGS-AGREE: generic argument of "
               "str::parse vs. the visit_<T> method vs. the method name. SAME-SOURCE: slices of the fields of the RequestContext / RequestInfo aggregates and of the arguments handed from "
               "Service::call down to the handler. CENSUS: statics (mutability, Freeze) and a recursive walk of field types reachable from the shared state for interior-mutability markers.")
TRUSTED = ["rustc nightly MIR construction + const evaluation", "mirfacts extractor", "rules/engine.py slices",
           "serde / serde_json / serde_urlencoded / form_urlencoded / serde_path_to_error / multer / percent-encoding decode what they are given faithfully",
           "hyper/http-body: Frame::into_data returns the received payload; BodyExt::frame yields frames in arrival order; TryStreamExt::try_fold folds / try_next yields in stream order",
           "BufMut::put appends; BytesMut::freeze / Clone / Deref / Into / From conversions are value-preserving"]

# value-preserving plumbing, narrower than lib.PLUMBING where a conversion could change the value
ASYNC = [r"future::IntoFuture::into_future$", r"Future::poll$", r"pin::Pin::<Ptr>::new_unchecked$", r"get_context$", r"ops::Try::branch$", r"ops::FromResidual::from_residual$",
         r"ops::Deref::deref$", r"ops::DerefMut::deref_mut$", r"clone::Clone::clone$", r"convert::AsRef::as_ref$", r"borrow::Borrow::borrow$", r"hint::must_use$",
         r"Option::<T>::as_ref$", r"Result::<T, E>::as_ref$", r"Pin::<Ptr>::as_mut$", r"convert::Into::into$", r"convert::From::from$"]
BODY_READ = ASYNC + [r"StreamingBody::into_bytes_mut$", r"StreamingBody::new$", r"RequestContext::<Context>::request_body_max_bytes$", r"http::Request::<T>::into_parts$",
                     r"http::Request::<T>::into_body$"]


def _names(fn):
    return {n: [p["l"] for p in pls if not p["p"]] for n, pls in fn.names.items()}


def _consts(sl):
    """Literal / named constants on a slice, ignoring ZST markers."""
    return [a for a in sl.atoms if a[0] in ("lit", "const") and a[1] not in ('{"zst": true}', "null")]


def _chain(ctx, R, key, fn, operand, allow, site, origin=None, must_call=None, consts_ok=False, what="", pre=None):
    """One CHAIN instance: slice of `operand` in fn has only allow-listed callees, no binop/unop,
    (optionally) no constants, reaches `must_call`, and `origin(slice)` holds.  `pre` = (ok, text): a
    condition established by the caller that belongs to the same instance."""
    if isinstance(operand, list):
        # several alternative sources of one value (one per match arm / path): every one of them must satisfy the chain
        ok, details, sl = bool(operand), [], None
        for o in operand:
            sl = fn.slice(o)
            o_ok, d = _chain_verdict(sl, key, allow, origin, must_call, consts_ok, what)
            ok = ok and o_ok
            if d not in details:
                details.append(d)
        detail = " | ".join(details) or "no source of the value found"
    else:
        sl = fn.slice(operand)
        ok, detail = _chain_verdict(sl, key, allow, origin, must_call, consts_ok, what)
    if pre is not None:
        ok = ok and pre[0]
        detail = pre[1] + "; " + detail
    ctx.check(R, key, ok, detail, site)
    return sl


def _chain_verdict(sl, key, allow, origin, must_call, consts_ok, what):
    bad = callee_allow(sl, allow)
    ops = sorted(set(a[1] for a in sl.atoms if a[0] in ("binop", "unop")))
    cs = [] if consts_ok is True else _consts_but_ints(sl) if consts_ok == "ints" else _consts(sl)
    ok = not bad and not ops and not cs
    detail = "%s: off-list callees %s; arithmetic/logic %s; constants %d" % (what or key, sorted(set(b[0] for b in bad)), ops, len(cs))
    if must_call:
        has = sl.has_call(must_call)
        ok = ok and has
        detail += "; reaches /%s/=%s" % (must_call, has)
    if origin:
        o, od = origin(sl)
        ok = ok and o
        detail += "; origin %s" % od
    return ok, detail


def _ok_chain(ctx, R, key, fn, allow, site, **kw):
    """CHAIN over the Ok payload of the Result that fn returns (lib_c10.ok_sources): how the error side is built
    (`.map_err(closure)`, a match arm, a helper) is not this rule's business."""
    srcs = ok_sources(fn)
    if not srcs:
        ctx.lost(R, "%s: the Ok value returned by %s" % (key, fn.id))
    for op in srcs:
        _chain(ctx, R, key, fn, op, allow, site, **kw)


def _wraps(ctx, R, key, ds, b, adt_rx, allow, must_call, consts_ok=False):
    """Every literal of the extractor type wraps the decoder's output unmodified.  The literal is either written in
    the body b itself (`let v = decode(..)?; Ok(T { inner: v })`) or in a closure mapped over the decoder's Result
    (`decode(..).map(|v| T { inner: v })`): then the closure must wrap its own argument and the receiver of `map`
    is the value that is chained to the decoder."""
    n = 0
    for ab, i, st in b.aggregates(adt_rx):
        if ab in b.reachable(0):
            n += 1
            _chain(ctx, R, key, b, value_sources(b, st["rv"]["ops"][0]), allow, (b, ab), must_call=must_call, consts_ok=consts_ok)
    for h in ds.children(b):
        for ab, i, st in h.aggregates(adt_rx):
            if ab not in h.reachable(0):
                continue
            n += 1
            maps = [(bb, t) for bb, t in b.live_calls(r"(Result::<T, E>|Option::<T>)::map$") if any(g is h for g, _ in closure_args_of_call(b, t))]
            sl = h.slice(st["rv"]["ops"][0])
            inner = len(maps) == 1 and sl.params() == [2] and not sl.callees and not _consts(sl) and not [a for a in sl.atoms if a[0] in ("binop", "unop")]
            pre = (inner, "literal in a closure given to %d map call(s), wrapping its own argument unchanged: %s" % (len(maps), inner))
            if len(maps) != 1:
                ctx.check(R, key, False, pre[1], (h, ab))
            for bb, t in maps:
                _chain(ctx, R, key, b, ok_sources(b, operand_local(t["args"][0])) if operand_local(t["args"][0]) is not None else t["args"][0], allow, (b, bb),
                       must_call=must_call, consts_ok=consts_ok, pre=pre)
    if n == 0:
        ctx.lost(R, "%s: no literal of the extractor type under %s" % (key, b.id))


def _from_upvar_param(ds, g, want_params, field=None):
    """origin predicate: slice reaches captured variables that the parent took from exactly want_params
    (and, if given, reads the named field)."""
    def pred(sl):
        got = upvar_params(ds, g, sl)
        ok = got == set(want_params)
        d = "captured from parent params %s (want %s)" % (sorted(got or []), sorted(want_params))
        if field:
            rf = all(sl.reads_field(x) for x in field)
            ok = ok and rf
            d += ", reads %s=%s" % (".".join(field), rf)
        return ok, d
    return pred


def _from_params(want):
    def pred(sl):
        return sl.params() == sorted(want), "params %s (want %s)" % (sl.params(), sorted(want))
    return pred


# ------------------------------------------------------------------------------------------------ R1
def r1_decoder_inputs(ctx):
    R = ctx.rule("C09.R1", "every decoder is fed this request's data through value-preserving operations only, and every extractor wraps exactly its decoder's output", floor=33)
    ds = ctx.ds
    # ---- path
    pimpl = [f for i, f in impl_fns(ds, r"^extractor::common::SharedExtractor$", "from_request") if "path::Path" in i["self"]]
    if len(pimpl) != 1:
        ctx.lost(R, "SharedExtractor::from_request impl for Path")
    else:
        top = pimpl[0]
        b = ds.body_of(top)
        cs = b.live_calls(r"^http_util::http_extract_path_params$")
        allc = callers(ds, r"^http_util::http_extract_path_params$")
        ctx.check(R, "path:single-decode-site", len(cs) == 1 and len(allc) == 1, "http_extract_path_params called from %s" % sorted(set(f.id for f, _, _ in allc)), b)
        for bb, t in cs:
            _chain(ctx, R, "path:decoder-input-is-route-variables", b, t["args"][0], ASYNC, (b, bb),
                   origin=_from_upvar_param(ds, b, _names(top).get("rqctx", [1]), field=("endpoint", "variables")))
        _wraps(ctx, R, "path:extractor-wraps-decoder-output", ds, b, r"^extractor::path::Path$", ASYNC + [r"^http_util::http_extract_path_params$"], r"^http_util::http_extract_path_params$")
    hp = ctx.need_fn(ds, R, r"^http_util::http_extract_path_params$")
    fm = hp.live_calls(r"^from_map::from_map$")
    for bb, t in fm:
        _chain(ctx, R, "path:from_map-input-is-the-variable-set", hp, t["args"][0], ASYNC, (hp, bb), origin=_from_params([1]))
    _ok_chain(ctx, R, "path:result-is-from_map-output", hp, ASYNC + [r"^from_map::from_map$"], hp, must_call=r"^from_map::from_map$", origin=_from_params([1]))
    fmf = ctx.need_fn(ds, R, r"^from_map::from_map$")
    _ok_chain(ctx, R, "path:from_map-deserialises-the-map", fmf, ASYNC + [r"MapDeserializer::<'de, Z>::from_map$", r"_serde::Deserialize::deserialize$"], fmf,
              must_call=r"_serde::Deserialize::deserialize$", origin=_from_params([1]))
    ctor = ctx.need_fn(ds, R, r"^from_map::MapDeserializer::<'de, Z>::from_map$")
    _chain(ctx, R, "path:deserializer-holds-the-map", ctor, {"l": 0, "p": []}, ASYNC, ctor, origin=_from_params([1]))
    # ---- query (normalised view: `.unwrap_or("")`, `.map_or(&b""[..], str::as_bytes)`, `match q {Some(s) => s, None => ""}` read alike)
    dn = ctx.dsn
    lq = ctx.need_fn(dn, R, r"^extractor::query::http_request_load_query$")
    QDEC = r"serde_urlencoded::(from_str|from_bytes)$"
    dq = lq.live_calls(r"serde_urlencoded::(from_str|from_bytes|Deserializer)")
    ctx.check(R, "query:single-decode-site", len(dq) == 1, "serde_urlencoded decode sites in http_request_load_query: %d" % len(dq), lq)
    # the raw query string, or its bytes (`str::as_bytes`: the same text), or the whole of a constant (`c[..]`: an Index by RangeFull selects everything)
    qallow = ASYNC + [r"handler::RequestInfo::uri$", r"http::Uri::query$", r"Option::<T>::unwrap_or$", r"Option::<T>::unwrap_or_default$", r"str::<impl str>::as_bytes$"]
    if all((t.get("gargs") or ["", ""])[-1] == "std::ops::RangeFull" for bb, t in lq.live_calls(r"ops::Index::index$")):
        qallow = qallow + [r"ops::Index::index$"]

    def empty_text(v):
        try:
            d = json.loads(v)
        except (TypeError, ValueError):
            return False
        return isinstance(d, dict) and d.get("str") == ""
    for bb, t in dq:
        sl = _chain(ctx, R, "query:decoder-input-is-the-raw-query-string", lq, t["args"][0], qallow, (lq, bb), must_call=r"http::Uri::query$",
                    origin=_from_params([1]), consts_ok=True)
        ls = lit_strs(sl)
        # (the empty default may be a literal — text or byte string — or a named constant whose evaluated value is "")
        others = [a for a in _consts(sl) if not (a[0] == "lit" and empty_text(a[1])) and not (a[0] == "const" and len(a) > 2 and empty_text(a[2]))]
        ctx.check(R, "query:absent-query-is-empty-string", ls <= {""} and not others, "string constants on the chain: %s (only the empty default is allowed)" % sorted(ls), (lq, bb))
    _wraps(ctx, R, "query:extractor-wraps-decoder-output", dn, lq, r"^extractor::query::Query$", qallow + [QDEC], QDEC, consts_ok=True)
    qimpl = [f for i, f in impl_fns(ds, r"^extractor::common::SharedExtractor$", "from_request") if "query::Query" in i["self"]]
    if len(qimpl) != 1:
        ctx.lost(R, "SharedExtractor::from_request impl for Query")
    else:
        b = ds.body_of(qimpl[0])
        for bb, t in b.live_calls(r"^extractor::query::http_request_load_query$"):
            _chain(ctx, R, "query:loader-sees-this-request", b, t["args"][0], ASYNC, (b, bb),
                   origin=_from_upvar_param(ds, b, _names(qimpl[0]).get("rqctx", [1]), field=("request",)))
    # ---- typed bodies
    lb = ctx.need_fn(ds, R, r"^extractor::body::http_request_load_body$")
    b = ds.body_of(lb)
    nm = _names(lb)
    parsers = [("json", r"serde_json::(Deserializer::<.*>::from_slice|from_slice|de::from_slice)$"), ("urlencoded", r"form_urlencoded::parse$|serde_urlencoded::from_bytes$")]
    for label, rx in parsers:
        ps = b.live_calls(rx)
        ctx.check(R, "body:%s:single-parser-site" % label, len(ps) == 1, "%d parser sites" % len(ps), b)
        for bb, t in ps:
            _chain(ctx, R, "body:%s:parser-input-is-the-body-bytes" % label, b, t["args"][0], BODY_READ, (b, bb), must_call=r"StreamingBody::into_bytes_mut$",
                   origin=_from_upvar_param(ds, b, nm.get("rqctx", [1]) + nm.get("request", [2])))
    _wraps(ctx, R, "body:extractor-wraps-decoder-output", ds, b, r"^extractor::body::TypedBody$",
           BODY_READ + [rx for _, rx in parsers] + [r"serde_path_to_error::deserialize$", r"serde_urlencoded::Deserializer::<'de>::new$", r"Result::<T, E>::map_err$"],
           r"serde_path_to_error::deserialize$|serde_json::from_slice$|serde_urlencoded::from_bytes$")
    # the body read itself: into_parts of this request, body part handed to StreamingBody::new
    for bb, t in b.live_calls(r"StreamingBody::new$"):
        _chain(ctx, R, "body:reads-this-request's-body", b, t["args"][0], ASYNC + [r"http::Request::<T>::into_parts$", r"http::Request::<T>::into_body$"], (b, bb),
               origin=_from_upvar_param(ds, b, nm.get("request", [2])))
    timpl = [f for i, f in impl_fns(ds, r"^extractor::common::ExclusiveExtractor$", "from_request") if "TypedBody" in i["self"]]
    for f in timpl:
        tb = ds.body_of(f)
        for bb, t in tb.live_calls(r"^extractor::body::http_request_load_body$"):
            o0 = upvar_params(ds, tb, tb.slice(t["args"][0]))
            o1 = upvar_params(ds, tb, tb.slice(t["args"][1]))
            n2 = _names(f)
            ctx.check(R, "body:loader-sees-this-request", o0 == set(n2.get("rqctx", [1])) and o1 == set(n2.get("request", [2])) and
                      not callee_allow(tb.slice(t["args"][0]), ASYNC) and not callee_allow(tb.slice(t["args"][1]), ASYNC),
                      "http_request_load_body(rqctx <- params %s, request <- params %s)" % (sorted(o0 or []), sorted(o1 or [])), (tb, bb))
    # ---- raw body
    uimpl = [f for i, f in impl_fns(ds, r"^extractor::common::ExclusiveExtractor$", "from_request") if "UntypedBody" in i["self"]]
    if len(uimpl) != 1:
        ctx.lost(R, "ExclusiveExtractor::from_request impl for UntypedBody")
    else:
        ub = ds.body_of(uimpl[0])
        n2 = _names(uimpl[0])
        for ab, i, st in ub.aggregates(r"^extractor::body::UntypedBody$"):
            _chain(ctx, R, "raw:content-is-the-body-bytes", ub, st["rv"]["ops"][0], BODY_READ + [r"bytes::BytesMut::freeze$", r"Result::<T, E>::map$"], (ub, ab), must_call=r"StreamingBody::into_bytes_mut$",
                   origin=_from_upvar_param(ds, ub, n2.get("rqctx", [1]) + n2.get("request", [2])))
        for bb, t in ub.live_calls(r"StreamingBody::new$"):
            _chain(ctx, R, "raw:reads-this-request's-body", ub, t["args"][0], ASYNC + [r"http::Request::<T>::into_parts$", r"http::Request::<T>::into_body$"], (ub, bb),
                   origin=_from_upvar_param(ds, ub, n2.get("request", [2])))
    ua = ctx.need_fn(ds, R, r"^extractor::body::UntypedBody::as_bytes$")
    _chain(ctx, R, "raw:as_bytes-returns-content", ua, {"l": 0, "p": []}, ASYNC, ua, origin=lambda sl: (sl.params() == [1] and sl.reads_field("content"), "self.content"))
    # ---- streaming
    simpl = [f for i, f in impl_fns(ds, r"^extractor::common::ExclusiveExtractor$", "from_request") if "StreamingBody" in i["self"]]
    if len(simpl) != 1:
        ctx.lost(R, "ExclusiveExtractor::from_request impl for StreamingBody")
    else:
        sb = ds.body_of(simpl[0])
        n2 = _names(simpl[0])
        # the extractor is built either by a struct literal or through the private constructor StreamingBody::new (whose own literal is checked below)
        fields = [fd["name"] for fd in (ds.adt_fields("extractor::body::StreamingBody") or [])]
        built = [(ab, st["rv"]["ops"][fields.index("body")]) for ab, i, st in sb.aggregates(r"^extractor::body::StreamingBody$") if "body" in fields and ab in sb.reachable(0)]
        built += [(bb, t["args"][0]) for bb, t in sb.live_calls(r"StreamingBody::new$")]
        for ab, op in built:
            _chain(ctx, R, "stream:extractor-holds-this-request's-body", sb, op, ASYNC + [r"http::Request::<T>::into_body$", r"http::Request::<T>::into_parts$"],
                   (sb, ab), origin=_from_upvar_param(ds, sb, n2.get("request", [2])))
        if not built:
            ctx.lost(R, "construction of the StreamingBody (literal or StreamingBody::new) in StreamingBody::from_request")
        _chain(ctx, R, "stream:extractor-returns-that-value", sb, {"l": 0, "p": []}, BODY_READ, sb, origin=_from_upvar_param(ds, sb, n2.get("rqctx", [1]) + n2.get("request", [2])), consts_ok=True)
    snew = ctx.need_fn(ds, R, r"^extractor::body::StreamingBody::new$")
    fields = [fd["name"] for fd in (ds.adt_fields("extractor::body::StreamingBody") or [])]
    lits = [(b, s) for b, _, s in snew.aggregates(r"^extractor::body::StreamingBody$") if b in snew.reachable(0)]
    okn = len(lits) == 1 and "body" in fields
    for b, s in lits:
        if "body" in fields:
            sl = snew.slice(s["rv"]["ops"][fields.index("body")])
            okn = okn and sl.params() == _names(snew).get("body", [1]) and not sl.callees and not _consts(sl)
    ctx.check(R, "stream:new-stores-its-body-argument", okn, "StreamingBody::new builds %d literal(s) whose `body` is its own first argument: %s" % (len(lits), okn), snew)
    ist = ctx.need_fn(ds, R, r"^extractor::body::StreamingBody::into_stream$")
    # where the stream hands a chunk to its consumer: `yield x` of a try_stream! generator, or `Ok(Some((x, next_state)))`
    # of a try_unfold step (lib_c09.stream_emissions); in both the chunk must be the frame's own data payload, the frame
    # must come from this StreamingBody's body, and (unfold) the body must be carried to the next step unchanged
    em = stream_emissions(ds, ist, field="body")
    if em is None:
        ctx.lost(R, "the emission sites of StreamingBody::into_stream (a try_stream! generator or a try_unfold step)")
    else:
        g = em["body"]
        ctx.check(R, "stream:single-data-yield", len(em["items"]) == 1, "sites that emit an Ok(chunk) item [%s idiom]: %d" % (em["form"], len(em["items"])), g)
        for bb, item in em["items"]:
            # (variant-precise sources of the item: a chunk that comes out of a spliced async helper as `Ok(Some(data))` is `data`,
            # whatever the helper's other returns build)
            _chain(ctx, R, "stream:yielded-chunk-is-the-frame-payload", g, precise_operands(g, item),
                   ASYNC + [r"hyper::body::Frame::<T>::into_data$", r"http_body_util::BodyExt::frame$", r"Result::<T, E>::map_err$"], (g, bb),
                   must_call=r"Frame::<T>::into_data$", origin=em["state_origin"])
    # ---- accumulation
    _accumulation(ctx, R)


APPEND = r"bytes::BufMut::(put|put_slice|extend_from_slice)$|BytesMut::extend_from_slice$"
PULL = r"TryStreamExt::try_next$|StreamExt::next$"
PIN = [r"pin::Pin::<Ptr>::new$", r"pin::Pin::<Ptr>::new_unchecked$", r"boxed::Box::<T>::pin$", r"pin::Pin::<Ptr>::as_mut$"]


def _mut_borrowers(fn, root):
    """Live calls that receive a `&mut` (re)borrow of local `root` as an argument."""
    from .lib import borrow_root
    out = []
    for bb, t in fn.live_calls():
        for a in t["args"]:
            l = operand_local(a)
            if l is None or not re.match(r"^&('\S+ )?mut ", fn.local_ty(l)):
                continue
            if borrow_root(fn, a) == root:
                out.append((bb, t))
                break
    return out


# an empty buffer: new(), or with_capacity(n) -- a reservation holds no bytes (that n is not the body limit is C11.R10's business)
EMPTY_BUF = r"bytes::BytesMut::(new|with_capacity)$"


def _consts_but_ints(sl):
    """Constants on a slice other than integer literals (the capacity of a pre-sized empty buffer)."""
    out = []
    for a in _consts(sl):
        try:
            v = json.loads(a[1] if a[0] == "lit" else a[2])
        except Exception:
            v = None
        if isinstance(v, dict) and "int" in v and "str" not in v:
            continue
        out.append(a)
    return out


def _accumulation(ctx, R):
    """into_bytes_mut: the returned buffer starts empty, receives every element of this body's stream whole, in
    arrival order, through ONE append site, and nothing else writes to it.  Two idioms are the same program and are
    decided by the same clauses: `stream.try_fold(BytesMut::new(), |mut acc, chunk| {acc.put(chunk); ok(acc)})` (the
    append site lives in the fold closure, accumulator = its parameter, element = its item parameter) and
    `let mut acc = BytesMut::new(); while let Some(chunk) = stream.try_next().await? {acc.put(chunk)}; Ok(acc)`
    (append site in the body itself, element = payload of the pull call)."""
    from .lib import borrow_root
    ds = ctx.ds
    ibm = ctx.need_fn(ds, R, r"^extractor::body::StreamingBody::into_bytes_mut$")
    ib = ds.body_of(ibm)
    fns = [ib] + ds.descendants(ib)
    puts = [(h, pb, pt) for h in fns for pb, pt in h.live_calls(APPEND)]
    ctx.check(R, "accumulate:single-append-site", len(puts) == 1, "append sites (put / put_slice / extend_from_slice) in into_bytes_mut and its closures: %d" % len(puts), ib)
    if len(puts) != 1:
        return
    h, pb, pt = puts[0]
    stream_allow = ASYNC + PIN + [r"StreamingBody::into_stream$"]
    a0, a1 = h.slice(pt["args"][0]), h.slice(pt["args"][1])
    root = borrow_root(h, pt["args"][0])
    if h is ib:
        # ---- loop form
        pulls = [(c, bb, t) for c, bb, t in a1.calls(PULL)]
        okp = len(pulls) == 1 and not callee_allow(a1, stream_allow + [PULL]) and not _consts(a1) and not [a for a in a1.atoms if a[0] in ("binop", "unop")]
        ctx.check(R, "accumulate:appends-each-chunk-whole", okp and root is not None,
                  "put(acc, chunk): chunk is the payload of %d pull call(s) on the stream, other operations on the way: %s" % (len(pulls), sorted(set(b[0] for b in callee_allow(a1, stream_allow + [PULL])))), (ib, pb))
        for c, eb, et in pulls:
            _chain(ctx, R, "accumulate:folds-this-body's-stream", ib, et["args"][0], stream_allow, (ib, eb), must_call=r"StreamingBody::into_stream$", origin=_from_upvar_param(ds, ib, [1]))
            # every pulled element is appended before the next pull
            again = eb in ib.reachable(ib.succ(eb), avoid=[pb])
            ctx.check(R, "accumulate:every-chunk-is-appended", not again, "a path from one pull of the stream to the next that skips the append exists: %s" % again, (ib, eb))
        # Added after adversary change C11-K (`while let Some(chunk) = stream.try_next().await?` became `if let`: only the first two
        # frames were read, a three-chunk body arrived truncated with a 200 and later frames were never counted against the limit):
        # after a chunk has been appended nothing is returned before the stream is pulled again -- the buffer is returned only once
        # the stream has reported its end
        okbbs = [b for b, _, s_ in ib.aggregates(r"^std::result::Result$", "Ok") if b in ib.reachable(0) and s_["pl"]["l"] == 0]
        early = [b for b in okbbs if b in ib.reachable(ib.succ(pb), avoid=[eb for _, eb, _ in pulls])]
        ctx.check(R, "accumulate:stream-read-to-its-end", bool(pulls) and not early,
                  "Ok(..) returns reachable after an append without pulling the stream again: %d (the loop must go back to the pull; only its end leads to the return)" % len(early), (ib, early[0] if early else pb))
        if root is None:
            return
        rs = ib.slice({"l": root, "p": []})
        ctx.check(R, "accumulate:starts-empty", rs.has_call(EMPTY_BUF) and not callee_allow(rs, [EMPTY_BUF]) and not rs.params() and not _consts_but_ints(rs),
                  "initial accumulator: %s" % rs.callee_names(), (ib, pb))
        writers = _mut_borrowers(ib, root)
        oks = [(b, s) for b, _, s in ib.aggregates(r"^std::result::Result$", "Ok") if b in ib.reachable(0)]
        good = bool(oks)
        for b, s in oks:
            sl = ib.slice(s["rv"]["ops"][0])
            good = good and sl.touches_local(root) and not callee_allow(sl, [EMPTY_BUF]) and not sl.params()
        ctx.check(R, "accumulate:returns-the-accumulator", good and [bb for bb, _ in writers] == [pb],
                  "%d Ok(..) sites, each carrying the accumulator itself: %s; calls that borrow the accumulator mutably: %s" % (len(oks), good, sorted(set(t["callee"] for _, t in writers))), ib)
        _chain(ctx, R, "accumulate:result-is-the-fold", ib, {"l": 0, "p": []}, stream_allow + [PULL, EMPTY_BUF], ib, must_call=r"StreamingBody::into_stream$", consts_ok="ints")
        return
    # ---- fold form: h is the closure handed to try_fold
    folds = [(bb, t) for bb, t in ib.live_calls(r"TryStreamExt::try_fold$") if any(g is h for g, _ in closure_args_of_call(ib, t))]
    # the accumulator may be moved, whole, into a local before it is appended to (`|acc, chunk| ready(Ok(append(acc, &chunk)))` with the
    # helper `fn append(mut acc: BytesMut, ..) -> BytesMut` inlined): the chain of whole-value moves back to the parameter is one value
    acc_locals = [2]
    for _ in range(6):
        more = [st["pl"]["l"] for _b, _i, st in h.stmts() if st["rv"]["rv"] == "use" and st["rv"]["op"].get("k") == "move" and not st["rv"]["op"]["pl"]["p"]
                and st["rv"]["op"]["pl"]["l"] in acc_locals and not st["pl"]["p"] and st["pl"]["l"] not in acc_locals and st["pl"]["l"] != 0]
        if not more:
            break
        acc_locals += more
    if root in acc_locals:
        root = 2
    ctx.check(R, "accumulate:appends-each-chunk-whole", len(folds) == 1 and a0.params() == [2] and root == 2 and a1.params() == [3] and not callee_allow(a0, ASYNC) and not callee_allow(a1, ASYNC)
              and not _consts(a1) and not [a for a in a1.atoms if a[0] in ("binop", "unop")],
              "the append site is in the closure of %d try_fold call(s); put(acc <- params %s, chunk <- params %s)" % (len(folds), a0.params(), a1.params()), (h, pb))
    ctx.check(R, "accumulate:every-chunk-is-appended", h.must_pass([pb]), "every path through the fold closure passes the append: %s" % h.must_pass([pb]), (h, pb))
    rs = h.slice({"l": 0, "p": []})
    writers = sorted(set((bb, t["callee"]) for l in acc_locals for bb, t in _mut_borrowers(h, l)))
    writers = [(bb, {"callee": c}) for bb, c in writers]
    ctx.check(R, "accumulate:returns-the-accumulator", 2 in rs.params() and not callee_allow(rs, ASYNC + [r"futures::future::ok$", r"future::ready$", APPEND]) and [bb for bb, _ in writers] == [pb],
              "fold closure returns params %s via %s; calls that borrow the accumulator mutably: %s" % (rs.params(), rs.callee_names(), sorted(set(t["callee"] for _, t in writers))), h)
    for bb, t in folds:
        _chain(ctx, R, "accumulate:folds-this-body's-stream", ib, t["args"][0], stream_allow, (ib, bb), must_call=r"StreamingBody::into_stream$",
               origin=_from_upvar_param(ds, ib, [1]))
        s1 = ib.slice(t["args"][1])
        ctx.check(R, "accumulate:starts-empty", s1.has_call(EMPTY_BUF) and not callee_allow(s1, [EMPTY_BUF]) and not s1.params() and not _consts_but_ints(s1),
                  "initial accumulator: %s" % s1.callee_names(), (ib, bb))
    _chain(ctx, R, "accumulate:result-is-the-fold", ib, {"l": 0, "p": []}, stream_allow + [r"TryStreamExt::try_fold$", EMPTY_BUF], ib,
           must_call=r"TryStreamExt::try_fold$", consts_ok="ints")


# ------------------------------------------------------------------------------------------------ R2
PRIMS = ["bool", "i8", "i16", "i32", "i64", "u8", "u16", "u32", "u64", "f32", "f64", "char", "i128", "u128"]
STRKINDS = ["str", "string", "identifier", "any", "ignored_any"]


def r2_primitive_table(ctx):
    R = ctx.rule("C09.R2", "in from_map each deserialize_<T> parses the raw value as T and passes the parsed value to visit_<T> (same T); string kinds pass as_value() to visit_str "
                 "unmodified; MapValue::as_value returns the stored string", floor=24)
    ds = ctx.ds
    meths = {}
    for i in ds.impls:
        if re.search(r"_serde::Deserializer$", i["trait"]) and "from_map::MapDeserializer" in i["self"]:
            for it in i["items"]:
                if it["kind"] == "Fn" and it["id"] in ds.F:
                    meths[it["name"]] = ds.F[it["id"]]
    if not meths:
        ctx.lost(R, "impl serde::Deserializer for &mut from_map::MapDeserializer")
        return
    raw_allow = ASYNC + [r"from_map::MapValue::as_value$"]
    nprim = 0
    for name, top in sorted(meths.items()):
        if not name.startswith("deserialize_"):
            continue
        T = name[len("deserialize_"):]
        fns = [top] + ds.descendants(top)
        visits = [(g, bb, t) for g in fns for bb, t in g.live_calls(r"_serde::de::Visitor::visit_\w+$")]
        if T in PRIMS:
            nprim += 1
            parses = [(g, bb, t) for g in fns for bb, t in g.live_calls(r"str::<impl str>::parse$|str::FromStr::from_str$")]
            ok = len(parses) == 1 and len(visits) == 1
            d = "%d parse sites, %d visit sites" % (len(parses), len(visits))
            if ok:
                g, pbb, pt = parses[0]
                vg, vbb, vt = visits[0]
                pty = (pt.get("gargs") or ["?"])[0]
                vname = vt["callee"].split("::")[-1]
                # parse input: as_value() of the closure's raw value parameter
                ps = g.slice(pt["args"][0])
                in_ok = ps.has_call(r"from_map::MapValue::as_value$") and not callee_allow(ps, raw_allow) and not _consts(ps) and ps.params() == [2]
                # visit input: the parse result (Ok payload), nothing else
                # (the Ok side only: `match parse() {Ok(v) => visit(v), Err(_) => Err(msg)}` and `let v = parse().map_err(|_| msg)?; visit(v)` are the same program)
                vss = [vg.slice(o) for o in value_sources(vg, vt["args"][1])]
                legs = [(vg, vss)]      # (function, slices) the value travels through from the parse call to the visit call
                how = ""
                if vg is g:
                    pss, v_ok = vss, bool(vss)
                else:
                    # the visit call is written in a closure that the parsing code receives as a callable (`parse_scalar::<T>(|v| visitor.visit_T(v))`
                    # with the parse in a generic helper): the closure passes its own argument on untouched, and the parsing code hands it the
                    # Ok payload of the parse (`.and_then(visit)` / `.map(visit)` / `visit(v)`) exactly once
                    v_ok = bool(vss) and all(vs.params() == [2] and not vs.callees and not _consts(vs) and not [a for a in vs.atoms if a[0] in ("binop", "unop")] for vs in vss)
                    hs = handoffs(fns, g, vg)
                    v_ok = v_ok and len(hs) == 1 and bool(hs[0][2])
                    pss = [g.slice(o) for o in (hs[0][2] or [])] if len(hs) == 1 else []
                    legs.append((g, pss))
                    how = " (visit in a callable handed to the parsing code by %s)" % [t_["callee"].split("::")[-1] for _, t_, _ in hs]
                    if v_ok and re.fullmatch(r"\w+/#\d+", pty):
                        # the parse type is a type parameter of the (inlined) generic helper: the parsed value reaches the callable's argument
                        # unconverted, so the parameter is instantiated as that argument's type
                        how += "; parse::<%s> instantiated as the callable's argument type" % pty
                        pty = vg.local_ty(2)
                for vs in pss:
                    v_ok = v_ok and any(b == pbb for _, b, _ in vs.calls(r"parse$|from_str$")) and not callee_allow(vs, raw_allow + [r"str::<impl str>::parse$", r"str::FromStr::from_str$"]) \
                        and not [a for a in vs.atoms if a[0] in ("binop", "unop")] and not _consts(vs)
                cast = [1 for fn_, sls in legs for b_, i_, s_ in fn_.stmts() if s_["rv"]["rv"] == "cast" and s_["rv"].get("kind", "").startswith(("IntToInt", "FloatToInt", "IntToFloat", "FloatToFloat"))
                        and any(vs.touches_local(s_["pl"]["l"]) for vs in sls)]
                ok = pty == T and vname == "visit_" + T and in_ok and v_ok and not cast
                d = "parse::<%s> -> %s; parse input is as_value(raw)=%s; visit input is the parsed value=%s%s; numeric casts on the way=%d" % (pty, vname, in_ok, v_ok, how, len(cast))
            ctx.check(R, "primitive:%s" % T, ok, d, top)
        elif T in STRKINDS:
            ok = len(visits) == 1
            d = "%d visit sites" % len(visits)
            if ok:
                vg, vbb, vt = visits[0]
                vs = vg.slice(vt["args"][1])
                ok = vt["callee"].endswith(("visit_str", "visit_borrowed_str", "visit_string")) and vs.has_call(r"from_map::MapValue::as_value$") and not callee_allow(vs, raw_allow) \
                    and not _consts(vs) and vs.params() == [2]
                d = "%s(as_value(raw)) unmodified=%s (callees %s)" % (vt["callee"].split("::")[-1], ok, vs.callee_names())
            ctx.check(R, "string-kind:%s" % T, ok, d, top)
    ctx.check(R, "primitive-count", nprim >= 12, "%d primitive deserialize_<T> methods examined" % nprim, None, nontrivial=False)
    # Added after adversary change C09-J (deserialize_option answered `visit_none` for an empty value, so `?owner=` reached the handler as
    # None instead of Some("")): a value that is present is present -- an absent field never gets here -- so the wrapper kinds hand the
    # deserializer itself to the matching visit_<wrapper>, on every path, and call no other visitor method
    # (deserialize_enum joined after adversary change C15-K: the raw value was first checked against the `variants` list serde passes
    # in -- which is advisory: a `#[serde(other)]` catch-all or a lenient hand-written impl accepts values that are not on it -- so a
    # first-page request with such a scan parameter was refused and the scan could not start)
    for name, vname in (("deserialize_option", "visit_some"), ("deserialize_newtype_struct", "visit_newtype_struct"), ("deserialize_enum", "visit_enum")):
        top = meths.get(name)
        if top is None:
            ctx.lost(R, "MapDeserializer::%s" % name)
            continue
        fns = [top] + ds.descendants(top)
        visits = [(g, bb, t) for g in fns for bb, t in g.live_calls(r"_serde::de::Visitor::visit_\w+$")]
        ok = len(visits) == 1 and visits[0][0] is top and visits[0][2]["callee"].endswith("::" + vname)
        d = "visitor calls: %s" % sorted(t["callee"].split("::")[-1] for _, _, t in visits)
        if ok:
            g, bb, t = visits[0]
            a = top.slice(t["args"][1])
            ok = top.must_pass([bb]) and t["dest"]["l"] == 0 and not t["dest"]["p"] and a.params() == [1] and not a.callees and not _consts(a)
            d += "; on every path: %s; its argument is the deserializer itself: %s" % (top.must_pass([bb]), a.params() == [1] and not a.callees)
        ctx.check(R, "wrapper-kind:%s" % name[len("deserialize_"):], ok, d, top)
    # the raw value handed to the closures is the deserializer's own Value
    val = ds.one(r"^from_map::MapDeserializer::<'de, Z>::value$")
    if val is None:
        ctx.lost(R, "MapDeserializer::value")
    else:
        calls = val.live_calls(r"ops::FnOnce::call_once$|ops::Fn::call$|ops::FnMut::call_mut$")
        ok = len(calls) == 1
        d = "%d closure invocations" % len(calls)
        for bb, t in calls:
            s = val.slice(t["args"][1])
            ok = ok and s.params() == [1] and not callee_allow(s, ASYNC) and not _consts(s)
            d += "; closure argument <- params %s" % s.params()
        ctx.check(R, "value-helper-passes-own-value", ok, d, val)
    # MapValue::as_value impls return the stored string
    n = 0
    for i, f in impl_fns(ds, r"^from_map::MapValue$", "as_value"):
        n += 1
        oks = [(b, s) for b, _, s in f.aggregates(r"^std::result::Result$", "Ok") if b in f.reachable(0)]
        good = bool(oks)
        for b, s in oks:
            sl = f.slice(s["rv"]["ops"][0])
            good = good and sl.params() == [1] and not callee_allow(sl, ASYNC + [r"string::String::as_str$"]) and not _consts(sl)
        ctx.check(R, "as_value:%s" % i["self"], good, "Ok(..) returns the stored string itself: %s" % good, f)
    if n == 0:
        ctx.lost(R, "impls of from_map::MapValue")
    # sequences: as_seq items go to the element deserializer unmodified.  On the normalised view: `match it.next() {Some(v) => seed.deserialize(&mut Value(v)).map(Some), None => Ok(None)}`,
    # `it.next().map(|v| seed.deserialize(&mut Value(v))).transpose()` and the let-else spelling build the element deserializer in the method's own body.
    dn = ctx.dsn
    for nm_, rx in (("next_element_seed", r"SeqAccess"), ("next_value_seed", r"MapAccess"), ("next_key_seed", r"MapAccess")):
        for i, f in impl_fns(dn, r"_serde::de::%s$" % rx, nm_):
            aggs = [(b, s) for b, _, s in f.aggregates(r"^from_map::MapDeserializer$", "Value") if b in f.reachable(0)]
            stray = [h.id for h in dn.descendants(f) if any(True for _ in h.aggregates(r"^from_map::MapDeserializer$"))]
            good = len(aggs) == 1 and not stray
            for b, s in aggs:
                sl = f.slice(s["rv"]["ops"][0])
                good = good and sl.params() == [1] and not callee_allow(sl, ASYNC + [r"iter::Iterator::next$", r"Option::<T>::take$", r"Option::<T>::replace$"]) and not _consts(sl)
            # .. and that deserializer (nothing else) is what the seed decodes from
            fed = []
            for bb, t in f.live_calls(r"_serde::de::DeserializeSeed::deserialize$"):
                ds_ = f.slice(t["args"][1])
                fed.append(len(aggs) == 1 and ds_.touches_local(aggs[0][1]["pl"]["l"]) and not callee_allow(ds_, ASYNC + [r"iter::Iterator::next$", r"Option::<T>::take$", r"Option::<T>::replace$"]))
            good = good and len(fed) == 1 and all(fed)
            ctx.check(R, "access:%s" % nm_, good, "the value handed to the element deserializer comes from self (iterator item / saved value) unmodified, and the seed decodes from that deserializer: %s%s" % (
                good, ("; MapDeserializer literals in closures: %s" % stray) if stray else ""), f)


# ------------------------------------------------------------------------------------------------ R3
def r3_request_context(ctx):
    R = ctx.rule("C09.R3", "the per-request context is built from this invocation's request, peer address, request id and lookup result; the peer address flows per connection "
                 "from accept() to the context; both handler invocations get that context and that request", floor=38)
    ds = ctx.dsn
    top = ctx.need_fn(ds, R, r"^server::http_request_handle$")
    hb = ds.body_of(top)
    nm = _names(top)
    P = {k: nm.get(k, [d])[0] for k, d in (("server", 1), ("request", 2), ("request_id", 3), ("request_log", 4), ("remote_addr", 5))}
    aggs = [(f, b, st) for f in ds.F.values() for b, i, st in f.aggregates(r"^handler::RequestContext$") if b in f.reachable(0)]
    ctx.check(R, "single-context-site", len(aggs) == 1 and aggs[0][0] is hb, "RequestContext is built in: %s" % [f.id for f, _, _ in aggs], hb)
    if len(aggs) != 1 or aggs[0][0] is not hb:
        return
    _, ab, st = aggs[0]
    fields = [fd["name"] for fd in ds.adt_fields("handler::RequestContext")]
    ops = dict(zip(fields, st["rv"]["ops"]))
    reqwrap = ASYNC + [r"http::Request::<T>::map$"]

    def up(params, field=None):
        return _from_upvar_param(ds, hb, params, field)
    if set(fields) != {"server", "endpoint", "request_id", "log", "request"}:
        ctx.check(R, "context-fields", False, "RequestContext fields changed: %s — extend this rule" % fields, hb)
    sl = _chain(ctx, R, "ctx.request:from-this-request-and-peer", hb, ops["request"], reqwrap + [r"^handler::RequestInfo::new$"], (hb, ab), must_call=r"^handler::RequestInfo::new$",
                origin=up([P["request"], P["remote_addr"]]))
    for c, bb, t in sl.calls(r"^handler::RequestInfo::new$"):
        _chain(ctx, R, "ctx.request:info-of-this-request", hb, t["args"][0], reqwrap, (hb, bb), origin=up([P["request"]]))
        _chain(ctx, R, "ctx.request:peer-is-this-connection's", hb, t["args"][1], ASYNC, (hb, bb), origin=up([P["remote_addr"]]))
    look = hb.live_calls(r"HttpRouter::<Context>::lookup_route$")
    ctx.check(R, "single-lookup", len(look) == 1, "lookup_route sites: %d" % len(look), hb)
    sl = _chain(ctx, R, "ctx.endpoint:from-this-lookup", hb, ops["endpoint"],
                reqwrap + [r"HttpRouter::<Context>::lookup_route$", r"http::Request::<T>::(method|uri)$", r"http::Uri::path$", r"VersionPolicy::request_version$", r"Option::<T>::as_ref$"],
                (hb, ab), must_call=r"HttpRouter::<Context>::lookup_route$", consts_ok=True)
    ctx.check(R, "ctx.endpoint:is-the-result's-endpoint", sl.reads_field("endpoint"), "reads the `endpoint` field of the lookup result: %s" % sl.reads_field("endpoint"), (hb, ab))
    for bb, t in look:
        for k, what in ((1, "method"), (2, "path")):
            _chain(ctx, R, "lookup:%s-of-this-request" % what, hb, t["args"][k], reqwrap + [r"http::Request::<T>::(method|uri)$", r"http::Uri::path$"], (hb, bb),
                   must_call=r"http::Request::<T>::%s$" % ("method" if k == 1 else "uri"), origin=up([P["request"]]))
    _chain(ctx, R, "ctx.request_id:this-invocation's", hb, ops["request_id"], ASYNC + [r"string::ToString::to_string$", r"borrow::ToOwned::to_owned$"], (hb, ab), origin=up([P["request_id"]]))
    _chain(ctx, R, "ctx.server:shared-state", hb, ops["server"], ASYNC + [r"sync::Arc::<T, A>::clone$"], (hb, ab), origin=up([P["server"]]))
    # handler invocations
    hs = []
    for g in [hb] + ds.descendants(hb):
        for bb, t in g.live_calls(r"handler::RouteHandler::handle_request$"):
            hs.append((g, bb, t))
    ctx.check(R, "two-handler-sites", len(hs) == 2, "RouteHandler::handle_request call sites under http_request_handle: %d" % len(hs), hb)
    ctx_local = st["pl"]["l"]
    for g, bb, t in hs:
        tag = "direct" if g is hb else "spawned"
        if g is hb:
            s1, s2, s0 = hb.slice(t["args"][1]), hb.slice(t["args"][2]), hb.slice(t["args"][0])
            # the argument is the aggregate built above: nothing is applied to it beyond what built its fields (each field's own chain is checked above)
            built = set((c, b) for c, b, _ in hb.slice({"l": ctx_local, "p": []}).callees)
            extra = [x for x in callee_allow(s1, reqwrap) if x not in built]
            ok1 = s1.touches_local(ctx_local) and not extra
            ok2 = upvar_params(ds, hb, s2) == {P["request"]} and not callee_allow(s2, reqwrap)
            ok0 = s0.has_call(r"lookup_route$") and s0.reads_field("handler")
        else:
            # the spawned task captured rqctx / request / handler from hb
            def cap(op):
                s = g.slice(op)
                outs = []
                for k in upvar_fields(s):
                    p, ps = upvar_origin(ds, g, k)
                    outs.append(ps)
                return s, outs
            s1, o1 = cap(t["args"][1])
            s2, o2 = cap(t["args"][2])
            s0, o0 = cap(t["args"][0])
            ok1 = len(o1) == 1 and o1[0] is not None and o1[0].touches_local(ctx_local) and not callee_allow(s1, ASYNC)
            ok2 = len(o2) == 1 and o2[0] is not None and upvar_params(ds, hb, o2[0]) == {P["request"]} and not callee_allow(o2[0], reqwrap) and not callee_allow(s2, ASYNC)
            ok0 = len(o0) == 1 and o0[0] is not None and o0[0].has_call(r"lookup_route$") and o0[0].reads_field("handler")
        ctx.check(R, "handler-gets-this-context:%s" % tag, ok1, "rqctx argument is the RequestContext built here: %s" % ok1, (g, bb))
        ctx.check(R, "handler-gets-this-request:%s" % tag, ok2, "request argument is this invocation's request (body wrapped): %s" % ok2, (g, bb))
        ctx.check(R, "handler-is-the-lookup's:%s" % tag, ok0, "the handler invoked is lookup_result.handler: %s" % ok0, (g, bb))
    # RequestInfo::new copies from its own arguments
    rn = ctx.need_fn(ds, R, r"^handler::RequestInfo::new$")
    ra = [(b, s) for b, i, s in rn.aggregates(r"^handler::RequestInfo$")]
    rfields = [fd["name"] for fd in ds.adt_fields("handler::RequestInfo")]
    want = {"method": r"http::Request::<T>::method$", "uri": r"http::Request::<T>::uri$", "version": r"http::Request::<T>::version$", "headers": r"http::Request::<T>::headers$"}
    if len(ra) != 1:
        ctx.lost(R, "RequestInfo aggregate in RequestInfo::new")
    else:
        b_, s_ = ra[0]
        for fname, op in zip(rfields, s_["rv"]["ops"]):
            if fname in want:
                others = [v for k, v in want.items() if k != fname]
                sl = rn.slice(op)
                ok = sl.has_call(want[fname]) and not any(sl.has_call(o) for o in others) and sl.params() == [1] and not callee_allow(sl, ASYNC + [want[fname]]) and not _consts(sl)
                ctx.check(R, "info.%s:copied-from-the-request" % fname, ok, "field %s <- %s of params %s" % (fname, sl.callee_names(), sl.params()), (rn, b_))
            elif fname == "remote_addr":
                sl = rn.slice(op)
                ctx.check(R, "info.remote_addr:is-the-argument", sl.params() == [2] and not sl.callees and not _consts(sl), "field remote_addr <- params %s" % sl.params(), (rn, b_))
            else:
                ctx.check(R, "info.%s:unknown-field" % fname, False, "RequestInfo has a field this rule does not know: %s" % fname, (rn, b_))
    for fname in rfields:
        acc = ds.one(r"^handler::RequestInfo::%s$" % re.escape(fname))
        if acc is None:
            continue
        sl = acc.slice({"l": 0, "p": []})
        rf = [x for x in rfields if sl.reads_field(x)]
        ctx.check(R, "accessor.%s:returns-own-field" % fname, rf == [fname] and sl.params() == [1] and not callee_allow(sl, ASYNC) and not _consts(sl),
                  "RequestInfo::%s() reads fields %s" % (fname, rf), acc)
    # peer address: Service::call -> wrap -> handle
    calls = [(i, f) for i, f in impl_fns(ds, r"hyper::service::Service", "call") if "ServerRequestHandler" in i["self"]]
    if len(calls) != 1:
        ctx.lost(R, "hyper Service::call impl for ServerRequestHandler")
    else:
        sc = calls[0][1]
        for bb, t in sc.live_calls(r"^server::http_request_handle_wrap$"):
            s1 = sc.slice(t["args"][1])
            ctx.check(R, "service:peer-is-the-connection's", s1.params() == [1] and s1.reads_field("remote_addr") and not s1.callees and not _consts(s1),
                      "http_request_handle_wrap(remote_addr <- self.remote_addr): params %s" % s1.params(), (sc, bb))
            s2 = sc.slice(t["args"][2])
            ctx.check(R, "service:request-is-the-incoming-one", s2.params() == [2] and not s2.callees, "http_request_handle_wrap(request <- req): params %s" % s2.params(), (sc, bb))
    wtop = ctx.need_fn(ds, R, r"^server::http_request_handle_wrap$")
    wb = ds.body_of(wtop)
    wn = _names(wtop)
    for bb, t in wb.live_calls(r"^server::http_request_handle$"):
        for idx, pname, d in ((0, "server", 1), (1, "request", 3), (4, "remote_addr", 2)):
            s = wb.slice(t["args"][idx])
            got = upvar_params(ds, wb, s)
            ctx.check(R, "wrap:%s-passed-through" % pname, got == {wn.get(pname, [d])[0]} and not callee_allow(s, ASYNC) and not _consts(s),
                      "http_request_handle(%s <- wrap params %s)" % (pname, sorted(got or [])), (wb, bb))
    nf = ds.one(r"^server::ServerRequestHandler::<C>::new$")
    if nf is None:
        ctx.lost(R, "ServerRequestHandler::new")
    else:
        sa = [(f, b, s) for f in ds.F.values() for b, i, s in f.aggregates(r"^server::ServerRequestHandler$")]
        ctx.check(R, "service:single-constructor", len(sa) == 1 and sa[0][0] is nf, "ServerRequestHandler is built in %s" % [f.id for f, _, _ in sa], nf)
        sfields = [fd["name"] for fd in ds.adt_fields("server::ServerRequestHandler")]
        for f, b, s in sa:
            if "remote_addr" in sfields:
                sl = f.slice(s["rv"]["ops"][sfields.index("remote_addr")])
                pn = _names(f).get("remote_addr", [2])
                ctx.check(R, "service:stores-its-argument", sl.params() == pn and not sl.callees, "ServerRequestHandler.remote_addr <- params %s" % sl.params(), (f, b))
    mk = callers(ds, r"ServerConnectionHandler::<C>::make_http_request_handler$")
    ctx.check(R, "service:one-handler-per-accepted-connection", len(mk) >= 1, "make_http_request_handler call sites: %d (one per accept arm)" % len(mk), None)
    for f, bb, t in mk:
        s = f.slice(t["args"][1])
        ok = (s.has_call(r"Acceptor::accept$") or s.has_call(r"remote_addr$|peer_addr$")) and not s.reads_field("local_addr")
        ctx.check(R, "service:peer-from-accept:%s" % ("tls" if s.has_call(r"HttpsAcceptor") else "plain"), ok, "argument derives from accept()/remote_addr(): %s" % ok, (f, bb))
    # Added after adversary change C09-L (the TLS acceptor queued accepted peers in a VecDeque and gave each finished negotiation the
    # front of the queue: negotiations finish in completion order, so a connection whose handshake overtook another's was labelled with
    # the other client's address): the address a TlsConn is built with is the one accepted together with its socket -- it comes
    # straight from that HttpAcceptor::accept() (captured by the closure that wraps the negotiated stream), through no collection
    ns = ds.one(r"^server::HttpsAcceptor::new_stream$")
    tls_sites = []
    if ns is not None:
        for g in [ds.body_of(ns)] + ds.descendants(ds.body_of(ns)):
            for bb, t in g.live_calls(r"^server::TlsConn::new$"):
                tls_sites.append((g, bb, t))
    ctx.check(R, "tls:conn-sites", len(tls_sites) >= 1, "TlsConn::new call sites under HttpsAcceptor::new_stream: %d" % len(tls_sites), ns, nontrivial=False)
    # (the accepted pair reaches the arm through select!'s output value, whose slice includes the machinery of the select itself)
    okfrom = ASYNC + PIN + [r"^server::HttpAcceptor::accept$", r"^std::future::poll_fn$", r"^futures::StreamExt::next$", r"^futures::stream::FuturesUnordered::<Fut>::new$",
                            r"^std::default::Default::default$", r"^tokio::macros::support::", r"tokio::sync::Mutex::<T>::lock$", r"TlsAcceptor::accept$"]
    for g, bb, t in tls_sites:
        a = g.slice(t["args"][1])
        if a.has_call(r"^server::HttpAcceptor::accept$"):
            ok = not callee_allow(a, okfrom) and not _consts(a)
            how = "from accept() in the same body, other operations: %s" % sorted(set(x[0] for x in callee_allow(a, okfrom)))
        else:
            # a closure: the address is a capture; the captured value, in the function that builds the closure, comes from accept()
            par = ds.F.get(g.raw.get("parent"))
            ok, how = False, "not derived from HttpAcceptor::accept()"
            if a.params() == [1] and not a.callees and not _consts(a) and par is not None:
                caps = [o for b2, i2, st2 in par.stmts() if st2["rv"]["rv"] == "agg" and st2["rv"].get("agg") in ("closure", "coroutine") and st2["rv"].get("def") == g.id
                        for o in st2["rv"]["ops"] if o.get("k") in ("move", "copy") and "SocketAddr" in (par.local_ty(o["pl"]["l"]) or "")]
                sls = [par.slice(o) for o in caps]
                ok = len(caps) == 1 and all(x.has_call(r"^server::HttpAcceptor::accept$") and not callee_allow(x, okfrom) for x in sls)
                how = "captured by the closure wrapping the negotiated stream; the capture comes from accept() with other operations %s" % sorted(set(y[0] for x in sls for y in callee_allow(x, okfrom)))
        ctx.check(R, "tls:peer-is-the-one-accepted-with-the-socket", ok, "TlsConn::new(stream, addr): addr %s" % how, (g, bb))
    mf = ds.one(r"^server::ServerConnectionHandler::<C>::make_http_request_handler$")
    if mf is not None:
        for bb, t in mf.live_calls(r"ServerRequestHandler::<C>::new$"):
            s = mf.slice(t["args"][1])
            ctx.check(R, "service:new-gets-the-accepted-peer", s.params() == _names(mf).get("remote_addr", [2]) and not s.callees, "new(.., remote_addr <- params %s)" % s.params(), (mf, bb))


# ------------------------------------------------------------------------------------------------ R4
INTERIOR = r"\b(Mutex|RwLock|RefCell|Cell|UnsafeCell|OnceCell|OnceLock|LazyLock|LazyCell|Lazy|Atomic\w*|AtomicPtr|Semaphore|Notify|watch::|mpsc::|broadcast::|oneshot::)\b|atomic::Atomic"
# shared state that is allowed to be interior-mutable: (ADT, field) -> reason
SHARED_MUT_OK = {
    ("server::DropshotState", "tls_acceptor"): "the TLS acceptor is swapped by refresh_tls(); it carries no request data and is read only by the accept loop",
}
STATIC_OK = {
    "test_util::TEST_SUITE_LOGGER_ID": "test helper counter for log file names; not referenced from the server path (checked: no reader in the region reachable from Service::call)",
}


def r4_no_shared_channel(ctx):
    R = ctx.rule("C09.R4", "no `static mut`, no interior-mutable static on the server path, and no interior-mutable field in the state shared between requests "
                 "other than the reviewed entries", floor=12)
    ds, ep = ctx.ds, ctx.ep
    for facts in (ds, ep):
        muts = [s["id"] for s in facts.statics if s.get("mut")]
        ctx.check(R, "no-static-mut:%s" % facts.crate, not muts, "`static mut` items in crate %s: %s" % (facts.crate, muts), None)
        nf = sorted(set(s["id"] for s in facts.statics if not s.get("freeze", True)))
        for sid in nf:
            ctx.check(R, "interior-mutable-static:%s" % sid, sid in STATIC_OK, "static with interior mutability (%s): %s" % (
                [s["ty"] for s in facts.statics if s["id"] == sid][0], STATIC_OK.get(sid, "not on the reviewed list")), None)
        ctx.check(R, "statics-examined:%s" % facts.crate, True, "%d statics examined in %s, %d not Freeze" % (len(facts.statics), facts.crate, len(nf)), None, nontrivial=False)
    # the allowed static must not be referenced from the request path
    calls = [f for i, f in impl_fns(ds, r"hyper::service::Service", "call")]
    reg = ds.region([f.id for f in calls])
    users = []
    for fid in reg:
        f = ds.F[fid]
        if f.const_uses(r"TEST_SUITE_LOGGER_ID"):
            users.append(fid)

    def mentions_static(o, name):
        if isinstance(o, dict):
            if any(isinstance(v, str) and name in v for v in o.values()):
                return True
            return any(mentions_static(v, name) for v in o.values())
        if isinstance(o, list):
            return any(mentions_static(v, name) for v in o)
        return False
    for fid in reg:
        if mentions_static(ds.F[fid].blocks, "TEST_SUITE_LOGGER_ID") and fid not in users:
            users.append(fid)
    ctx.check(R, "reviewed-static-off-the-request-path", not users and len(reg) > 50, "functions reachable from Service::call (%d) that mention TEST_SUITE_LOGGER_ID: %s" % (len(reg), users), None)
    # interior mutability in shared state: recursive walk over crate-local ADT fields
    roots = ["server::DropshotState", "server::ServerRequestHandler", "server::ServerConnectionHandler", "handler::RequestContext"]
    seen, found, walked = set(), [], 0
    rx = re.compile(INTERIOR)
    local = sorted(ds.adts.keys(), key=len, reverse=True)
    stack = [r for r in roots]
    for r in roots:
        if r not in ds.adts:
            ctx.lost(R, "ADT %s" % r)
    while stack:
        a = stack.pop()
        if a in seen or a not in ds.adts:
            continue
        seen.add(a)
        for v in ds.adts[a]["variants"]:
            for fd in v["fields"]:
                walked += 1
                ty = fd["ty"]
                if rx.search(ty):
                    found.append((a, fd["name"], ty))
                for other in local:
                    if other in ty and other not in seen and not other.startswith(("std::", "core::", "alloc::")) and "::" in other and ds.adts[other].get("local", True):
                        stack.append(other)
    for a, fname, ty in found:
        ctx.check(R, "shared-interior-mutability:%s.%s" % (a, fname), (a, fname) in SHARED_MUT_OK,
                  "field %s.%s : %s — %s" % (a, fname, ty[:120], SHARED_MUT_OK.get((a, fname), "not on the reviewed list")), None)
    ctx.check(R, "shared-state-walk", len(seen) >= 8 and walked >= 30, "walked %d fields of %d ADTs reachable from %s" % (walked, len(seen), roots), None)
    ctx.notes["shared_state_adts"] = sorted(seen)
    # RequestContext owns its per-request data (no references, no shared cells besides the Arc to DropshotState)
    rc = ds.adt_fields("handler::RequestContext") or []
    for fd in rc:
        ty = fd["ty"]
        ok = not ty.startswith("&") and ("Arc<" not in ty or ty.startswith("std::sync::Arc<server::DropshotState") or ty.startswith("slog::Logger"))
        ctx.check(R, "context-field-owned:%s" % fd["name"], ok, "RequestContext.%s : %s" % (fd["name"], ty[:100]), None)


# ------------------------------------------------------------------------------------------------ R5
def r5_multipart_boundary(ctx):
    R = ctx.rule("C09.R5", "the boundary given to multer::Multipart comes from multer::parse_boundary (or mime::Mime::get_param) applied to this request's Content-Type header, "
                 "with no substring operation; the multipart stream is this request's body", floor=5)
    # (normalised view: `.ok_or_else(..)?.to_str().map_err(..)?`, `.ok_or_else(..).and_then(|hv| hv.to_str().map_err(..))?`, let-else and match spellings of the header read are one program)
    ds = ctx.dsn
    sites = callers(ds, r"multer::Multipart::<'r>::(new|with_constraints)$|multer::Multipart::(new|with_constraints)$")
    ctx.check(R, "multipart-sites", len(sites) >= 1, "multer::Multipart constructor sites: %d" % len(sites), None, nontrivial=False)
    hdr = ASYNC + [r"http::HeaderMap::<T>::get$", r"http::HeaderValue::to_str$", r"Option::<T>::ok_or_else$", r"Option::<T>::ok_or$", r"Result::<T, E>::map_err$",
                   r"http::Request::<T>::into_parts$", r"http::Request::<T>::headers$"]
    for f, bb, t in sites:
        root = ds.F.get(f.raw.get("parent"))
        nm = _names(root) if root else {}
        bidx = 1
        sl = f.slice(t["args"][bidx])
        parser = r"multer::parse_boundary$|mime::Mime::get_param$"
        bad = callee_allow(sl, hdr + [parser, r"str::FromStr::from_str$", r"str::<impl str>::parse$", r"mime::Name::<'a>::as_str$", r"string::ToString::to_string$", r"borrow::ToOwned::to_owned$"])
        has = sl.has_call(parser)
        ct = sl.has_const_path(r"header::CONTENT_TYPE$")
        ctx.check(R, "boundary-from-mime-parser:%s" % f.id, has and not bad and ct,
                  "boundary derives from a MIME parser=%s, of the Content-Type header=%s, other operations on the way: %s" % (has, ct, sorted(set(b[0] for b in bad))), (f, bb))
        got = upvar_params(ds, f, sl)
        ctx.check(R, "boundary-header-of-this-request:%s" % f.id, got == set(nm.get("request", [2])), "header read from the request captured from params %s" % sorted(got or []), (f, bb))
        for c, pb, pt in sl.calls(parser):
            ps = f.slice(pt["args"][0])
            badp = callee_allow(ps, hdr)
            ctx.check(R, "parser-input-is-the-raw-header:%s" % f.id, not badp and ps.has_const_path(r"header::CONTENT_TYPE$") and not [a for a in ps.atoms if a[0] == "lit"],
                      "parse_boundary argument: operations %s" % sorted(set(b[0] for b in badp)), (f, pb))
        # Added after adversary change C09-I (a length test on the parsed boundary, `> 69` where RFC 2046 allows 70, refused a well-formed
        # request before the handler): the MIME parser is the only judge of the boundary -- once it has accepted, every path leads to
        # the Multipart constructor, none to an early refusal
        for c, pb, pt in sl.calls(parser):
            if pt["dest"]["p"]:
                continue
            sp = result_split(f, pt["dest"]["l"])
            delivered = sp is not None and sp["ok"] is not None and f.must_pass([bb], start=sp["ok"])
            ctx.check(R, "parsed-boundary-is-always-delivered:%s" % f.id, delivered,
                      "after %s accepted the Content-Type, every path to a return passes the Multipart constructor: %s" % (c.split("::")[-1], delivered), (f, pb))
        ss = f.slice(t["args"][0])
        bads = callee_allow(ss, ASYNC + [r"StreamingBody::into_stream$", r"StreamingBody::new$", r"RequestContext::<Context>::request_body_max_bytes$", r"http::Request::<T>::into_parts$",
                                         r"http::Request::<T>::into_body$"])
        gots = upvar_params(ds, f, ss)
        ctx.check(R, "stream-is-this-request's-body:%s" % f.id, not bads and ss.has_call(r"StreamingBody::into_stream$") and gots is not None and set(nm.get("request", [2])) <= gots,
                  "stream argument: operations off the list %s, captured from params %s" % (sorted(set(b[0] for b in bads)), sorted(gots or [])), (f, bb))


# ------------------------------------------------------------------------------------------------ R6
def r6_positional_arguments(ctx):
    R = ctx.rule("C09.R6", "each HttpHandlerFunc impl calls the user function with (rqctx, tuple.0, tuple.1, ..) in declared order", floor=4)
    ds = ctx.ds
    impls = impl_fns(ds, r"^handler::HttpHandlerFunc", "handle_request")
    for i, top in impls:
        b = ds.body_of(top)
        calls = b.live_calls(r"ops::Fn::call$|ops::FnOnce::call_once$|ops::FnMut::call_mut$")
        calls = [(bb, t) for bb, t in calls if upvar_params(ds, b, b.slice(t["args"][0])) == {1}]
        m = re.search(r"HttpHandlerFunc<[^,]+, (\(.*\)), [^,]+>$", i["trait"])
        key = "arity:%s" % top.id.split("HttpHandlerFunc<")[-1].split(">>")[0]
        if len(calls) != 1:
            ctx.check(R, key, False, "%d invocations of the user function" % len(calls), top)
            continue
        bb, t = calls[0]
        l = operand_local(t["args"][1])
        dd = b.defs().get(l, []) if l is not None else []
        if len(dd) != 1 or dd[0][1] != "assign" or dd[0][2]["rv"]["rv"] != "agg" or dd[0][2]["rv"].get("agg") != "tuple":
            ctx.check(R, key, False, "argument pack of the user function is not a single tuple aggregate", (b, bb))
            continue
        ops = dd[0][2]["rv"]["ops"]
        nmz = _names(top)
        ok = True
        desc = []
        for k, op in enumerate(ops):
            s = b.slice(op)
            got = upvar_params(ds, b, s)
            if k == 0:
                good = got == set(nmz.get("rqctx", [2])) and not callee_allow(s, ASYNC)
                desc.append("arg0<-rqctx:%s" % good)
            else:
                flds = set()
                for p in s.places:
                    pl = json.loads(p)
                    fs = [e["f"] for e in pl["p"] if isinstance(e, dict) and "f" in e]
                    if pl["l"] != 1 and fs:
                        flds.add(fs[-1])
                good = got == set(nmz.get("_param_tuple", [3])) and flds == {k - 1} and not callee_allow(s, ASYNC)
                desc.append("arg%d<-tuple.%s:%s" % (k, sorted(flds), good))
            ok = ok and good
        ctx.check(R, key, ok, "; ".join(desc), (b, bb))



def r7_every_framing_accepted(ctx):
    """`every standards-conformant way of framing the body`: the body stream may refuse only on counted bytes / a sound
    lower bound / a transport error, so chunked and length-less bodies are treated like Content-Length ones.  This is
    C11.R6, re-evaluated here because its violation is a C09 violation too (seed C09-B)."""
    from . import c11
    from .lib_c01 import Renamed
    c11.r6_only_counted_bytes_refuse(Renamed(ctx, "C09.R7", "a body is delivered or refused independently of how its length was declared"))



def r8_media_type_normalised(ctx):
    """Added after adversary change C09-C (the `trim_end()` between the cut at `;` and the lower-casing was lost, so
    `Content-Type: application/json ; charset=utf-8` — legal per RFC 9110 8.3.1 — was refused)."""
    R = ctx.rule("C09.R8", "the request's media type is compared after RFC 9110 normalisation: parameters cut at the first ';', optional whitespace trimmed, case folded — "
                 "so every standards-conformant spelling of the endpoint's content type reaches the decoder", floor=4)
    top = ctx.need_fn(ctx.ds, R, r"^extractor::body::http_request_load_body$")
    f = ctx.ds.body_of(top)
    fm = f.live_calls(r"ApiEndpointBodyContentType::from_mime_type$")
    ctx.check(R, "one-media-type-lookup", len(fm) == 1, "from_mime_type call sites in http_request_load_body: %d" % len(fm), f)
    if len(fm) != 1:
        return
    bb, t = fm[0]
    sl = f.slice(t["args"][0])
    hdr = sl.has_const_path(r"header::CONTENT_TYPE$") and sl.has_call(r"http::HeaderMap::<T>::get$")
    cut = sl.has_call(r"str::<impl str>::(find|split|split_once|splitn)$") and any(a[0] == "lit" and a[1] == '{"int": 59, "bytes": 4}' for a in sl.atoms)
    trim = sl.has_call(r"str::<impl str>::(trim|trim_end|trim_ascii|trim_ascii_end)$")
    fold = sl.has_call(r"str::<impl str>::(to_lowercase|to_ascii_lowercase)$|eq_ignore_ascii_case$")
    ctx.check(R, "from-this-request's-content-type-header", hdr, "the looked-up media type derives from headers.get(CONTENT_TYPE): %s" % hdr, (f, bb))
    ctx.check(R, "parameters-cut-at-semicolon", cut, "the value is cut at ';' before the lookup: %s" % cut, (f, bb))
    ctx.check(R, "optional-whitespace-trimmed", trim, "whitespace between the media type and ';' is trimmed (trim / trim_end) before the lookup: %s" % trim, (f, bb))
    ctx.check(R, "case-folded", fold, "the media type is case-folded before the lookup: %s" % fold, (f, bb))


def r9_path_segments_decoded_once(ctx):
    """`every path variable is the percent-decoded segment the client sent`: the request path is split on '/' first and each
    segment is percent-decoded exactly once with nothing else applied to it.  This is C03.R1, re-evaluated here because
    its violation is a C09 violation too (adversary change C09-E turned '+' into a space before decoding)."""
    from . import c03
    from .lib_c01 import Renamed
    c03.r1_decode_once(Renamed(ctx, "C09.R9", "a path variable is the client's segment, percent-decoded once, with no other transformation"))


def r10_wildcard_gets_the_segments(ctx):
    """`a wildcard variable is the list of the remaining segments as sent`: the trie walk binds variables to the walk's own
    segments (single variable: the current one; wildcard: the current one followed by every remaining one, in order, nothing
    split or merged).  This is C01.R3, re-evaluated here (adversary change C09-F re-split decoded wildcard segments on '/')."""
    from . import c01
    from .lib_c01 import Renamed
    c01.r3_walk_integrity(Renamed(ctx, "C09.R10", "path variables are bound to the segments of the walk: one segment per single variable, all remaining segments in order per wildcard"))


def r11_request_not_rewritten(ctx):
    """Added after adversary change C09-G: http_request_handle rewrote an absolute-form / HTTP/2 request target to origin-form from
    `uri().path()` alone, so the query string never reached Query<T> or the handler."""
    R = ctx.rule("C09.R11", "between the connection and the handler nothing rewrites the request: the dispatch path (ServerRequestHandler::call, http_request_handle_wrap, http_request_handle "
                 "and everything they build) uses only the read accessors of http::Request and Request::map (which changes the body type, not the head)", floor=3)
    ds = ctx.ds
    READ = r"^http::Request::<T>::(method|uri|headers|version|extensions|body|map)$"
    n = 0
    for pat in (r"^server::http_request_handle$", r"^server::http_request_handle_wrap$", r"^<server::ServerRequestHandler<C> as hyper::service::Service<http::Request<hyper::body::Incoming>>>::call$"):
        top = ds.one(pat)
        if top is None:
            ctx.lost(R, "function /%s/" % pat)
            continue
        b = ds.body_of(top)
        sites = []
        for g in [b] + ds.descendants(b):
            for bb, t in g.live_calls(r"^http::(Request::<T>|request::Parts|request::Builder)::|^http::request::Request::<T>::"):
                n += 1
                if not re.search(READ, t["callee"]):
                    sites.append((g, bb, t["callee"]))
        ctx.check(R, "request-head-untouched:%s" % top.id.split("::")[-1], not sites,
                  "calls on the request other than read accessors / map: %s" % (sorted(set(c for _, _, c in sites)) or "none"), (sites[0][0], sites[0][1]) if sites else b)
    ctx.check(R, "request-accessor-census", n >= 4, "calls on http::Request under the dispatch path: %d" % n, None, nontrivial=False)


def r12_only_dot_segments_are_refused(ctx):
    """`any string a client encodes into a path segment reaches the handler unchanged`: the only decoded segments the router refuses are
    exactly `.` and `..`.  This is C03.R2, re-evaluated here (adversary change C09-M: the dot test became `bytes().all(|b| b == b'.')`, so
    `...` -- a legal variable value -- was answered 400)."""
    from . import c03
    from .lib_c01 import Renamed
    c03.r2_dot_segments(Renamed(ctx, "C09.R12", "a decoded path segment is refused only when it equals `.` or `..`; every other value is handed on"))


RULES = [("C09.R12", r12_only_dot_segments_are_refused), ("C09.R11", r11_request_not_rewritten), ("C09.R9", r9_path_segments_decoded_once), ("C09.R10", r10_wildcard_gets_the_segments), ("C09.R8", r8_media_type_normalised), ("C09.R7", r7_every_framing_accepted), ("C09.R1", r1_decoder_inputs), ("C09.R2", r2_primitive_table), ("C09.R3", r3_request_context), ("C09.R4", r4_no_shared_channel),
         ("C09.R5", r5_multipart_boundary), ("C09.R6", r6_positional_arguments)]

_F5_NOW = """        let boundary =
            multer::parse_boundary(content_type).map_err(|e| match e {
                multer::Error::NoBoundary => HttpError::for_bad_request(
                    None,
                    "missing boundary in content-type header".to_string(),
                ),
                e => HttpError::for_bad_request(
                    None,
                    format!("invalid content type: {}", e),
                ),
            })?;"""
_F5_OLD = """        let boundary = content_type
            .split("boundary=")
            .nth(1)
            .ok_or_else(|| {
                HttpError::for_bad_request(
                    None,
                    "missing boundary in content-type header".to_string(),
                )
            })?
            .to_string();"""
_U16_AS_U8 = """    fn deserialize_u16<V>(self, visitor: V) -> Result<V::Value, MapError>
    where
        V: Visitor<'de>,
    {
        self.value(|raw_value| match raw_value.as_value()?.parse::<u8>() {
            Ok(value) => visitor.visit_u16(value as u16),
            Err(_) => Err(MapError(format!(
                "unable to parse '{}' as u16",
                raw_value.as_value()?
            ))),
        })
    }"""

from .c10 import DECODE_HELPERS_VARIANT as _DECODE_HELPERS_VARIANT  # noqa: E402  (the same refactoring, replayed under both properties)

_FOLD = """        self.into_stream()
            .try_fold(BytesMut::new(), |mut out, chunk| {
                out.put(chunk);
                futures::future::ok(out)
            })
            .await"""
_LOOP = """        let mut chunks = std::pin::pin!(self.into_stream());
        let mut out = BytesMut::new();
        while let Some(chunk) = chunks.try_next().await? {
            %s
        }
        Ok(out)"""

_U16_AS_U8_TRY = """    fn deserialize_u16<V>(self, visitor: V) -> Result<V::Value, MapError>
    where
        V: Visitor<'de>,
    {
        self.value(|raw_value| {
            let text = raw_value.as_value()?;
            let parsed = text.parse::<u8>().map_err(|_| {
                MapError(format!("unable to parse '{}' as u16", text))
            })?;
            visitor.visit_u16(parsed as u16)
        })
    }"""
_DE_VALUE_MATCH = """                self.value(|raw_value| match raw_value.as_value()?.parse::<$i>() {
                    Ok(value) => visitor.[<visit_ $i>](value),
                    Err(_) => Err(MapError(format!(
                        "unable to parse '{}' as {}",
                        raw_value.as_value()?,
                        type_name::<$i>()
                    ))),
                })"""
_DE_VALUE_TRY = """                self.value(|raw_value| {
                    let text = raw_value.as_value()?;
                    let parsed: $i = text.parse().map_err(|_| {
                        MapError(format!(
                            "unable to parse '{}' as {}",
                            text,
                            type_name::<$i>()
                        ))
                    })?;
                    visitor.[<visit_ $i>](parsed)
                })"""

SELFTEST = [
    {"name": "query-lowercased", "kind": "mutant",
     "edits": [("dropshot/src/extractor/query.rs", "serde_urlencoded::from_str(raw_query_string)", "serde_urlencoded::from_str(&raw_query_string.to_lowercase())")],
     "expect": ["C09.R1"], "why": "query values reach the handler lower-cased"},
    {"name": "json-body-truncated", "kind": "mutant",
     "edits": [("dropshot/src/extractor/body.rs", "serde_json::Deserializer::from_slice(&body);", "serde_json::Deserializer::from_slice(&body[..body.len().min(65536)]);")],
     "expect": ["C09.R1"], "why": "JSON bodies over 64 KiB are cut before decoding"},
    {"name": "u16-parsed-as-u8", "kind": "mutant",
     "edits": [("dropshot/src/from_map.rs", "    de_value!(u16);", _U16_AS_U8)],
     "expect": ["C09.R2"], "why": "path values 256..65535 for a u16 parameter are refused / a different primitive is decoded"},
    {"name": "peer-address-is-local-address", "kind": "mutant",
     "edits": [("dropshot/src/server.rs", "request: RequestInfo::new(&request, remote_addr),", "request: RequestInfo::new(&request, server.local_addr),")],
     "expect": ["C09.R3"], "why": "rqctx.request.remote_addr() reports the server's own address"},
    {"name": "pre-fix-F5-boundary-by-split", "kind": "mutant",
     "edits": [("dropshot/src/extractor/body.rs", _F5_NOW, _F5_OLD)],
     "expect": ["C09.R5"], "why": "quoted or parameter-followed multipart boundaries are mis-read"},
    {"name": "method-hard-coded", "kind": "mutant",
     "edits": [("dropshot/src/handler.rs", "            method: request.method().clone(),", "            method: http::Method::GET,")],
     "expect": ["C09.R3"], "why": "rqctx.request.method() does not report the request's method"},
    {"name": "last-body-kept-in-a-static", "kind": "mutant",
     "edits": [("dropshot/src/extractor/body.rs", "// UntypedBody: body extractor for a plain array of bytes of a body.",
                "static LAST_BODY: std::sync::Mutex<Option<Bytes>> = std::sync::Mutex::new(None);\n// UntypedBody: body extractor for a plain array of bytes of a body."),
               ("dropshot/src/extractor/body.rs", "        Ok(UntypedBody { content: body_bytes.freeze() })",
                "        let content = body_bytes.freeze();\n        let previous = LAST_BODY.lock().unwrap().replace(content.clone());\n        Ok(UntypedBody { content: previous.unwrap_or(content) })")],
     "expect": ["C09.R4", "C09.R1"], "why": "a handler receives the previous request's body through a shared static"},
    {"name": "streamed-chunk-truncated", "kind": "mutant",
     "edits": [("dropshot/src/extractor/body.rs", "                yield buf;", "                yield buf.slice(0..len.min(4096));")],
     "expect": ["C09.R1"], "why": "streamed chunks longer than 4 KiB lose their tail"},
    {"name": "accumulator-drops-chunk-tail", "kind": "mutant",
     "edits": [("dropshot/src/extractor/body.rs", "                out.put(chunk);", "                out.put(chunk.slice(..chunk.len().min(8192)));")],
     "expect": ["C09.R1"], "why": "buffered bodies lose the tail of every large frame"},
    {"name": "loop-accumulator-skips-chunks", "kind": "mutant",
     "edits": [("dropshot/src/extractor/body.rs", _FOLD, _LOOP % "if out.len() < 65536 {\n                out.put(chunk);\n            }")],
     "expect": ["C09.R1"], "why": "(loop idiom) chunks after the first 64 KiB are dropped: a pull of the stream can be followed by the next pull without the append"},
    {"name": "loop-accumulator-keeps-last-chunk", "kind": "mutant",
     "edits": [("dropshot/src/extractor/body.rs", _FOLD, _LOOP % "out.clear();\n            out.put(chunk);")],
     "expect": ["C09.R1"], "why": "(loop idiom) the buffer is cleared before every append, so only the last frame reaches the handler"},
    {"name": "u16-parsed-as-u8-try-idiom", "kind": "mutant",
     "edits": [("dropshot/src/from_map.rs", "    de_value!(u16);", _U16_AS_U8_TRY)],
     "expect": ["C09.R2"], "why": "(map_err + `?` idiom) a u16 path value is parsed as u8 and widened"},
    {"name": "de-value-map-err-and-try", "kind": "benign",
     "edits": [("dropshot/src/from_map.rs", _DE_VALUE_MATCH, _DE_VALUE_TRY)],
     "why": "behaviour-preserving: in every deserialize_<T> the match on parse() is spelled `parse().map_err(..)?` followed by the visit call"},
    _DECODE_HELPERS_VARIANT,
    {"name": "accumulate-by-while-let-loop", "kind": "benign",
     "edits": [("dropshot/src/extractor/body.rs", _FOLD, _LOOP % "out.put(chunk);")],
     "why": "behaviour-preserving: try_fold(BytesMut::new(), ..) spelled as a pinned stream drained by `while let Some(chunk) = s.try_next().await?`"},
    {"name": "streaming-extractor-through-constructor", "kind": "benign",
     "edits": [("dropshot/src/extractor/body.rs", "        Ok(Self {\n            body: request.into_body(),\n            cap: rqctx.request_body_max_bytes(),\n        })",
                "        let max_bytes = rqctx.request_body_max_bytes();\n        let body = request.into_body();\n        Ok(Self::new(body, max_bytes))")],
     "why": "behaviour-preserving: the struct literal replaced by the existing private constructor StreamingBody::new"},
    {"name": "context-parts-bound-first", "kind": "benign",
     "edits": [("dropshot/src/server.rs", "        request: RequestInfo::new(&request, remote_addr),\n        endpoint: lookup_result.endpoint,\n        request_id: request_id.to_string(),\n        log: request_log,\n    };\n    let handler = lookup_result.handler;",
                "        request: request_info,\n        endpoint,\n        request_id: request_id.to_owned(),\n        log: request_log,\n    };"),
               ("dropshot/src/server.rs", "    let rqctx = RequestContext {\n        server: Arc::clone(&server),",
                "    let crate::router::RouterLookupResult { handler, endpoint } = lookup_result;\n    let request_info = RequestInfo::new(&request, remote_addr);\n    let rqctx = RequestContext {\n        server: Arc::clone(&server),")],
     "why": "behaviour-preserving: lookup result destructured, RequestInfo bound to a local first, field-init shorthand, to_string() spelled to_owned()"},
    {"name": "query-renamed-unwrap-or-default", "kind": "benign",
     "edits": [("dropshot/src/extractor/query.rs", "    let raw_query_string = request.uri().query().unwrap_or(\"\");", "    let qs = request.uri().query().unwrap_or_default();"),
               ("dropshot/src/extractor/query.rs", "serde_urlencoded::from_str(raw_query_string)", "serde_urlencoded::from_str(qs)")],
     "why": "behaviour-preserving: local renamed, unwrap_or(\"\") spelled unwrap_or_default()"},
    {"name": "body-read-in-two-statements", "kind": "benign",
     "edits": [("dropshot/src/extractor/body.rs",
                "    let body = StreamingBody::new(body, rqctx.request_body_max_bytes())\n        .into_bytes_mut()\n        .await?;\n\n    // RFC 7231",
                "    let limit = rqctx.request_body_max_bytes();\n    let reader = StreamingBody::new(body, limit);\n    let buffered = reader.into_bytes_mut().await;\n    let body = buffered?;\n\n    // RFC 7231")],
     "why": "behaviour-preserving: the body read split into named steps"},
    {"name": "context-fields-reordered", "kind": "benign",
     "edits": [("dropshot/src/server.rs", "        server: Arc::clone(&server),\n        request: RequestInfo::new(&request, remote_addr),",
                "        request: RequestInfo::new(&request, remote_addr),\n        server: server.clone(),")],
     "why": "behaviour-preserving: struct literal fields reordered, Arc::clone(&x) spelled x.clone()"},
    {"name": "de-value-binding-renamed", "kind": "benign",
     "edits": [("dropshot/src/from_map.rs", "                    Ok(value) => visitor.[<visit_ $i>](value),", "                    Ok(parsed) => {\n                        let v = parsed;\n                        visitor.[<visit_ $i>](v)\n                    }")],
     "why": "behaviour-preserving: binding renamed and moved through a temporary"},
    {"name": "accumulate-extend-from-slice", "kind": "benign",
     "edits": [("dropshot/src/extractor/body.rs", "                out.put(chunk);", "                out.extend_from_slice(&chunk);")],
     "why": "behaviour-preserving: put(chunk) spelled extend_from_slice(&chunk)"},
    {"name": "seq-access-map-transpose", "kind": "benign",
     "edits": [("dropshot/src/from_map.rs",
                "        match self.iter.next() {\n            Some(value) => {\n                let mut deserializer = MapDeserializer::Value(value);\n                seed.deserialize(&mut deserializer).map(Some)\n            }\n            None => Ok(None),\n        }\n    }\n}\n\n#[cfg(test)]",
                "        self.iter\n            .next()\n            .map(|element| {\n                let mut deserializer = MapDeserializer::Value(element);\n                seed.deserialize(&mut deserializer)\n            })\n            .transpose()\n    }\n}\n\n#[cfg(test)]")],
     "why": "behaviour-preserving: `match next() {Some(v) => de(v).map(Some), None => Ok(None)}` spelled `next().map(|v| de(v)).transpose()`"},
    {"name": "query-default-as-named-constant", "kind": "benign",
     "edits": [("dropshot/src/extractor/query.rs", "    let raw_query_string = request.uri().query().unwrap_or(\"\");",
                "    const NO_QUERY: &str = \"\";\n    let raw_query_string = request.uri().query().unwrap_or(NO_QUERY);")],
     "why": "behaviour-preserving: the empty default of an absent query string is a named constant"},
    {"name": "query-default-is-not-empty", "kind": "mutant",
     "edits": [("dropshot/src/extractor/query.rs", "    let raw_query_string = request.uri().query().unwrap_or(\"\");",
                "    const NO_QUERY: &str = \"limit=10\";\n    let raw_query_string = request.uri().query().unwrap_or(NO_QUERY);")],
     "expect": ["C09.R1"], "why": "(named-constant idiom) a request without a query string is decoded as if the client had sent `limit=10`"},
    {"name": "unfold-stream-chunk-truncated", "kind": "mutant", "patch": "benign/C11-R5/patch.diff",
     "edits": [("dropshot/src/extractor/body.rs", "return Ok(Some((buf, (this, bytes_read + len))));",
                "return Ok(Some((buf.slice(0..len.min(4096)), (this, bytes_read + len))));")],
     "expect": ["C09.R1"], "why": "(try_unfold idiom: the stream of benign-C11-R5) streamed chunks longer than 4 KiB lose their tail"},
    # the primitive table written through a generic helper (benign/C10-R9: `self.parse_scalar::<$i, _, _>(|v| visitor.visit_$i(v))`, the parse in the helper's shared closure)
    {"name": "generic-helper-u16-parsed-as-u8", "kind": "mutant", "patch": "benign/C10-R9/patch.diff",
     "edits": [("dropshot/src/from_map.rs", "    de_value!(u16);",
                "    fn deserialize_u16<V>(self, visitor: V) -> Result<V::Value, MapError>\n    where\n        V: Visitor<'de>,\n    {\n"
                "        self.parse_scalar::<u8, _, _>(|value| visitor.visit_u16(value as u16))\n    }")],
     "expect": ["C09.R2"], "why": "(generic-helper idiom) the helper is instantiated at u8 for a u16 parameter and the callable widens the value"},
    {"name": "generic-helper-parses-trimmed-text", "kind": "mutant", "patch": "benign/C10-R9/patch.diff",
     "edits": [("dropshot/src/from_map.rs", "raw.parse::<T>().map_err", "raw.trim().parse::<T>().map_err")],
     "expect": ["C09.R2"], "why": "(generic-helper idiom) every scalar is parsed from the trimmed text: ' 12' is accepted for an integer parameter"},
    # the query string decoded from its bytes with an empty byte-string default (benign/C09-R12)
    {"name": "query-decoded-from-bytes", "kind": "benign",
     "edits": [("dropshot/src/extractor/query.rs", "    let raw_query_string = request.uri().query().unwrap_or(\"\");",
                "    let raw_query_bytes: &[u8] = request.uri().query().map_or(&b\"\"[..], str::as_bytes);"),
               ("dropshot/src/extractor/query.rs", "serde_urlencoded::from_str(raw_query_string)", "serde_urlencoded::from_bytes(raw_query_bytes)")],
     "why": "behaviour-preserving: unwrap_or(\"\") + from_str spelled map_or(&b\"\"[..], str::as_bytes) + from_bytes"},
    {"name": "query-bytes-default-is-not-empty", "kind": "mutant", "patch": "benign/C09-R12/patch.diff",
     "edits": [("dropshot/src/extractor/query.rs", "raw_query.map_or(&b\"\"[..], str::as_bytes)", "raw_query.map_or(&b\"limit=10\"[..], str::as_bytes)")],
     "expect": ["C09.R1"], "why": "(bytes idiom) a request without a query string is decoded as `limit=10`"},
    {"name": "query-bytes-cut", "kind": "mutant", "patch": "benign/C09-R12/patch.diff",
     "edits": [("dropshot/src/extractor/query.rs", "serde_urlencoded::from_bytes(raw_query_bytes)", "serde_urlencoded::from_bytes(&raw_query_bytes[..raw_query_bytes.len().min(1024)])")],
     "expect": ["C09.R1"], "why": "(bytes idiom) an Index that is not the full range cuts long query strings before decoding"},
    # the body stream split over async helpers (benign/C11-R9: the chunk comes out of a spliced `next_data_chunk(..).await?`)
    {"name": "spliced-helper-chunk-truncated", "kind": "mutant", "patch": "benign/C11-R9/patch.diff",
     "edits": [("dropshot/src/extractor/body.rs", "            return Ok(Some(data));", "            return Ok(Some(data.slice(..data.len().min(4096))));")],
     "expect": ["C09.R1"], "why": "(async-helper idiom) the helper that reads the next data frame hands back only its first 4 KiB"},
    {"name": "multipart-log-line-and-rename", "kind": "benign",
     "edits": [("dropshot/src/extractor/body.rs", "        let stream = StreamingBody::new(body, rqctx.request_body_max_bytes())\n            .into_stream();\n        Ok(MultipartBody { content: multer::Multipart::new(stream, boundary) })",
                "        slog::debug!(rqctx.log, \"multipart body\"; \"boundary\" => &boundary);\n        let limited = StreamingBody::new(body, rqctx.request_body_max_bytes());\n        let parts_stream = limited.into_stream();\n        Ok(MultipartBody { content: multer::Multipart::new(parts_stream, boundary) })")],
     "why": "behaviour-preserving: a debug log line added, locals renamed"},
]

LEVEL_TEXT += ' Also (R7 = C11.R6): the body stream refuses only on counted bytes, a sound lower bound or a transport error, so every framing (Content-Length, chunked, length-less) is treated alike.'

LEVEL_TEXT += " Also (R8): the request's media type is looked up after RFC 9110 normalisation (cut at ';', whitespace trimmed, case folded)."
LEVEL_TEXT += " Also (R9 = C03.R1, R10 = C01.R3): path variables are the walk's own segments, each percent-decoded exactly once with no other transformation."
LEVEL_TEXT += (" R2 also decides the table when it is written through a generic helper (`self.parse_scalar::<T, _, _>(|v| visitor.visit_T(v))`, the helper inlined, its closure one shared generic body): "
               "the visiting callable passes its own argument on untouched, the parsing code hands it the Ok payload of the one parse exactly once (`.and_then(f)` / `.map(f)` / `f(v)`, lib_c09.handoffs), and the "
               "helper's type parameter is read off the callable's argument type. R1's query clause accepts the raw query as text or as its bytes (`str::as_bytes`) with an empty literal default (text or byte string, "
               "`c[..]` only as a full-range Index); the streamed chunk's chain starts at the variant-precise sources of the item (lib_c01.sources), so a chunk that comes out of a spliced async helper as `Ok(Some(data))` is `data`.")
LEVEL_TEXT += " Also (R11): nothing on the dispatch path rewrites the request head (only read accessors and Request::map are used). Also (R2, wrapper kinds): deserialize_option / deserialize_newtype_struct hand the deserializer itself to visit_some / visit_newtype_struct on every path; (R5) once the MIME parser accepted the Content-Type every path leads to the Multipart constructor. Also: deserialize_enum hands the deserializer to visit_enum on every path (R2); the address a TlsConn is built with comes straight from the accept() that produced its socket (R3); the buffering helper returns only after the stream was pulled to its end (R1). Also (R12 = C03.R2): a decoded path segment is refused only when it equals `.` or `..`."


SELFTEST += [
    {"name": "option-forwarded-through-a-binding", "kind": "benign", "why": "behaviour-preserving: `let present = self; visitor.visit_some(present)`",
     "edits": [("dropshot/src/from_map.rs", "        visitor.visit_some(self)", "        let present = self;\n        visitor.visit_some(present)")]},
    {"name": "multipart-boundary-logged", "kind": "benign", "why": "behaviour-preserving: a debug line between the boundary parse and the Multipart constructor",
     "edits": [("dropshot/src/extractor/body.rs", "        // Apply the request body size limit to the multipart stream, too.\n", "        slog::debug!(rqctx.log, \"multipart boundary\"; \"len\" => boundary.len());\n        // Apply the request body size limit to the multipart stream, too.\n")]},
    {"name": "multipart-boundary-second-guessed", "kind": "mutant", "expect": ["C09.R5"], "why": "a boundary the MIME parser accepted is refused by an extra test (off by one against RFC 2046's 70 characters)",
     "edits": [("dropshot/src/extractor/body.rs", "        // Apply the request body size limit to the multipart stream, too.\n", "        if boundary.len() > 69 {\n            return Err(HttpError::for_bad_request(None, \"invalid boundary\".to_string()));\n        }\n        // Apply the request body size limit to the multipart stream, too.\n")]},
]
