"""C04 helpers — role-based recognition of the 404/405/Allow tail of router::lookup_route.

The rules of c04.py reason over three roles instead of one source shape:

 (a) the *served-names source*: an iteration over `<node>.methods` (iter / values / `&map` into_iter) filtered by a
     predicate that holds exactly when `find_handler_matching_version(<that entry's handlers>, <request version>)`
     is Some — written as `filter_map(|(name, h)| find(h, version).map(|_| name))`, `filter(..).map(..)`, a `for`
     loop with an inner `if`, or a Vec collected/pushed from one of these;
 (b) the 404/405 decision: a test of emptiness of (a) — `any(..)`, `next().is_none()`, `peek()`, `is_empty()`,
     `len()/count()` compared with 0, `if let Some(..) = it.next()`, or the outcome of ONE `fold(None, step)` over the
     table whose Option<HttpError> accumulator is Some iff a served entry was seen (fold_accumulator: the 405 is built
     lazily inside the step);
 (c) every Allow value: an element of (a) (for the fold: the step's own entry, guarded inside the step).

The function holding these roles is lookup_route or, when its body was split off into a helper the engine's inliner
refuses (more than 120 blocks), the one function it hands the request to (routing_body / delegation_faithful).

Everything here works on the normalised view (ctx.dsn): helpers introduced by a refactoring are already inlined into
lookup_route, Option/Result combinators with closures are switches with the closure body spliced in; iterator adaptors
are NOT desugared, their closures stay separate functions (children of lookup_route, also when they were written
inside an inlined helper).

Generic candidates for lib.py: `origin`, `canon_local`, `option_facts_at`, `ctor_status` (replaces
lib.status_const_of_ctor: reads the evaluated constant reaching the status_code field), `_value_defs`.
"""
import json
import re

from .lib import PLUMBING, borrow_root, callee_allow, closure_args_of_call, const_int, operand_local

FIND = r"^router::find_handler_matching_version$"
NEXT = r"iter::Iterator::next$"
VALUE_PLUMBING = PLUMBING + [r"Vec::<T, A>::as_slice$", r"Option::<T>::(copied|cloned)$"]
# calls that hand on the same sequence of elements (or a view of the same collection)
ITER_TRANSPARENT = (r"iter::IntoIterator::into_iter$|iter::Iterator::(by_ref|peekable|fuse|copied|cloned|rev)$|slice::<impl \[T\]>::iter$|"
                    r"Vec::<T, A>::as_slice$|ops::Deref::deref$|ops::DerefMut::deref_mut$|convert::AsRef::as_ref$|borrow::Borrow::borrow$")
OPTION_VIEW = r"Option::<T>::(as_ref|as_deref|as_mut|copied|cloned)$"
EMPTY_CTOR = r"Vec::<T>::new$|Vec::<T>::with_capacity$|VecDeque::<T>::new$|BTreeSet::<T>::new$"
PUSH = r"::(push|push_back|insert)$"
WRITE = r"::(push|push_back|push_front|insert|extend|append|extend_from_slice|push_str|retain|clear|truncate|pop|remove|drain|dedup)$"


# --------------------------------------------------------------------------------------------- generic value tracing
def origin(fn, op, transparent=None, hops=24):
    """Where does the value of operand `op` come from?  Follows whole-value copies/moves, (re)borrows and derefs —
    and calls matching `transparent` through their first argument — back to
      {"kind": "call", "bb", "t", "l"}   the call that produced it,
      {"kind": "place", "pl"}            a place with a field projection (`(*_5).methods`),
      {"kind": "local", "l"}             a parameter / a local with several definitions / an aggregate,
      {"kind": "const", "op"}.
    `via` lists the transparent callees crossed."""
    rx = re.compile(transparent) if transparent else None
    via = []
    cur = op
    for _ in range(hops):
        if cur.get("k") not in ("copy", "move"):
            return {"kind": "const", "op": cur, "via": via}
        pl = cur["pl"]
        if any(e != "*" for e in pl["p"]):
            return {"kind": "place", "pl": pl, "via": via}
        l = pl["l"]
        ds = fn.defs().get(l, [])
        if len(ds) != 1:
            return {"kind": "local", "l": l, "via": via}
        bb, kind, node = ds[0]
        if kind == "assign":
            rv = node["rv"]
            if node["pl"]["p"]:
                return {"kind": "local", "l": l, "via": via}
            if rv["rv"] == "use":
                cur = rv["op"]
                continue
            if rv["rv"] in ("ref", "copyderef"):
                cur = {"k": "copy", "pl": rv["pl"]}
                continue
            return {"kind": "local", "l": l, "via": via, "def": node}
        if kind == "call":
            callee = node.get("callee") or ""
            if rx and node["args"] and (rx.search(callee) or rx.search(node.get("resolved") or "\0")):
                via.append(callee)
                cur = node["args"][0]
                continue
            return {"kind": "call", "bb": bb, "t": node, "l": l, "via": via}
        return {"kind": "local", "l": l, "via": via}
    return {"kind": "budget", "via": via}


def canon_local(fn, l, hops=12):
    """Follow plain copies, reborrows and deref chains (`&**x`) back to the originating local."""
    for _ in range(hops):
        ds = fn.defs().get(l, [])
        if len(ds) != 1 or ds[0][1] != "assign" or ds[0][2]["pl"]["p"]:
            return l
        rv = ds[0][2]["rv"]
        if rv["rv"] == "use" and rv["op"].get("k") in ("copy", "move") and all(e == "*" for e in rv["op"]["pl"]["p"]):
            l = rv["op"]["pl"]["l"]
        elif rv["rv"] in ("ref", "copyderef") and all(e == "*" for e in rv["pl"]["p"]):
            l = rv["pl"]["l"]
        else:
            return l
    return l


def option_facts_at(fn, site):
    """Option operands whose variant is known on EVERY path reaching block `site`: [(operand, "Some"|"None")].
    Sources: discriminant switches (`match`, `if let`, let-else, spliced combinators) by edge dominance, and
    `is_some()` / `is_none()` in any boolean spelling (negation, named flag, `&&`, early return) by path facts."""
    memo = fn.__dict__.setdefault("_c04_option_facts", {})
    if site in memo:
        return memo[site]
    out = []
    for sbb, st in fn.switches():
        info = fn.switch_on(sbb)
        if info["kind"] != "discr":
            continue
        tg = {name: fn.switch_target(sbb, idx) for idx, name in info["variants"].items()}
        if info["adt"] == "std::option::Option":
            subject, some, none = {"k": "copy", "pl": info["place"]}, tg.get("Some"), tg.get("None")
        elif info["adt"] == "std::ops::ControlFlow":
            # `x?` on an Option: Continue <=> x is Some
            o = origin(fn, {"k": "copy", "pl": info["place"]})
            if o["kind"] != "call" or not re.search(r"^<std::option::Option<.*> as std::ops::Try>::branch$", o["t"].get("resolved") or ""):
                continue
            subject, some, none = o["t"]["args"][0], tg.get("Continue"), tg.get("Break")
        else:
            continue
        if some is None or some == none:
            continue
        for name, tgt in (("Some", some), ("None", none)):
            if tgt is not None and fn.edge_dominates(sbb, tgt, site):
                out.append((subject, name))
    states = fn.bool_states_at(site)
    if states:
        for bb, t in fn.live_calls(r"Option::<T>::is_some$|Option::<T>::is_none$"):
            vals = set(fs.get(("call", bb)) for fs in states)
            if len(vals) == 1 and None not in vals:
                v = vals.pop()
                some = v if t["callee"].endswith("is_some") else (not v)
                out.append((t["args"][0], "Some" if some else "None"))
    memo[site] = out
    return out


def call_results_known_at(fn, site, callee_rx, transparent=OPTION_VIEW):
    """[(bb, term, "Some"|"None")]: Option-returning calls matching callee_rx whose result's variant is known at site."""
    rx = re.compile(callee_rx)
    out = []
    for op, state in option_facts_at(fn, site):
        o = origin(fn, op, transparent)
        if o["kind"] == "call" and (rx.search(o["t"].get("callee") or "") or rx.search(o["t"].get("resolved") or "\0")):
            out.append((o["bb"], o["t"], state))
    return out


def ctor_status(ds, ctor):
    """Evaluated integer constants that reach the `status_code` field of the HttpError value built by constructor
    `error::HttpError::<ctor>` — wherever the constant is declared (an associated constant of a status-code type, a
    `const` item inside the function, a module-level const): a constant operand carries its evaluated value.  When the
    constructor delegates to another HttpError constructor, the integer constants among that call's arguments.
    -> set of ints, or None when the constructor does not exist."""
    f = ds.one(r"^error::HttpError::%s$" % ctor)
    if f is None:
        return None
    vals = set()

    def ints(sl):
        out = set()
        for a in sl.atoms:
            v = a[2] if a[0] == "const" else (a[1] if a[0] == "lit" else None)
            if v and v != "null":
                try:
                    d = json.loads(v)
                except ValueError:
                    continue
                if isinstance(d, dict) and isinstance(d.get("int"), int):
                    out.add(d["int"])
        return out
    ret = f.slice({"l": 0, "p": []})
    aggs = [st for bb, i, st in f.aggregates(r"^error::HttpError$", None) if bb in f.reachable(0)]
    for st in aggs:
        rv = st["rv"]
        names = rv.get("fields") or []
        if "status_code" in names and (st["pl"]["l"] == 0 or ret.touches_local(st["pl"]["l"])):
            vals |= ints(f.slice(rv["ops"][names.index("status_code")]))
    if not aggs:
        for bb, t in f.live_calls(r"^error::HttpError::for_"):
            if ("call", t["callee"], bb) in ret.atoms:
                for a in t["args"]:
                    if a.get("k") == "const" and re.search(r"StatusCode$", a.get("ty") or "") and const_int(a) is not None:
                        vals.add(const_int(a))
    return vals


# --------------------------------------------------------------------------------------------- roles
def version_param(lr):
    """lookup_route's API-version parameter, by type (`Option<&Version>`), name as a tie-break."""
    cands = [l for l in range(1, lr.argc + 1) if re.search(r"Option<&.*\bVersion>", lr.local_ty(l) or "")]
    if len(cands) == 1:
        return cands[0]
    named = [p["l"] for p in lr.names.get("version", []) if not p["p"] and 1 <= p["l"] <= lr.argc]
    return named[0] if named else (cands[0] if cands else 4)


def methods_roots(fn, op):
    """Canonical base locals of `<base>.methods` when operand `op` denotes (a reference to) a node's method table."""
    sl0 = fn.slice(op, stop_at_calls=r".")
    roots = set()
    for pj in sl0.places:
        pl = json.loads(pj)
        if any(isinstance(e, dict) and e.get("n") == "methods" for e in pl["p"]):
            roots.add(canon_local(fn, pl["l"]))
    return roots


def methods_reads(lr):
    """Every read of a `.methods` table in lookup_route: {(bb, method-name): canonical base locals}."""
    out = {}
    for bb, t in lr.live_calls(r"BTreeMap::<K, V, A>::(get|values|iter|keys|len|contains_key|is_empty|get_key_value)$|iter::IntoIterator::into_iter$"):
        if not t["args"]:
            continue
        roots = methods_roots(lr, t["args"][0])
        if roots:
            out[(bb, t["callee"].split("::")[-1])] = roots
    return out


def methods_iteration(fn, op):
    """Is iterator operand `op` a plain iteration over a node's method table?  -> {"kind": iter|values|keys, "roots"}."""
    o = origin(fn, op, ITER_TRANSPARENT)
    if o["kind"] == "call":
        m = re.search(r"BTreeMap::<K, V, A>::(iter|values|keys)$", o["t"].get("callee") or "")
        if m and o["t"]["args"]:
            roots = methods_roots(fn, o["t"]["args"][0])
            if roots:
                return {"kind": m.group(1), "roots": roots, "bb": o["bb"]}
    if o["kind"] == "place" and any(v.endswith("into_iter") for v in o["via"]):
        pl = o["pl"]
        if pl["p"] and isinstance(pl["p"][-1], dict) and pl["p"][-1].get("n") == "methods":
            return {"kind": "iter", "roots": set([canon_local(fn, pl["l"])]), "bb": None}
    return None


def is_request_version(lr, g, op, vparam, agg=None):
    """operand `op` in g (lookup_route itself or a closure created in it by the aggregate statement `agg`) is
    lookup_route's version parameter, unmodified."""
    if g is lr:
        # exact path first: `(*(*env).0)` of an inlined local closure whose capture is `&version` is the parameter itself
        from .lib_c01 import access_path, VALUE_PRESERVING
        p = access_path(g, op, VALUE_PRESERVING)
        if p.kind() == "param" and p.root[1] == vparam and not p.path and not p.calls:
            return True
    sl = g.slice(op)
    if callee_allow(sl, PLUMBING) or any(a[0] in ("lit", "binop", "agg", "const") for a in sl.atoms):
        return False
    if g is lr:
        return sl.params() == [vparam]
    # closure: the value must be a captured upvar that the parent filled from the version parameter
    if agg is None:
        return False
    idxs = set()
    for pf in sl.param_fields():
        if pf[0] != 1:
            return False
        for e in pf[1]:
            if e.startswith("f"):
                idxs.add(int(e[1:].split(":")[0]))
                break
    if not idxs:
        return False
    for k in idxs:
        if k >= len(agg["rv"]["ops"]):
            return False
        ps = lr.slice(agg["rv"]["ops"][k])
        if ps.params() != [vparam] or callee_allow(ps, PLUMBING) or any(a[0] in ("lit", "binop", "const") for a in ps.atoms):
            return False
    return True


def _from_item_only(h, op, item=2):
    """the value is a part of the closure's item parameter (projections / value plumbing only); `item` is the
    parameter's position (2 for map/filter/any/for_each callbacks, 3 for a fold step `|acc, item|`)"""
    sl = h.slice(op)
    return sl.params() == [item] and not callee_allow(sl, VALUE_PLUMBING) and not any(a[0] in ("lit", "const") for a in sl.atoms)


def closure_find(lr, h, agg, vparam, item=2):
    """The closure's single `find_handler_matching_version(<handlers of the item>, <request version>)` call.
    -> (bb, why-not)."""
    fh = h.live_calls(FIND)
    if len(fh) != 1:
        return None, "the closure calls find_handler_matching_version %d times" % len(fh)
    hb, ht = fh[0]
    if not _from_item_only(h, ht["args"][0], item):
        return None, "the handler list tested is not the one of the closure's own item"
    if not is_request_version(lr, h, ht["args"][1], vparam, agg):
        return None, "the version tested is not lookup_route's version parameter"
    return hb, ""


def _find_state(h, fbb, site):
    for b, t, state in call_results_known_at(h, site, FIND):
        if b == fbb:
            return state
    return None


def _bool_iff_served(h, fbb, l0):
    """Bool local l0 of closure h is true exactly when the find call in block fbb returned Some?  -> (ok, why)."""
    def walk(l, neg, depth):
        ds = h.defs().get(l, [])
        if not ds or depth > 5:
            return False, "the flag has no recognisable definition"
        for bb, kind, node in ds:
            if kind == "call":
                callee = node.get("callee") or ""
                if not re.search(r"Option::<T>::is_some$|Option::<T>::is_none$", callee):
                    return False, "the flag is computed by %s" % callee
                o = origin(h, node["args"][0], OPTION_VIEW)
                if o["kind"] != "call" or o["bb"] != fbb:
                    return False, "is_some/is_none is applied to something other than the find result"
                if callee.endswith("is_some") == neg:
                    return False, "the flag is true when find_handler_matching_version returned None"
                continue
            if kind != "assign" or node["pl"]["p"]:
                return False, "the flag is written piecewise"
            rv = node["rv"]
            if rv["rv"] == "use" and rv["op"].get("k") == "const" and rv["op"].get("ty") == "bool" and const_int(rv["op"]) is not None:
                v = bool(const_int(rv["op"])) != neg
                st = _find_state(h, fbb, bb)
                if st != ("Some" if v else "None"):
                    return False, "the closure answers %s where find_handler_matching_version is %s" % (v, ("known " + st) if st else "not known to be " + ("Some" if v else "None"))
            elif rv["rv"] == "use" and operand_local(rv["op"]) is not None:
                ok, why = walk(operand_local(rv["op"]), neg, depth + 1)
                if not ok:
                    return ok, why
            elif rv["rv"] == "unop" and rv["op"] == "Not" and operand_local(rv["a"]) is not None:
                ok, why = walk(operand_local(rv["a"]), not neg, depth + 1)
                if not ok:
                    return ok, why
            else:
                return False, "the flag is not a function of the find result alone (%s)" % rv["rv"]
        return True, ""
    return walk(l0, False, 0)


def closure_bool_iff_served(h, fbb):
    """Closure h returns true exactly when the find call in block fbb returned Some?  Accepts `.is_some()`,
    `!..is_none()`, `matches!`, `if let Some(_) = .. {true} else {false}`, let-bound copies.  -> (ok, why)."""
    return _bool_iff_served(h, fbb, 0)


def closure_option_iff_served(h, fbb):
    """Closure h (a filter_map callback) returns Some(<part of its item>) exactly when the find call in block fbb
    returned Some, and None otherwise?  -> (ok, why)."""
    def walk(l, depth):
        ds = h.defs().get(l, [])
        if not ds or depth > 5:
            return False, "the returned option has no recognisable definition"
        for bb, kind, node in ds:
            if kind == "call":
                callee = node.get("callee") or ""
                if re.search(r"bool>::then_some$", callee) and len(node["args"]) == 2 and operand_local(node["args"][0]) is not None:
                    # `find(..).is_some().then_some(name)`
                    ok, why = _bool_iff_served(h, fbb, operand_local(node["args"][0]))
                    if not ok:
                        return ok, why
                    if not _from_item_only(h, node["args"][1]):
                        return False, "the value yielded is not a part of the closure's own item"
                    continue
                if re.search(r"^<std::option::Option<.*> as std::ops::FromResidual", node.get("resolved") or ""):
                    # the None of `find(..)?`
                    if _find_state(h, fbb, bb) != "None":
                        return False, "an item is dropped where find_handler_matching_version(its handlers, version) is not known to be None"
                    continue
                return False, "the returned option is computed by %s" % callee
            if kind != "assign" or node["pl"]["p"]:
                return False, "the returned option is written piecewise"
            rv = node["rv"]
            if rv["rv"] == "agg" and rv.get("agg") == "adt" and rv.get("adt") == "std::option::Option":
                st = _find_state(h, fbb, bb)
                if rv["variant"] == "Some":
                    if st != "Some":
                        return False, "an item is yielded where find_handler_matching_version(its handlers, version) is not known to be Some"
                    if not _from_item_only(h, rv["ops"][0]):
                        return False, "the value yielded is not a part of the closure's own item"
                else:
                    if st != "None":
                        return False, "an item is dropped where find_handler_matching_version(its handlers, version) is not known to be None"
            elif rv["rv"] == "use" and operand_local(rv["op"]) is not None:
                ok, why = walk(operand_local(rv["op"]), depth + 1)
                if not ok:
                    return ok, why
            else:
                return False, "the returned option is not built from the find result (%s)" % rv["rv"]
        return True, ""
    return walk(0, 0)


def served_source(lr, op, vparam):
    """Is iterator operand `op` (in lookup_route) a *served-names source*: an iteration over a node's method table
    keeping exactly the entries whose handler list is served at the request's version?
    -> None when op is not an adaptor chain at all, else {"ok", "why", "roots", "bb", "elements": names|entries}."""
    o = origin(lr, op, ITER_TRANSPARENT)
    if o["kind"] != "call":
        return None
    t = o["t"]
    callee = t.get("callee") or ""
    res = {"ok": False, "why": "", "roots": set(), "bb": o["bb"], "elements": "names"}
    if callee.endswith("iter::Iterator::filter_map"):
        base = methods_iteration(lr, t["args"][0])
        if base is None or base["kind"] != "iter":
            res["why"] = "filter_map is not applied to an iteration over the node's method table"
            return res
        res["roots"] = base["roots"]
        cls = closure_args_of_call(lr, t)
        if len(cls) != 1:
            res["why"] = "filter_map's callback is not a closure defined here"
            return res
        h, agg = cls[0]
        fbb, why = closure_find(lr, h, agg, vparam)
        if fbb is None:
            res["why"] = why
            return res
        ok, why = closure_option_iff_served(h, fbb)
        res["ok"], res["why"] = ok, why or "filter_map over the node's method table keeping the names whose handlers are served at the request's version"
        return res
    if callee.endswith("iter::Iterator::filter"):
        base = methods_iteration(lr, t["args"][0])
        if base is None or base["kind"] != "iter":
            res["why"] = "filter is not applied to an iteration over the node's method table"
            return res
        res["roots"] = base["roots"]
        res["elements"] = "entries"
        cls = closure_args_of_call(lr, t)
        if len(cls) != 1:
            res["why"] = "filter's predicate is not a closure defined here"
            return res
        h, agg = cls[0]
        fbb, why = closure_find(lr, h, agg, vparam)
        if fbb is None:
            res["why"] = why
            return res
        ok, why = closure_bool_iff_served(h, fbb)
        res["ok"], res["why"] = ok, why or "filter over the node's method table keeping the entries whose handlers are served at the request's version"
        return res
    if callee.endswith("iter::Iterator::map"):
        inner = served_source(lr, t["args"][0], vparam)
        if inner is None or inner["elements"] != "entries":
            res["why"] = "map is not applied to the version-filtered entries of the node's method table"
            return res
        res["roots"] = inner["roots"]
        if not inner["ok"]:
            res["why"] = inner["why"]
            return res
        cls = closure_args_of_call(lr, t)
        if len(cls) != 1 or not _from_item_only(cls[0][0], {"k": "copy", "pl": {"l": 0, "p": []}}):
            res["why"] = "the projection after the version filter does not yield a part of the entry"
            return res
        res["ok"], res["why"] = True, inner["why"] + ", projected to the method name"
        return res
    return None


def writes_to(lr, local):
    """calls that modify collection `local` through a `&mut` borrow"""
    out = []
    for bb, t in lr.live_calls(WRITE):
        if len(t["args"]) >= 1 and borrow_root(lr, t["args"][0]) == local:
            out.append((bb, t))
    return out


def version_filtered_item(lr, site, vparam, want=None):
    """Is block `site` reached only for an item of an iteration over a node's method table whose own handler list is
    served at the request's version (`for (name, h) in methods { if find(h, version).is_some() { <site> } }` in any
    spelling of the guard)?  -> (ok, blocks of the Iterator::next calls yielding that item, detail)."""
    detail = "no `find_handler_matching_version(handlers, version)` result is known to be Some at this point"
    first = None
    for fb, ft, state in call_results_known_at(lr, site, FIND):
        if state != "Some":
            continue
        hs0 = lr.slice(ft["args"][0], stop_at_calls=NEXT)
        nx = hs0.calls(NEXT)
        nexts = set(b for _, b, _ in nx)
        ver_ok = is_request_version(lr, lr, ft["args"][1], vparam)
        iter_ok = bool(nx) and all(methods_iteration(lr, t["args"][0]) is not None for _, _, t in nx) \
            and not callee_allow(hs0, VALUE_PLUMBING + [NEXT]) and not any(a[0] in ("lit", "const") for a in hs0.atoms)
        if ver_ok and iter_ok:
            if want is not None and nexts != want:
                # another loop's guard is also known here (e.g. the flag loop that decided 405): keep looking for the guard on *this* item
                first = first or (True, nexts, "guarded by find_handler_matching_version(handlers of this item, request version) being Some")
                continue
            return True, nexts, "guarded by find_handler_matching_version(handlers of this item, request version) being Some"
        detail = "a version guard exists but: version is the request's=%s, handlers are those of the current item of the node's method table=%s" % (ver_ok, iter_ok)
    if first is not None:
        return first
    return False, set(), detail


def served_collection(lr, op, vparam):
    """Is `op` (a collection or a view of it) the collection of the served method names: collected from a
    served-names source, or built empty and filled only by pushes of items that passed the version filter?
    -> None when op is not a locally built collection, else {"ok", "why", "local"}."""
    o = origin(lr, op, ITER_TRANSPARENT)
    if o["kind"] != "call":
        return None
    t = o["t"]
    callee = t.get("callee") or ""
    vec = o["l"]
    if callee.endswith("iter::Iterator::collect"):
        src = served_source(lr, t["args"][0], vparam)
        if src is None:
            return {"ok": False, "why": "a collection is collected from something that is not a version-filtered scan of the node's method table", "local": vec}
        if src["ok"] and writes_to(lr, vec):
            return {"ok": False, "why": "the collected methods are modified afterwards", "local": vec}
        return {"ok": src["ok"], "why": ("collected from: " + src["why"]) if src["ok"] else src["why"], "local": vec, "roots": src["roots"]}
    if re.search(EMPTY_CTOR, callee):
        writes = writes_to(lr, vec)
        if not writes:
            return {"ok": False, "why": "nothing is ever pushed to the collection", "local": vec}
        for bb, t2 in writes:
            if not re.search(PUSH, t2["callee"]) or len(t2["args"]) < 2:
                return {"ok": False, "why": "the collection is written by %s" % t2["callee"], "local": vec}
            vs = lr.slice(t2["args"][1], stop_at_calls=NEXT)
            ok, nexts, why = version_filtered_item(lr, bb, vparam, want=set(b for _, b, _ in vs.calls(NEXT)))
            same = ok and set(b for _, b, _ in vs.calls(NEXT)) == nexts and not callee_allow(vs, VALUE_PLUMBING + [NEXT])
            if not same:
                # a push of an element of a served-names source (`for name in served_iter { v.push(name) }`)
                src = None
                for _, _, nt in vs.calls(NEXT):
                    src = served_source(lr, nt["args"][0], vparam)
                if not (src and src["ok"] and not callee_allow(vs, VALUE_PLUMBING + [NEXT])):
                    return {"ok": False, "why": "a push is not guarded by the version filter on its own item (%s)" % why, "local": vec}
        return {"ok": True, "why": "every push stores the key of an item of the node's method table whose handlers are served at the request's version", "local": vec}
    return None


# --------------------------------------------------------------------------------------------- the decision (role b)
_OPS = {"Eq": lambda a, b: a == b, "Ne": lambda a, b: a != b, "Lt": lambda a, b: a < b, "Le": lambda a, b: a <= b, "Gt": lambda a, b: a > b, "Ge": lambda a, b: a >= b}


class Test:
    """One emptiness test of the served methods.  served(site) / none_served(site): the test is known to have come
    out that way on every path reaching block `site`."""
    def __init__(self, idiom, ok, why, served, none_served, bb):
        self.idiom, self.ok, self.why, self.served, self.none_served, self.bb = idiom, ok, why, served, none_served, bb
        self.fold = None    # the fold_accumulator record, for the "fold" idiom


def _atom_is(lr, atom, value):
    def f(site):
        st = lr.bool_states_at(site)
        return bool(st) and all(fs.get(atom) is value for fs in st)
    return f


def _fresh(lr, it_local, test_bb):
    """The emptiness probe in test_bb looks at the iterator before anything was taken from it: it is not in a loop
    and every other call using the iterator comes after it."""
    if it_local is None or test_bb in lr.loop_blocks():
        return False
    for bb, t in lr.live_calls():
        if bb == test_bb:
            continue
        if any(borrow_root(lr, a) == it_local for a in t["args"] if a.get("k") in ("copy", "move")):
            if not lr.dominates(test_bb, bb):
                return False
    return True


def decision_tests(lr, vparam):
    """Every test in lookup_route that could decide `is some method of the node served at the request's version?`."""
    tests = []
    # any(<node.methods iteration>, |h| find(h, version).is_some())
    for abb, at in lr.live_calls(r"iter::Iterator::any$"):
        base = methods_iteration(lr, at["args"][0])
        ok, why = False, "an any() whose receiver is not an iteration over the node's method table"
        if base is not None and base["kind"] in ("iter", "values"):
            cls = closure_args_of_call(lr, at)
            why = "any()'s predicate is not a closure defined here"
            if len(cls) == 1:
                h, agg = cls[0]
                fbb, why = closure_find(lr, h, agg, vparam)
                if fbb is not None:
                    ok, why = closure_bool_iff_served(h, fbb)
        tests.append(Test("any", ok, why if not ok else "any(<node's method table>, |h| find_handler_matching_version(h, request version).is_some())",
                          _atom_is(lr, ("call", abb), True), _atom_is(lr, ("call", abb), False), abb))
    # <collection of served names>.is_empty()
    for ebb, et in lr.live_calls(r"::is_empty$"):
        if not et["args"]:
            continue
        col = served_collection(lr, et["args"][0], vparam)
        if col is None:
            continue
        tests.append(Test("collected", col["ok"], "a collection is tested for emptiness; " + col["why"],
                          _atom_is(lr, ("call", ebb), False), _atom_is(lr, ("call", ebb), True), ebb))
    # <served source>.next() / .peek() / last() / min() / max() is Some / None
    for nbb, nt in lr.live_calls(r"iter::Iterator::(next|last|min|max)$|iter::Peekable::<I>::peek$"):
        if not nt["args"] or nbb in lr.loop_blocks():
            continue
        src = served_source(lr, nt["args"][0], vparam)
        if src is None:
            continue
        it = origin(lr, nt["args"][0], r"iter::Iterator::by_ref$")
        it_local = it.get("l") if it["kind"] in ("call", "local") else None
        ok, why = src["ok"], src["why"]
        if ok and not _fresh(lr, it_local, nbb):
            ok, why = False, "the iterator probed for a first element has already been advanced"

        def known(state, nbb=nbb):
            return lambda site: any(b == nbb and s == state for b, t, s in call_results_known_at(lr, site, r"."))
        tests.append(Test("first-element", ok, ("the first element of a lazily filtered iterator decides; " + why), known("Some"), known("None"), nbb))
    # <collection>.len() / <served source>.count() compared with 0 (or 1)
    for blk in lr.blocks:
        if blk["cleanup"]:
            continue
        for i, st in enumerate(blk["st"]):
            if st["s"] != "assign" or st["rv"]["rv"] != "binop" or st["rv"]["op"] not in _OPS:
                continue
            rv = st["rv"]
            for x, c, flip in ((rv["a"], rv["b"], False), (rv["b"], rv["a"], True)):
                k = const_int(c)
                if k not in (0, 1):
                    continue
                o = origin(lr, x)
                if o["kind"] != "call" or not o["t"]["args"]:
                    continue
                callee = o["t"].get("callee") or ""
                if callee.endswith("::len"):
                    col = served_collection(lr, o["t"]["args"][0], vparam)
                elif callee.endswith("iter::Iterator::count"):
                    col = served_source(lr, o["t"]["args"][0], vparam)
                else:
                    continue
                if col is None:
                    continue
                f = (lambda n, op=rv["op"], k=k: _OPS[op](k, n)) if flip else (lambda n, op=rv["op"], k=k: _OPS[op](n, k))
                if f(0) == f(1) or f(1) != f(2) or f(2) != f(3):
                    continue
                atom = ("cmp", blk["bb"], i)
                tests.append(Test("counted", col["ok"], "the number of served methods is compared with %d; %s" % (k, col["why"]),
                                  _atom_is(lr, atom, f(1)), _atom_is(lr, atom, f(0)), blk["bb"]))
    # <iteration over node.methods>.fold(None, step): the Option accumulator is Some iff some entry is served at the version
    for fbb, ft in lr.live_calls(FOLD):
        rec = fold_accumulator(lr, fbb, ft, vparam)
        if not rec["roots"]:
            continue    # a fold over something else

        def fknown(state, fbb=fbb):
            return lambda site: any(b == fbb and s == state for b, t, s in call_results_known_at(lr, site, FOLD))
        T = Test("fold", rec["ok"], "the outcome of a fold over the node's method table decides; " + rec["why"], fknown("Some"), fknown("None"), fbb)
        T.fold = rec
        tests.append(T)
    return tests


# --------------------------------------------------------------------------------------------- closures of lookup_route
def closure_sites(lr, h):
    """Calls in lookup_route that take closure h as an argument: [(bb, term, aggregate statement creating h)]."""
    out = []
    for bb, t in lr.live_calls():
        for g, agg in closure_args_of_call(lr, t):
            if g is h:
                out.append((bb, t, agg))
    return out


def upvar_operands(h, agg, op):
    """Operands of the enclosing function that closure value `op` is made of (through captured variables only);
    None when it also derives from the closure's arguments, from constants or from calls other than plumbing."""
    sl = h.slice(op)
    if callee_allow(sl, PLUMBING) or any(a[0] in ("lit", "const") for a in sl.atoms):
        return None
    out = []
    for pf in sl.param_fields():
        if pf[0] != 1:
            return None
        k = None
        for e in pf[1]:
            if e.startswith("f"):
                k = int(e[1:].split(":")[0])
                break
        if k is None or k >= len(agg["rv"]["ops"]):
            return None
        out.append(agg["rv"]["ops"][k])
    return out or None


def element_origin(lr, it_op, vparam):
    """What an iterator / adaptor receiver in lookup_route yields: a served-names source, the collection of served
    names, or a plain iteration over a node's method table.  -> (kind, record) with kind in served|table|other."""
    src = served_source(lr, it_op, vparam)
    if src is not None:
        return "served", src
    col = served_collection(lr, it_op, vparam)
    if col is not None:
        return "served", col
    base = methods_iteration(lr, it_op)
    if base is not None:
        return "table", base
    return "other", None


# --------------------------------------------------------------------------------------------- the 405 constructor
C405 = r"^error::HttpError::for_client_error"
FOLD = r"iter::Iterator::fold$"
ADD_HEADER = r"^error::HttpError::add_header$"


def is_405_ctor(t):
    return bool(re.search(C405, t.get("callee") or "")) and any(const_int(a) == 405 for a in t["args"])


def c405_sites(facts, lr):
    """Every live construction of a 405 error in lookup_route or in a closure defined in it: [(fn, bb, term)]."""
    out = []
    for g in [lr] + facts.descendants(lr):
        for bb, t in g.live_calls(C405):
            if is_405_ctor(t):
                out.append((g, bb, t))
    return out


# --------------------------------------------------------------------------------------------- delegation
def routing_body(facts, lr, depth=3):
    """The function that holds the routing decision — it reads a node's method table / calls
    find_handler_matching_version: lookup_route itself, or the crate-local function lookup_route hands the request to
    when the body was split off into a helper too large for the engine's inliner.
    -> (body, [(caller, bb, term, callee Fn)] delegation chain, why-not)."""
    cur, chain = lr, []
    for _ in range(depth):
        if cur.live_calls(FIND) or methods_reads(cur):
            return cur, chain, ""
        cands = []
        for bb, t in cur.live_calls():
            g = facts.F.get(t.get("resolved") or "\0") or facts.F.get(t.get("callee") or "\0")
            if g is None or g is cur or g.raw["kind"] == "Closure":
                continue
            if g.live_calls(FIND) or methods_reads(g) or any(facts.F[x].live_calls(FIND) for x in facts.region([g.id]) if x in facts.F):
                cands.append((bb, t, g))
        if len(cands) != 1:
            return None, chain, "%s neither consults a node's method table nor hands the request to exactly one function that does (%d candidates)" % (cur.id, len(cands))
        bb, t, g = cands[0]
        chain.append((cur, bb, t, g))
        cur = g
    return None, chain, "the delegation chain from lookup_route is deeper than %d" % depth


def delegation_faithful(cur, bb, t, g):
    """The hand-over `g(.., version, ..)` in `cur` passes cur's version parameter unmodified to g's version parameter and
    cur returns g's result as its own (no other error is built after the call).  -> (ok, why)."""
    vp_cur, vp_g = version_param(cur), version_param(g)
    if vp_g - 1 >= len(t["args"]):
        return False, "the callee's version parameter has no argument"
    if not is_request_version(cur, cur, t["args"][vp_g - 1], vp_cur):
        return False, "the version handed to %s is not %s's own version parameter" % (g.id, cur.id)
    ret = cur.slice({"l": 0, "p": []})
    if not (t["dest"]["l"] == 0 and not t["dest"]["p"]) and ("call", t["callee"], bb) not in ret.atoms:
        return False, "the result of %s is not what %s returns" % (g.id, cur.id)
    later = [b for b, t2 in cur.live_calls(r"^error::HttpError::") if b in cur.reachable(bb) and b != bb]
    if later:
        return False, "%s builds another error after %s returned" % (cur.id, g.id)
    return True, "%s hands method, segments and its version parameter to %s and returns its result" % (cur.id, g.id)


# --------------------------------------------------------------------------------------------- the fold idiom
def _value_defs(h, l, depth=0):
    """Terminal whole-value definitions of local l, looking through plain moves of locals:
    [([blocks of the moves.., block of the definition], kind, node)] with kind in param|assign|call."""
    out = []
    for bb, kind, node in h.defs().get(l, []):
        if kind == "assign" and not node["pl"]["p"] and node["rv"]["rv"] == "use" and operand_local(node["rv"]["op"]) is not None and depth < 6:
            src = operand_local(node["rv"]["op"])
            if 1 <= src <= h.argc:
                out.append(([bb], "param", src))
            else:
                inner = _value_defs(h, src, depth + 1)
                if not inner:
                    out.append(([bb], "unknown", node))
                for bbs, k, n in inner:
                    out.append(([bb] + bbs, k, n))
        else:
            out.append(([bb], kind, node))
    return out


def _acc_state(h, site, acc=2):
    """Variant of the fold step's accumulator parameter known on every path to block `site`: Some | None | None."""
    for op, state in option_facts_at(h, site):
        o = origin(h, op, OPTION_VIEW)
        if o["kind"] == "local" and o["l"] == acc:
            return state
    return None


def fold_accumulator(lr, fbb, ft, vparam):
    """`<iteration over node.methods>.fold(None, |acc, (name, handlers)| ..)` with an Option<HttpError> accumulator that is
    Some exactly when some entry seen so far is served at the request's version:
      * the initial accumulator is None;
      * the step tests find_handler_matching_version(<its item's handlers>, <request version>) once;
      * where that is None the step returns its accumulator parameter unchanged, where it is Some the step returns
        Some(e) with e the accumulated error or a 405 built right there (and nowhere else: only for a served item,
        only while the accumulator is None); the step never returns anything else (no reset to None);
    `adds` lists the step's add_header(ALLOW, v) calls with: v is the item's own key, the call is reached only where the
    find result is Some, the receiver is the error carried in the accumulator / the fresh 405."""
    from .lib_c01 import sources
    rec = {"ok": False, "why": "", "bb": fbb, "t": ft, "h": None, "roots": set(), "adds": [], "c405": []}
    base = methods_iteration(lr, ft["args"][0])
    if base is None:
        rec["why"] = "fold is not applied to an iteration over the node's method table"
        return rec
    rec["roots"] = base["roots"]
    if base["kind"] != "iter":
        rec["why"] = "the fold does not run over the (name, handlers) entries of the node's method table"
        return rec
    cls = closure_args_of_call(lr, ft)
    if len(cls) != 1 or cls[0][0].argc != 3:
        rec["why"] = "fold's step is not a closure `|acc, item|` defined here"
        return rec
    h, agg = cls[0]
    rec["h"] = h
    o = origin(lr, ft["args"][1])
    init = o.get("def", {}).get("rv", {}) if o["kind"] == "local" else {}
    if not (init.get("rv") == "agg" and init.get("adt") == "std::option::Option" and init.get("variant") == "None"):
        rec["why"] = "the fold's initial accumulator is not None"
        return rec
    fb, why = closure_find(lr, h, agg, vparam, item=3)
    if fb is None:
        rec["why"] = why
        return rec

    def carried(op):
        """the operand is the accumulated error `(acc as Some).0` or a 405 built in this step; -> (ok, ctor blocks)"""
        ctors = set()
        srcs = sources(h, op)
        for p in srcs:
            if p.kind() == "param" and p.root[1] == 2 and p.path == ["as Some", "0"]:
                continue
            if p.kind() == "call" and not p.path and is_405_ctor(p.root[4]):
                ctors.add(p.root[3])
                continue
            return False, ctors
        return bool(srcs), ctors
    defs = _value_defs(h, 0)
    if not defs:
        rec["why"] = "the step's result has no recognisable definition"
        return rec
    n_some = 0
    for bbs, kind, node in defs:
        states = set(_find_state(h, fb, b) for b in bbs)
        if kind == "param":
            if node != 2:
                rec["why"] = "the step returns something other than its accumulator"
                return rec
            if "None" not in states:
                rec["why"] = "the accumulator is handed on unchanged where find_handler_matching_version(item's handlers, request version) is not known to be None"
                return rec
            continue
        rv = node.get("rv", {}) if kind == "assign" else {}
        if rv.get("rv") == "agg" and rv.get("adt") == "std::option::Option" and rv.get("variant") == "Some":
            if "Some" not in states:
                rec["why"] = "the accumulator becomes Some where find_handler_matching_version(item's handlers, request version) is not known to be Some"
                return rec
            ok, ctors = carried(rv["ops"][0])
            if not ok:
                rec["why"] = "the error carried in the accumulator is neither the one accumulated so far nor a 405 built in this step"
                return rec
            n_some += 1
            continue
        if rv.get("rv") == "agg" and rv.get("adt") == "std::option::Option" and rv.get("variant") == "None":
            rec["why"] = "the step resets the accumulator to None"
            return rec
        rec["why"] = "the step's result is not its accumulator or Some(error)"
        return rec
    if not n_some:
        rec["why"] = "the step never yields Some"
        return rec
    for bb, t in h.live_calls(C405):
        if not is_405_ctor(t):
            continue
        rec["c405"].append((bb, t))
        if _find_state(h, fb, bb) != "Some":
            rec["why"] = "the 405 is built where find_handler_matching_version(item's handlers, request version) is not known to be Some"
            return rec
        if _acc_state(h, bb) != "None":
            rec["why"] = "a 405 is built in a step whose accumulator is not known to be None (it would drop the Allow values collected so far)"
            return rec
    for bb, t in h.live_calls(ADD_HEADER):
        sl = h.slice(t["args"][1])
        if not (sl.has_const_path(r"header::ALLOW$") or any(a[0] == "const" and "ALLOW" in a[1] for a in sl.atoms)):
            continue
        root = borrow_root(h, t["args"][0])
        recv_ok = root is not None and carried({"k": "copy", "pl": {"l": root, "p": []}})[0]
        rec["adds"].append({"bb": bb, "t": t, "value_ok": _from_item_only(h, t["args"][2], item=3),
                            "guarded": _find_state(h, fb, bb) == "Some", "recv_ok": recv_ok})
    rec["ok"] = True
    rec["why"] = ("fold over the node's method table with an Option accumulator that starts None, is handed on unchanged for entries not served at the request's "
                  "version and becomes / stays Some(405 error) for entries that are")
    return rec
