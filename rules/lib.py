"""Shared rule helpers built on engine.py."""
import json
import re

from .engine import comparison_of, op_str, pl_str


def closure_of_operand(fn, op):
    """If operand is a local whose single definition is a closure/coroutine aggregate,
    return that closure's Fn (and the aggregate statement)."""
    if op.get("k") not in ("copy", "move") or op["pl"]["p"]:
        return None, None
    ds = fn.defs().get(op["pl"]["l"], [])
    for bb, kind, node in ds:
        if kind == "assign" and node["rv"]["rv"] == "agg" and node["rv"].get("agg") in ("closure", "coroutine", "coroutine_closure"):
            g = fn.facts.F.get(node["rv"]["def"])
            return g, node
        if kind == "assign" and node["rv"]["rv"] == "use":
            return closure_of_operand(fn, node["rv"]["op"])
    return None, None


def closure_args_of_call(fn, t):
    out = []
    for a in t["args"]:
        g, node = closure_of_operand(fn, a)
        if g is not None:
            out.append((g, node))
    return out


def fnitem_of_operand(fn, op):
    if op.get("k") == "const" and op.get("fn"):
        return op["fn"]
    return None


def try_edges(fn, result_local):
    """Find `Try::branch(move result_local)` and its switch.  Returns
    dict(branch_bb, switch_bb, cont=bb, brk=bb) or None."""
    for bb, t in fn.calls(r"ops::Try::branch$"):
        a = t["args"][0]
        if a.get("k") in ("copy", "move") and a["pl"]["l"] == result_local and not a["pl"]["p"]:
            nxt = t.get("to")
            if nxt is None:
                return None
            # the switch on discr(dest)
            cur = nxt
            for _ in range(3):
                term = fn.blocks[cur]["term"]
                if term["t"] == "switch":
                    info = fn.switch_on(cur)
                    if info["kind"] == "discr" and info["place"]["l"] == t["dest"]["l"]:
                        return {"branch_bb": bb, "switch_bb": cur, "cont": fn.switch_target(cur, 0),
                                "brk": fn.switch_target(cur, 1), "dest": t["dest"]["l"]}
                    return None
                s = fn.succ(cur)
                if len(s) != 1:
                    return None
                cur = s[0]
    return None


def result_switch(fn, local):
    """Find the switch on discriminant of `local` (Option/Result/ControlFlow/...).
    Returns list of (switch_bb, info)."""
    out = []
    for bb, t in fn.switches():
        info = fn.switch_on(bb)
        if info["kind"] == "discr" and info["place"]["l"] == local:
            out.append((bb, info))
    return out


def returns_only_from(fn, callee_pattern, facts=None):
    """Every normal return of fn returns a value whose slice contains a call matching
    callee_pattern (e.g. a closure that always builds HttpError::for_bad_request)."""
    sl = fn.slice({"l": 0, "p": []})
    return sl.has_call(callee_pattern), sl


def block_of_call(fn, pattern):
    return [bb for bb, t in fn.live_calls(pattern)]


def arm_region(fn, entry_bb, switch_bb):
    """Blocks reachable from entry_bb without passing back through switch_bb, minus the
    blocks also reachable from the switch's other targets first (approximate 'arm')."""
    return fn.reachable(entry_bb, avoid=[switch_bb])


def operand_local(op):
    if op.get("k") in ("copy", "move") and not op["pl"]["p"]:
        return op["pl"]["l"]
    return None


def lit_str(op):
    if op.get("k") == "const" and op.get("val") and "str" in op["val"]:
        return op["val"]["str"]
    return None


def const_int(op):
    if op.get("k") == "const" and op.get("val") and "int" in op["val"]:
        return op["val"]["int"]
    return None


def slice_has_lit_str(sl, s):
    needle = json.dumps({"str": s})
    for a in sl.atoms:
        if a[0] == "lit" and a[1] == needle:
            return True
        if a[0] == "const" and a[2] == needle:
            return True
    return False


def lit_strs(sl):
    out = set()
    for a in sl.atoms:
        v = None
        if a[0] == "lit":
            v = a[1]
        elif a[0] == "const":
            v = a[2]
        if v and v != "null":
            try:
                d = json.loads(v)
                if isinstance(d, dict) and "str" in d:
                    out.add(d["str"])
                elif isinstance(d, dict) and isinstance(d.get("bytes"), list):
                    # a byte-string constant (e.g. the encoded pieces of a format string): its printable text
                    out.add("".join(chr(b) if 32 <= b < 127 else "\x00" for b in d["bytes"]))
            except Exception:
                pass
    return out


def callee_allow(sl, allow_patterns):
    """Callees on the slice that match none of the allowed patterns."""
    rxs = [re.compile(p) for p in allow_patterns]
    bad = []
    for c, bb, t in sl.callees:
        name = c
        res = t.get("resolved") or ""
        if not any(r.search(name) or (res and r.search(res)) for r in rxs):
            bad.append((c, bb))
    return bad


# value-preserving plumbing that may appear on any CHAIN slice
PLUMBING = [
    r"ops::Deref::deref$", r"ops::DerefMut::deref_mut$", r"convert::AsRef::as_ref$", r"convert::AsMut::as_mut$",
    r"borrow::Borrow::borrow$", r"clone::Clone::clone$", r"convert::Into::into$", r"convert::From::from$",
    r"ops::Try::branch$", r"ops::FromResidual::from_residual$", r"Option::<T>::as_ref$", r"Option::<T>::as_deref$",
    r"Option::<T>::as_mut$", r"Result::<T, E>::as_ref$", r"future::IntoFuture::into_future$", r"Future::poll$",
    r"pin::Pin::<Ptr>::new_unchecked$", r"pin::Pin::<Ptr>::new$", r"pin::Pin::<&'a mut T>::get_mut", r"task::ready",
    r"boxed::Box::<T>::new$", r"boxed::Box::<T>::pin$", r"sync::Arc::<T>::new$", r"get_context$", r"hint::must_use$",
    r"Pin::<Ptr>::as_mut$", r"mem::take$", r"mem::replace$", r"Option::<T>::take$",
]


def status_const_of_ctor(ds, ctor):
    """Evaluated status constants named in an HttpError constructor body
    (e.g. for_bad_request -> {400})."""
    f = ds.one(r"^error::HttpError::%s$" % ctor)
    if f is None:
        return None
    vals = set()
    def walk(o):
        if isinstance(o, dict):
            if o.get("k") == "const" and o.get("path") and "StatusCode::" in o["path"] and o.get("val") and "int" in o["val"]:
                vals.add(o["val"]["int"])
            for v in o.values():
                walk(v)
        elif isinstance(o, list):
            for v in o:
                walk(v)
    walk(f.blocks)
    if not vals:
        # the constant is not named in the body (a local `const STATUS`, a let-bound value, delegation to another
        # constructor): the evaluated constants that reach the built error's `status_code` field
        from .lib_c04 import ctor_status
        vals = ctor_status(ds, ctor) or set()
    return vals


def callers(facts, pattern, exclude_tests=True):
    out = []
    for f, bb, t in facts.callers_of(pattern):
        if bb not in f.reachable(0):
            continue
        out.append((f, bb, t))
    return out


def root_fn(facts, fn):
    """Outermost named function enclosing a closure."""
    cur = fn
    while cur.raw["kind"] == "Closure" and cur.raw.get("parent") in facts.F:
        cur = facts.F[cur.raw["parent"]]
    return cur


def switches_on_value(fn, local):
    """Switch blocks whose scrutinee is `local` or a plain copy/move of it (let-bound bool)."""
    out = []
    for sbb, st in fn.switches():
        d = st["discr"]
        cur = operand_local(d)
        seen = 0
        while cur is not None and seen < 6:
            if cur == local:
                out.append((sbb, st))
                break
            ds = fn.defs().get(cur, [])
            if len(ds) != 1 or ds[0][1] != "assign" or ds[0][2]["rv"]["rv"] != "use":
                break
            cur = operand_local(ds[0][2]["rv"]["op"])
            seen += 1
    return out


def option_some_edges(fn):
    """Edges on which an Option value is known to be Some: yields (switch_bb, target_bb, operand_of_the_option).
    Recognises `x.is_some()` (true edge), `x.is_none()` (false edge) and a discriminant
    switch / `if let Some(..)` / `match` on an Option place (the Some target)."""
    out = []
    for sbb, st in fn.switches():
        info = fn.switch_on(sbb)
        if info["kind"] == "bool":
            # follow copies of the bool back to the producing call
            dbb, kind, node = info["def"]
            hops = 0
            while kind == "assign" and node["rv"]["rv"] == "use" and hops < 5:
                l = operand_local(node["rv"]["op"])
                ds = fn.defs().get(l, []) if l is not None else []
                if len(ds) != 1:
                    break
                dbb, kind, node = ds[0]
                hops += 1
            if kind != "call":
                continue
            callee = node.get("callee") or ""
            tb, fb = fn.bool_edges(sbb)
            if callee.endswith("Option::<T>::is_some"):
                out.append((sbb, tb, node["args"][0]))
            elif callee.endswith("Option::<T>::is_none"):
                out.append((sbb, fb, node["args"][0]))
        elif info["kind"] == "discr" and info["adt"] == "std::option::Option":
            some = [i for i, n in info["variants"].items() if n == "Some"]
            if some:
                out.append((sbb, fn.switch_target(sbb, some[0]), {"k": "copy", "pl": info["place"]}))
    return out


def _moves_of(fn, local):
    """Locals that receive `local` by a plain move/copy (`_y = move _x`)."""
    out = []
    for bb, i, st in fn.stmts():
        rv = st["rv"]
        if rv["rv"] == "use" and operand_local(rv["op"]) == local and not st["pl"]["p"]:
            out.append(st["pl"]["l"])
    return out


def result_split(fn, local, max_hops=8):
    """Follow a Result (or Option) value forward to the point where it is split into its two cases,
    whatever the idiom: `x?`, `x.map_err(f)?`, `match x {Ok(..) => .., Err(..) => ..}`, `if let`, `let else`.
    Returns dict(switch_bb, ok, err, mappers=[closure Fn applied to the error], via=[callee names], local)
    where ok/err are the successor blocks of the two cases, or None."""
    cur = local
    mappers, via = [], []
    seen = set()
    for _ in range(max_hops):
        if cur in seen:
            break
        seen.add(cur)
        te = try_edges(fn, cur)
        if te:
            return {"switch_bb": te["switch_bb"], "ok": te["cont"], "err": te["brk"], "mappers": mappers, "via": via + ["?"], "local": cur, "payload": te["dest"]}
        refs = [cur] + [st["pl"]["l"] for bb, i, st in fn.stmts() if st["rv"]["rv"] == "ref" and st["rv"]["pl"]["l"] == cur and not st["rv"]["pl"]["p"] and not st["pl"]["p"]]
        for sbb, t in fn.switches():
            info = fn.switch_on(sbb)
            if info["kind"] == "discr" and info["place"]["l"] in refs and info["adt"] in ("std::result::Result", "std::option::Option"):
                names = {n: i for i, n in info["variants"].items()}
                okv, errv = (names.get("Ok"), names.get("Err")) if info["adt"].endswith("Result") else (names.get("Some"), names.get("None"))
                return {"switch_bb": sbb, "ok": fn.switch_target(sbb, okv), "err": fn.switch_target(sbb, errv), "mappers": mappers, "via": via + ["match"], "local": cur, "payload": info["place"]["l"]}
        # the Result wrapped into an Option (`items.last().map(|x| f(x))` kept as an Option<Result<..>> and matched with
        # nested patterns `Some(Ok(..)) / Some(Err(..)) / None`): the split is the switch on that field of the wrapper
        for abb, ai, ast in fn.stmts():
            rv = ast["rv"]
            if rv["rv"] == "agg" and rv.get("agg") == "adt" and not ast["pl"]["p"] and any(operand_local(o) == cur and o.get("k") == "move" and not o["pl"]["p"] for o in rv["ops"]):
                k = [operand_local(o) == cur for o in rv["ops"]].index(True)
                for sbb, t in fn.switches():
                    info = fn.switch_on(sbb)
                    if info["kind"] != "discr" or info["place"]["l"] != ast["pl"]["l"] or info["adt"] not in ("std::result::Result", "std::option::Option"):
                        continue
                    pp = info["place"]["p"]
                    if len(pp) == 2 and isinstance(pp[0], dict) and "dc" in pp[0] and pp[0]["dc"] in (None, rv.get("variant")) and isinstance(pp[1], dict) and pp[1].get("f") == k:
                        names = {n: i for i, n in info["variants"].items()}
                        okv, errv = (names.get("Ok"), names.get("Err")) if info["adt"].endswith("Result") else (names.get("Some"), names.get("None"))
                        return {"switch_bb": sbb, "ok": fn.switch_target(sbb, okv), "err": fn.switch_target(sbb, errv), "mappers": mappers, "via": via + ["nested match"], "local": cur,
                                "payload": info["place"]["l"]}
        nxt = None
        for bb, t in fn.live_calls(r"(Result::<T, E>|Option::<T>)::(map_err|map|or_else|inspect_err|ok_or_else|ok_or)$"):
            if operand_local(t["args"][0]) == cur:
                if re.search(r"::(map_err|or_else|ok_or_else)$", t["callee"]):
                    for h, node in closure_args_of_call(fn, t):
                        mappers.append(h)
                    if len(t["args"]) > 1 and t["args"][1].get("fn"):
                        via.append("fn:" + t["args"][1]["fn"])
                via.append(t["callee"].split("::")[-1])
                nxt = t["dest"]["l"]
                break
        if nxt is None:
            mv = _moves_of(fn, cur)
            if mv:
                nxt = mv[0]
        if nxt is None:
            break
        cur = nxt
    return None


def http_error_ctors_on_error_path(fn, split):
    """HttpError constructors that can produce the error returned on the error side of `split`
    (from result_split): those inside the error-mapping closures, plus those feeding an `Err(..)`
    written to the return place in the blocks reachable from the error edge but not from the ok edge."""
    names = set()
    for h in split["mappers"]:
        hs = h.slice({"l": 0, "p": []})
        names |= set(c for c in hs.callee_names() if re.search(r"^error::HttpError::for_", c))
    err_only = fn.reachable(split["err"]) - fn.reachable(split["ok"])
    for bb, i, st in fn.aggregates(r"^std::result::Result$", "Err"):
        if st["pl"]["l"] == 0 and bb in err_only:
            sl = fn.slice(st["rv"]["ops"][0])
            names |= set(c for c in sl.callee_names() if re.search(r"^error::HttpError::for_", c))
    # a constructor called on the error side only whose result flows into the return value (normalised view: the body of
    # a `map_err` closure spliced into the Err arm; `Err(ctor(..))?`; an error bound to a local first)
    ret = fn.slice({"l": 0, "p": []})
    for bb, t in fn.live_calls(r"^error::HttpError::for_"):
        if bb in err_only and ("call", t["callee"], bb) in ret.atoms:
            names.add(t["callee"])
    return names


def element_sources(facts, fn, op):
    """Where does an *element* value come from?  Returns [(ctx_fn, iterator_operand, how)]:
    - the operand's slice contains `Iterator::next(&mut it)`: (fn, it, "next")   [for / while-let loops]
    - fn is a closure and the operand derives from its item parameter: (parent, receiver of the adaptor
      call that takes the closure, "adaptor:<name>")                            [map / filter / any / find ..]"""
    out = []
    sl = fn.slice(op)
    for c, bb, t in sl.calls(r"iter::Iterator::next$"):
        out.append((fn, t["args"][0], "next"))
    if fn.raw["kind"] == "Closure" and any(p >= 2 for p in sl.params()):
        par = facts.F.get(fn.raw.get("parent"))
        cands = [par] if par is not None else []
        # closures of an inlined helper are re-parented through raw["inlined"]
        cands += [g for g in facts.F.values() if fn.raw.get("parent") in g.raw.get("inlined", [])]
        for g in cands:
            for bb, t in g.live_calls():
                for h, node in closure_args_of_call(g, t):
                    if h is fn and t["args"]:
                        out.append((g, t["args"][0], "adaptor:" + (t.get("callee") or "").split("::")[-1]))
    return out


ITER_PLUMBING = [r"iter::Iterator::next$", r"iter::IntoIterator::into_iter$", r"iter::Iterator::(by_ref|peekable|fuse|enumerate|skip|take)$"]


def borrow_root(fn, op, max_hops=8):
    """Root local of a (re)borrow chain: `&mut v`, `&mut *r` with r = &mut v, moves of such references."""
    cur = operand_local(op)
    for _ in range(max_hops):
        if cur is None:
            return None
        ds = fn.defs().get(cur, [])
        if len(ds) != 1 or ds[0][1] != "assign":
            return cur
        rv = ds[0][2]["rv"]
        if rv["rv"] == "ref":
            pl = rv["pl"]
            if not pl["p"]:
                cur = pl["l"]
                # a reference to the collection itself: that is the root unless it is again a reference local
                ds2 = fn.defs().get(cur, [])
                if len(ds2) == 1 and ds2[0][1] == "assign" and ds2[0][2]["rv"]["rv"] in ("ref", "use") and fn.local_ty(cur).startswith("&"):
                    continue
                return cur
            if pl["p"] == ["*"]:
                cur = pl["l"]
                continue
            return None
        if rv["rv"] == "use":
            cur = operand_local(rv["op"])
            continue
        return cur
    return cur
