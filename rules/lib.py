"""Shared rule helpers built on engine.py."""
import json
import re

from .engine import comparison_of, op_str, pl_str


def closure_of_operand(fn, op):
    """If operand is a local whose single definition is a closure/coroutine aggregate,
    return that closure's Fn (and the aggregate statement)."""
    if op.get("k") not in ("copy", "move") or op["pl"]["p"]:
        return None, None
    ds = fn.defs().get(op["pl"]["l"], [])
    for bb, kind, node in ds:
        if kind == "assign" and node["rv"]["rv"] == "agg" and node["rv"].get("agg") in ("closure", "coroutine", "coroutine_closure"):
            g = fn.facts.F.get(node["rv"]["def"])
            return g, node
        if kind == "assign" and node["rv"]["rv"] == "use":
            return closure_of_operand(fn, node["rv"]["op"])
    return None, None


def closure_args_of_call(fn, t):
    out = []
    for a in t["args"]:
        g, node = closure_of_operand(fn, a)
        if g is not None:
            out.append((g, node))
    return out


def fnitem_of_operand(fn, op):
    if op.get("k") == "const" and op.get("fn"):
        return op["fn"]
    return None


def try_edges(fn, result_local):
    """Find `Try::branch(move result_local)` and its switch.  Returns
    dict(branch_bb, switch_bb, cont=bb, brk=bb) or None."""
    for bb, t in fn.calls(r"ops::Try::branch$"):
        a = t["args"][0]
        if a.get("k") in ("copy", "move") and a["pl"]["l"] == result_local and not a["pl"]["p"]:
            nxt = t.get("to")
            if nxt is None:
                return None
            # the switch on discr(dest)
            cur = nxt
            for _ in range(3):
                term = fn.blocks[cur]["term"]
                if term["t"] == "switch":
                    info = fn.switch_on(cur)
                    if info["kind"] == "discr" and info["place"]["l"] == t["dest"]["l"]:
                        return {"branch_bb": bb, "switch_bb": cur, "cont": fn.switch_target(cur, 0),
                                "brk": fn.switch_target(cur, 1), "dest": t["dest"]["l"]}
                    return None
                s = fn.succ(cur)
                if len(s) != 1:
                    return None
                cur = s[0]
    return None


def result_switch(fn, local):
    """Find the switch on discriminant of `local` (Option/Result/ControlFlow/...).
    Returns list of (switch_bb, info)."""
    out = []
    for bb, t in fn.switches():
        info = fn.switch_on(bb)
        if info["kind"] == "discr" and info["place"]["l"] == local:
            out.append((bb, info))
    return out


def returns_only_from(fn, callee_pattern, facts=None):
    """Every normal return of fn returns a value whose slice contains a call matching
    callee_pattern (e.g. a closure that always builds HttpError::for_bad_request)."""
    sl = fn.slice({"l": 0, "p": []})
    return sl.has_call(callee_pattern), sl


def block_of_call(fn, pattern):
    return [bb for bb, t in fn.live_calls(pattern)]


def arm_region(fn, entry_bb, switch_bb):
    """Blocks reachable from entry_bb without passing back through switch_bb, minus the
    blocks also reachable from the switch's other targets first (approximate 'arm')."""
    return fn.reachable(entry_bb, avoid=[switch_bb])


def operand_local(op):
    if op.get("k") in ("copy", "move") and not op["pl"]["p"]:
        return op["pl"]["l"]
    return None


def lit_str(op):
    if op.get("k") == "const" and op.get("val") and "str" in op["val"]:
        return op["val"]["str"]
    return None


def const_int(op):
    if op.get("k") == "const" and op.get("val") and "int" in op["val"]:
        return op["val"]["int"]
    return None


def slice_has_lit_str(sl, s):
    needle = json.dumps({"str": s})
    for a in sl.atoms:
        if a[0] == "lit" and a[1] == needle:
            return True
        if a[0] == "const" and a[2] == needle:
            return True
    return False


def lit_strs(sl):
    out = set()
    for a in sl.atoms:
        v = None
        if a[0] == "lit":
            v = a[1]
        elif a[0] == "const":
            v = a[2]
        if v and v != "null":
            try:
                d = json.loads(v)
                if isinstance(d, dict) and "str" in d:
                    out.add(d["str"])
            except Exception:
                pass
    return out


def callee_allow(sl, allow_patterns):
    """Callees on the slice that match none of the allowed patterns."""
    rxs = [re.compile(p) for p in allow_patterns]
    bad = []
    for c, bb, t in sl.callees:
        name = c
        res = t.get("resolved") or ""
        if not any(r.search(name) or (res and r.search(res)) for r in rxs):
            bad.append((c, bb))
    return bad


# value-preserving plumbing that may appear on any CHAIN slice
PLUMBING = [
    r"ops::Deref::deref$", r"ops::DerefMut::deref_mut$", r"convert::AsRef::as_ref$", r"convert::AsMut::as_mut$",
    r"borrow::Borrow::borrow$", r"clone::Clone::clone$", r"convert::Into::into$", r"convert::From::from$",
    r"ops::Try::branch$", r"ops::FromResidual::from_residual$", r"Option::<T>::as_ref$", r"Option::<T>::as_deref$",
    r"Option::<T>::as_mut$", r"Result::<T, E>::as_ref$", r"future::IntoFuture::into_future$", r"Future::poll$",
    r"pin::Pin::<Ptr>::new_unchecked$", r"pin::Pin::<Ptr>::new$", r"pin::Pin::<&'a mut T>::get_mut", r"task::ready",
    r"boxed::Box::<T>::new$", r"boxed::Box::<T>::pin$", r"sync::Arc::<T>::new$", r"get_context$", r"hint::must_use$",
    r"Pin::<Ptr>::as_mut$", r"mem::take$", r"mem::replace$", r"Option::<T>::take$",
]


def status_const_of_ctor(ds, ctor):
    """Evaluated status constants named in an HttpError constructor body
    (e.g. for_bad_request -> {400})."""
    f = ds.one(r"^error::HttpError::%s$" % ctor)
    if f is None:
        return None
    vals = set()
    def walk(o):
        if isinstance(o, dict):
            if o.get("k") == "const" and o.get("path") and "StatusCode::" in o["path"] and o.get("val") and "int" in o["val"]:
                vals.add(o["val"]["int"])
            for v in o.values():
                walk(v)
        elif isinstance(o, list):
            for v in o:
                walk(v)
    walk(f.blocks)
    return vals


def callers(facts, pattern, exclude_tests=True):
    out = []
    for f, bb, t in facts.callers_of(pattern):
        if bb not in f.reachable(0):
            continue
        out.append((f, bb, t))
    return out


def root_fn(facts, fn):
    """Outermost named function enclosing a closure."""
    cur = fn
    while cur.raw["kind"] == "Closure" and cur.raw.get("parent") in facts.F:
        cur = facts.F[cur.raw["parent"]]
    return cur


def switches_on_value(fn, local):
    """Switch blocks whose scrutinee is `local` or a plain copy/move of it (let-bound bool)."""
    out = []
    for sbb, st in fn.switches():
        d = st["discr"]
        cur = operand_local(d)
        seen = 0
        while cur is not None and seen < 6:
            if cur == local:
                out.append((sbb, st))
                break
            ds = fn.defs().get(cur, [])
            if len(ds) != 1 or ds[0][1] != "assign" or ds[0][2]["rv"]["rv"] != "use":
                break
            cur = operand_local(ds[0][2]["rv"]["op"])
            seen += 1
    return out


def option_some_edges(fn):
    """Edges on which an Option value is known to be Some: yields (switch_bb, target_bb, operand_of_the_option).
    Recognises `x.is_some()` (true edge), `x.is_none()` (false edge) and a discriminant
    switch / `if let Some(..)` / `match` on an Option place (the Some target)."""
    out = []
    for sbb, st in fn.switches():
        info = fn.switch_on(sbb)
        if info["kind"] == "bool":
            # follow copies of the bool back to the producing call
            dbb, kind, node = info["def"]
            hops = 0
            while kind == "assign" and node["rv"]["rv"] == "use" and hops < 5:
                l = operand_local(node["rv"]["op"])
                ds = fn.defs().get(l, []) if l is not None else []
                if len(ds) != 1:
                    break
                dbb, kind, node = ds[0]
                hops += 1
            if kind != "call":
                continue
            callee = node.get("callee") or ""
            tb, fb = fn.bool_edges(sbb)
            if callee.endswith("Option::<T>::is_some"):
                out.append((sbb, tb, node["args"][0]))
            elif callee.endswith("Option::<T>::is_none"):
                out.append((sbb, fb, node["args"][0]))
        elif info["kind"] == "discr" and info["adt"] == "std::option::Option":
            some = [i for i, n in info["variants"].items() if n == "Some"]
            if some:
                out.append((sbb, fn.switch_target(sbb, some[0]), {"k": "copy", "pl": info["place"]}))
    return out
