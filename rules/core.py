"""Check context: instance bookkeeping, violations, known findings, evidence."""
import json
import os
import sys
import time

from . import extract
from .engine import Facts

VERIF = extract.VERIF


class Instance:
    __slots__ = ("rule", "key", "ok", "detail", "site", "nontrivial")

    def __init__(self, rule, key, ok, detail, site, nontrivial):
        self.rule, self.key, self.ok, self.detail, self.site, self.nontrivial = rule, key, ok, detail, site, nontrivial

    def as_dict(self):
        return {"rule": self.rule, "instance": self.key, "verdict": "holds" if self.ok else "VIOLATED",
                "site": self.site, "detail": self.detail}


class AnchorLost(Exception):
    pass


class Ctx:
    def __init__(self, prop, tier, features=""):
        self.prop = prop
        self.tier = tier
        self.t0 = time.time()
        self.instances = []
        self.rules = {}          # rule id -> statement
        self.floors = {}         # rule id -> minimal instance count
        self.assumptions = []
        self.notes = {}
        self.features = features
        for attempt in range(2):
            d, info = extract.ensure_facts(features)
            try:
                self.ds = Facts(os.path.join(d, "dropshot.json"))
                self.ep = Facts(os.path.join(d, "dropshot_endpoint.json"))
                break
            except FileNotFoundError:
                if attempt:
                    raise   # the fact set vanished twice (evicted by a concurrent run)
        self.extract_info = info
        self.extra = {}

    @property
    def dsn(self):
        """The normalised view of the dropshot crate: Option/Result combinators rewritten into their defining match
        with the closure bodies spliced in (engine._desugar_combinators).  Built on first use."""
        if getattr(self, "_dsn", None) is None:
            d, _ = extract.ensure_facts(self.features)
            self._dsn = Facts(os.path.join(d, "dropshot.json"), desugar=True)
        return self._dsn

    @property
    def epn(self):
        """The normalised view of the dropshot_endpoint crate (see dsn)."""
        if getattr(self, "_epn", None) is None:
            d, _ = extract.ensure_facts(self.features)
            self._epn = Facts(os.path.join(d, "dropshot_endpoint.json"), desugar=True)
        return self._epn

    # ------------------------------------------------------------------ rule API
    def rule(self, rid, statement, floor=1):
        self.rules[rid] = statement
        self.floors[rid] = floor
        return rid

    def check(self, rule, key, ok, detail="", site=None, nontrivial=True):
        """Record one examined instance of a rule."""
        if isinstance(site, tuple):
            fn, bb = site
            site = fn.loc(bb) + " in " + fn.id
        elif hasattr(site, "loc"):
            site = site.loc() + " in " + site.id
        self.instances.append(Instance(rule, key, bool(ok), detail, site, nontrivial))
        return bool(ok)

    def lost(self, rule, what):
        """Fail closed: an anchor the rule needs is gone."""
        self.instances.append(Instance(rule, "anchor-lost:" + what, False,
                                       "anchor not found: %s — the rule cannot be evaluated and fails closed" % what, None, False))

    def need_fn(self, facts, rule, pattern):
        f = facts.one(pattern)
        if f is None:
            m = facts.fns(pattern)
            self.lost(rule, "function /%s/ (%d matches)" % (pattern, len(m)))
            raise AnchorLost(pattern)
        return f

    def assume(self, text):
        if text not in self.assumptions:
            self.assumptions.append(text)

    # ------------------------------------------------------------------ finish
    def finish(self, level="other", explanation="", trusted_base=None, extra_cov=None):
        # floors
        counts = {}
        for i in self.instances:
            counts[i.rule] = counts.get(i.rule, 0) + 1
        for rid, floor in self.floors.items():
            n = counts.get(rid, 0)
            if n < floor:
                self.instances.append(Instance(rid, "floor", False,
                                               "rule examined %d instance(s), fewer than the %d confirmed by hand on the pinned tree — a rule that matches nothing would pass vacuously" % (n, floor), None, False))
        known = load_known()
        viol = [i for i in self.instances if not i.ok]
        new, listed = [], []
        for v in viol:
            k = "%s:%s" % (v.rule, v.key)
            if k in known.get(self.prop, {}):
                listed.append((v, known[self.prop][k]))
            else:
                new.append(v)
        vdir = os.path.join(evidence_dir(), "violations")
        os.makedirs(vdir, exist_ok=True)
        for fn in os.listdir(vdir):
            if fn.startswith(self.prop + "."):
                os.unlink(os.path.join(vdir, fn))
        lines = []
        for v, what in listed:
            lines.append("KNOWN-FINDING: property=%s %s [%s:%s]" % (self.prop, what, v.rule, v.key))
        for n, v in enumerate(new):
            path = os.path.join(vdir, "%s.%s.%d.json" % (self.prop, v.rule.replace("/", "_"), n))
            with open(path, "w") as f:
                json.dump({"property": self.prop, "rule": v.rule, "rule_statement": self.rules.get(v.rule, ""),
                           "instance": v.key, "site": v.site, "detail": v.detail,
                           "tree_hash": self.extract_info["tree_hash"], "features": self.features}, f, indent=1)
            lines.append("VIOLATION property=%s replay=%s" % (self.prop, path))
            lines.append("  rule %s — %s" % (v.rule, self.rules.get(v.rule, "")))
            lines.append("  instance %s%s" % (v.key, (" at " + v.site) if v.site else ""))
            if v.detail:
                lines.append("  " + v.detail)
        # evidence
        distinct = set((i.rule, i.key) for i in self.instances if i.nontrivial and i.ok)
        per_rule = {}
        for i in self.instances:
            r = per_rule.setdefault(i.rule, {"statement": self.rules.get(i.rule, ""), "instances": 0, "violated": 0})
            r["instances"] += 1
            if not i.ok:
                r["violated"] += 1
        samples = []
        seen_rules = set()
        for i in self.instances:
            if i.rule not in seen_rules:
                seen_rules.add(i.rule)
                samples.append(i.as_dict())
        for v in viol[:10]:
            samples.append(v.as_dict())
        cov = {
            "evaluations": len(self.instances),
            "distinct_nontrivial": len(distinct),
            "rule": "one evaluation = one rule instance (a call site, aggregate site, switch arm, field, table cell or CFG path obligation) found in the MIR of the current tree; non-trivial = its verdict needed a dominance / slice / table / interpretation computation (anchor look-ups and floors are not counted); distinct = by (rule, instance key)",
            "samples": samples[:40],
            "obligations": len(self.instances),
            "discharged": len([i for i in self.instances if i.ok]),
            "explanation": explanation,
            "rules": per_rule,
            "analysed": {
                "mir_bodies": {"dropshot": len(self.ds.F), "dropshot_endpoint": len(self.ep.F)},
                "stolen_bodies": self.ds.stolen + self.ep.stolen,
                "tree_hash": self.extract_info["tree_hash"],
                "source_files_hashed": self.extract_info["source_files"],
                "repo": self.extract_info["repo"],
                "features": self.features or "default",
                "extracted_this_run": self.extract_info["extracted"],
            },
            "trusted_base": trusted_base or [],
            "checker_cmd": "./check %s --tier %s" % (self.prop, self.tier),
            "known_findings_listed": len(listed),
        }
        if extra_cov:
            cov.update(extra_cov)
        if self.notes:
            cov["notes"] = self.notes
        ev = {
            "property_id": self.prop,
            "tier": self.tier,
            "seed": int(os.environ.get("VERIF_SEED", "0") or 0),
            "level": level,
            "coverage": cov,
            "assumptions": self.assumptions,
            "wall_s": round(time.time() - self.t0, 2),
            "violations": len(new),
        }
        return ev, lines, len(new)


def load_known():
    """known_findings.json: {"findings":[{"property","key","what"}], "fixed":[...]}.
    Only `findings` suppress (by exact key); never written at run time."""
    p = os.path.join(VERIF, "known_findings.json")
    out = {}
    if os.path.exists(p):
        d = json.load(open(p))
        for f in d.get("findings", []):
            out.setdefault(f["property"], {})[f["key"]] = f["what"]
    return out


def evidence_dir():
    """Runs against a scratch copy (VERIF_REPO, used by the self-test and by mutant trials)
    must not overwrite the evidence of the real tree."""
    if os.environ.get("VERIF_REPO", "/repo") != "/repo":
        return os.path.join(VERIF, ".cache", "scratch-evidence", os.path.basename(os.environ["VERIF_REPO"].rstrip("/")))
    return os.path.join(VERIF, "evidence")


def write_evidence(prop, ev):
    p = os.path.join(evidence_dir(), prop + ".json")
    os.makedirs(os.path.dirname(p), exist_ok=True)
    tmp = p + ".tmp%d" % os.getpid()
    with open(tmp, "w") as f:
        json.dump(ev, f, indent=1, sort_keys=False)
    os.replace(tmp, p)
