"""Variant-aware value flow and path facts used by C14 / C15.

Three facilities, all over the MIR facts of one function (helpers extracted by a refactoring are already inlined by the engine):

* trace(fn, start, through)  — backward, *variant-sensitive* origin of a value.  Unlike Fn.slice it follows a projection path:
  `(x as Ok).0` of `x = Ok(v)` is v, of `x = Err(e)` is nothing; `(Try::branch(r) as Continue).0` is `(r as Ok).0`;
  `(r.map_err(f) as Ok).0` is `(r as Ok).0`; `r.map(Ctor)` is the aggregate Ctor((r as Ok).0).  So `x?`, `match x {Ok(v) => v,
  Err(e) => return Err(..)}`, `x.map_err(f)?`, let-else and let-bindings all give the same origins, and the error side of a
  Result never pollutes the origin of its Ok payload.
* Feas(fn) — path-sensitive reachability that knows which variant an enum local holds (after `x = Ok(..)`, after taking the
  Ok edge of `match x`, through moves / Try::branch / from_residual / map_err / map), so a guard written as
  `check(..)?` with `fn check(..) -> Result<(), E>` inlined is as good as the inline `if .. { return Err(..) }`.
* err_flow(fn, result_local) — forward: where does the Err payload of a Result go, through `?`, match, map_err, constructor
  calls, until it is returned (with the list of transformations applied) or consumed by something unknown.
"""
import re

from .lib import closure_of_operand, option_some_edges

TRY_BRANCH = re.compile(r"ops::Try::branch$")
FROM_RESIDUAL = re.compile(r"ops::FromResidual::from_residual$")
# Result/Option adaptors whose result has the same Ok/Some payload as their receiver
OK_PRESERVING = re.compile(r"^std::result::Result::<T, E>::(map_err|inspect_err|inspect)$|^std::option::Option::<T>::inspect$")
SOME_TO_OK = re.compile(r"^std::option::Option::<T>::(ok_or|ok_or_else)$")
# adaptors whose result has the same Err payload as their receiver
ERR_PRESERVING = re.compile(r"^std::result::Result::<T, E>::(map|inspect|inspect_err|and_then)$")
MAP_OK = re.compile(r"^std::result::Result::<T, E>::map$|^std::option::Option::<T>::map$")
MAP_ERR = re.compile(r"^std::result::Result::<T, E>::map_err$")
TRANSPOSE = re.compile(r"^std::option::Option::<std::result::Result<T, E>>::transpose$")


def nproj(p):
    """Normalised projection path: derefs dropped (a reference and its referent are the same value here)."""
    out = []
    for e in p:
        if e == "*":
            continue
        if isinstance(e, dict):
            if "dc" in e:
                out.append(("dc", e["dc"]))
            elif "f" in e:
                out.append(("f", e["f"], e.get("n")))
            elif "idx" in e:
                out.append(("idx",))
            elif "cidx" in e:
                # constant index of a slice pattern: `[.., x]` reads (1, from the end), `[x, ..]` (0, from the start)
                out.append(("cidx", (e["cidx"], bool(e.get("from_end")))))
            else:
                out.append(("?",))
        else:
            out.append(("?",))
    return tuple(out)


def proj_str(p):
    out = []
    for e in p:
        if e[0] == "dc":
            out.append("as %s" % e[1])
        elif e[0] == "f":
            out.append(".%s" % (e[2] if e[2] is not None else e[1]))
        elif e[0] == "cidx":
            out.append("[%s%d]" % ("len-" if e[1][1] else "", e[1][0]))
        else:
            out.append("[%s]" % e[0])
    return " ".join(out)


OK_0 = (("dc", "Ok"), ("f", 0, "0"))
SOME_0 = (("dc", "Some"), ("f", 0, "0"))
ERR_0 = (("dc", "Err"), ("f", 0, "0"))


def _same(p, q):
    """projection paths equal up to field names"""
    return len(p) == len(q) and all(a[:2] == b[:2] for a, b in zip(p, q))


def _starts(p, q):
    return len(p) >= len(q) and _same(p[:len(q)], q)


class Origin:
    """A terminal of a backward trace.  kind: call | param | const | fnitem | agg | rv | partial | resume | budget.
    proj: what is still projected out of the terminal's value (e.g. Ok.0 of a call result)."""
    __slots__ = ("kind", "bb", "node", "proj", "info")

    def __init__(self, kind, bb, node, proj, info=None):
        self.kind, self.bb, self.node, self.proj, self.info = kind, bb, node, tuple(proj), info or {}

    def is_call(self, rx, bb=None, proj=None):
        if self.kind != "call":
            return False
        t = self.node
        if not (re.search(rx, t.get("callee") or "") or (t.get("resolved") and re.search(rx, t["resolved"]))):
            return False
        if bb is not None and self.bb != bb:
            return False
        return proj is None or _same(self.proj, proj)

    def describe(self):
        if self.kind == "call":
            s = "%s(..)" % (self.node.get("callee") or "<indirect>")
        elif self.kind == "param":
            s = "parameter %d" % self.info["index"]
        elif self.kind == "const":
            s = "constant %s" % (self.info.get("path") or self.info.get("val"))
        elif self.kind == "fnitem":
            s = "fn item %s" % self.info["fn"]
        elif self.kind == "agg":
            s = "%s::%s{..}" % (self.info.get("adt") or self.info.get("agg"), self.info.get("variant"))
        elif self.kind == "rv":
            s = "computed (%s)" % self.info.get("rv")
        else:
            s = self.kind
        return s + ((" " + proj_str(self.proj)) if self.proj else "")

    __repr__ = describe


def _variant_ctor(facts, path):
    """`pagination::WhichPage::First` used as a function value -> (adt, variant)."""
    if not path or "::" not in path:
        return None
    adt, var = path.rsplit("::", 1)
    a = facts.adts.get(adt)
    if a and any(v["name"] == var for v in a["variants"]):
        return adt, var
    return None


class Steps(list):
    """(callee, bb) looked through by a trace; .locals = every local the value passed through."""
    locals = frozenset()


def _last_type_arg(ty):
    """The last top-level generic argument of `Path<A, B>` (None when there is none)."""
    i = ty.find("<")
    if i < 0 or not ty.endswith(">"):
        return None
    depth, cur, parts = 0, "", []
    for ch in ty[i + 1:-1]:
        if ch in "<([":
            depth += 1
        elif ch in ">)]":
            depth -= 1
        if ch == "," and depth == 0:
            parts.append(cur.strip())
            cur = ""
        else:
            cur += ch
    parts.append(cur.strip())
    return parts[-1] if parts else None


def _same_error_type(gargs):
    """gargs of `<Result<T, F> as FromResidual<Result<Infallible, E>>>::from_residual`: F == E."""
    if len(gargs) != 2 or not all(g.startswith("std::result::Result<") for g in gargs):
        return False
    a, b = _last_type_arg(gargs[0]), _last_type_arg(gargs[1])
    return a is not None and a == b


def trace(fn, start, through=(), max_nodes=4000, blocks=None):
    """Origins of the value `start` (operand dict, place dict or (local, proj)), looking through moves, references,
    aggregates (field- and variant-sensitively), `?`, Ok-preserving adaptors and the callees in `through`
    (value-preserving views of their first argument).  Returns (origins, steps) — steps are the (callee, bb) looked
    through, steps.locals the locals the value passed through (see mut_borrows).
    `blocks`: only definitions in these blocks count (e.g. blocks_through_edge: the origins a value can have on the
    paths that take one edge of a test — a definition that such a path cannot execute cannot be what is read)."""
    rxs = [re.compile(p) for p in through]
    origins, okeys, steps = [], set(), Steps()
    seen, work = set(), []
    defs = fn.defs()

    def add(kind, bb, node, proj, **info):
        key = (kind, bb, tuple(e[:2] for e in proj), info.get("index"), info.get("path"), info.get("fn"), info.get("at"))
        if key not in okeys:
            okeys.add(key)
            origins.append(Origin(kind, bb, node, proj, info))

    def push(l, p):
        work.append((l, tuple(p)))

    def follow_op(op, rest, bb, node):
        k = op.get("k")
        if k in ("copy", "move"):
            push(op["pl"]["l"], nproj(op["pl"]["p"]) + tuple(rest))
        elif k == "const":
            if op.get("fn"):
                add("fnitem", bb, node, rest, fn=op["fn"])
            else:
                add("const", bb, node, rest, path=op.get("path"), val=op.get("val"), ty=op.get("ty"))

    def follow_agg(rv, rest, bb, node):
        ops = rv["ops"]
        if rv.get("agg") == "adt" and rest and rest[0][0] == "dc":
            if rest[0][1] != rv.get("variant"):
                return                      # a different variant: this definition cannot be what is read
            rest = rest[1:]
        if rest and rest[0][0] == "f" and rest[0][1] < len(ops):
            follow_op(ops[rest[0][1]], rest[1:], bb, node)
            return
        add("agg", bb, node, rest, adt=rv.get("adt"), agg=rv.get("agg"), variant=rv.get("variant"), at=id(node),
            fields=[o for o in ops])

    if isinstance(start, tuple):
        push(start[0], start[1])
    elif "k" in start:
        follow_op(start, (), None, None)
    else:
        push(start["l"], nproj(start["p"]))
    while work:
        item = work.pop()
        if item in seen:
            continue
        seen.add(item)
        if len(seen) > max_nodes:
            add("budget", None, None, ())
            break
        l, p = item
        if 1 <= l <= fn.argc:
            add("param", None, None, p, index=l)
        for bb, kind, node in defs.get(l, []):
            if blocks is not None and bb not in blocks:
                continue
            if kind == "assign":
                wp = nproj(node["pl"]["p"])
                rest = p
                if wp:
                    if _starts(p, wp):
                        rest = p[len(wp):]
                    elif _starts(wp, p):
                        add("partial", bb, node, p)
                        continue
                    else:
                        continue
                rv = node["rv"]
                k = rv["rv"]
                if k in ("use", "copyderef"):
                    if k == "use":
                        follow_op(rv["op"], rest, bb, node)
                    else:
                        push(rv["pl"]["l"], nproj(rv["pl"]["p"]) + rest)
                elif k in ("ref", "rawptr"):
                    push(rv["pl"]["l"], nproj(rv["pl"]["p"]) + rest)
                elif k == "cast":
                    steps.append(("cast", bb))
                    follow_op(rv["op"], rest, bb, node)
                elif k == "agg":
                    follow_agg(rv, rest, bb, node)
                else:
                    add("rv", bb, node, rest, rv=k + (":" + str(rv.get("op")) if k in ("binop", "unop") else ""), at=id(node))
            elif kind == "call":
                callee = node.get("callee") or ""
                res = node.get("resolved") or ""
                args = node["args"]
                rest = nproj(node["dest"]["p"])
                if rest:
                    if not _starts(p, rest):
                        continue
                    rest = p[len(rest):]
                else:
                    rest = p
                if TRY_BRANCH.search(callee) and args:
                    is_opt = "option::Option" in (res or (fn.local_ty(args[0]["pl"]["l"]) if args[0].get("pl") else ""))
                    okp = SOME_0 if is_opt else OK_0
                    if _starts(rest, (("dc", "Continue"), ("f", 0, "0"))):
                        follow_op(args[0], okp + rest[2:], bb, node)
                        continue
                    if not is_opt and _starts(rest, (("dc", "Break"), ("f", 0, "0")) + ERR_0):
                        follow_op(args[0], ERR_0 + rest[4:], bb, node)
                        continue
                    add("call", bb, node, rest)
                    continue
                if FROM_RESIDUAL.search(callee):
                    if rest and rest[0][0] == "dc" and rest[0][1] in ("Ok", "Some"):
                        continue            # from_residual only ever builds the Err / None case
                    if args and _starts(rest, ERR_0) and _same_error_type(node.get("gargs") or []):
                        # `?` between two Results with the same error type: From::from is the identity, the payload is the residual's
                        follow_op(args[0], rest, bb, node)
                        continue
                    add("call", bb, node, rest)
                    continue
                if OK_PRESERVING.search(callee) and args and rest and rest[0][0] == "dc" and rest[0][1] in ("Ok", "Some"):
                    follow_op(args[0], rest, bb, node)
                    continue
                if SOME_TO_OK.search(callee) and args and _starts(rest, OK_0):
                    follow_op(args[0], SOME_0 + rest[2:], bb, node)
                    continue
                if TRANSPOSE.search(callee) and args and (_starts(rest, OK_0 + SOME_0) or _starts(rest, ERR_0)):
                    # Option<Result<T, E>>::transpose: Ok(Some(v)) <- Some(Ok(v)), Err(e) <- Some(Err(e))
                    follow_op(args[0], (SOME_0 + OK_0 + rest[4:]) if _starts(rest, OK_0) else (SOME_0 + rest), bb, node)
                    continue
                if MAP_OK.search(callee) and len(args) > 1 and rest and rest[0][0] == "dc" and rest[0][1] in ("Ok", "Some") \
                        and len(rest) >= 2 and rest[1][0] == "f":
                    ctor = _variant_ctor(fn.facts, args[1].get("fn")) if args[1].get("k") == "const" else None
                    if ctor:
                        # `r.map(Enum::Variant)`: the payload is the aggregate Variant((r as Ok).0)
                        inner = rest[2:]
                        src = {"k": "copy", "pl": {"l": args[0]["pl"]["l"], "p": args[0]["pl"]["p"] + [{"dc": rest[0][1], "v": 0}, {"f": 0, "n": "0"}]}} if args[0].get("pl") else None
                        if src is not None:
                            if inner and inner[0][0] == "dc":
                                if inner[0][1] != ctor[1]:
                                    continue
                                inner = inner[1:]
                            if inner and inner[0][0] == "f" and inner[0][1] == 0:
                                follow_op(src, inner[1:], bb, node)
                            else:
                                add("agg", bb, node, inner, adt=ctor[0], agg="adt", variant=ctor[1], at=id(node), fields=[src], via_map=True)
                            continue
                if args and any(r.search(callee) or (res and r.search(res)) for r in rxs) and args[0].get("k") in ("copy", "move"):
                    steps.append((callee, bb))
                    follow_op(args[0], rest, bb, node)
                    continue
                add("call", bb, node, rest)
            elif kind == "yield":
                add("resume", bb, node, p)
    steps.locals = frozenset(l for l, _p in seen)
    return origins, steps


def mut_borrows(fn, locals_):
    """Blocks that take `&mut` / a raw mutable pointer of one of the locals: the only way a value can change between its
    origin and its use without a MIR assignment that the trace would have seen."""
    out = []
    reach = fn.reachable(0)
    for bb, i, st in fn.stmts():
        rv = st["rv"]
        if bb in reach and rv["rv"] in ("ref", "rawptr") and rv.get("mut", rv["rv"] == "rawptr") and rv["pl"]["l"] in locals_:
            out.append(bb)
    return out


def describe(origins):
    return "{%s}" % ", ".join(sorted(o.describe() for o in origins)) if origins else "{nothing}"


def only_call(origins, rx, bb=None, proj=None):
    """The origins are exactly one call matching rx (at block bb, with remaining projection proj)."""
    return len(origins) == 1 and origins[0].is_call(rx, bb, proj)


def only_param(origins, index):
    return len(origins) == 1 and origins[0].kind == "param" and origins[0].info["index"] == index and not origins[0].proj


def ok_payload(fn, through=()):
    """Origins of the Ok payload the function returns (whatever builds the Result: `Ok(v)`, `Ok(x?)`, a moved Result,
    `r.map_err(f)`, a returned call)."""
    return trace(fn, (0, OK_0), through)


def ok_sites(fn):
    """Blocks where a Result that can be the function's Ok return value is built: `Ok(..)` aggregates (or calls returning
    the Result) reaching the return place, found by tracing `_0 as Ok`."""
    orig, _ = trace(fn, (0, (("dc", "Ok"),)))
    reach = fn.reachable(0)
    return sorted(set(o.bb for o in orig if o.bb is not None and o.bb in reach and o.kind in ("agg", "call")))


def option_cases(fn, start, through=(), blocks=None, _depth=0):
    """The cases an Option value can be, from its origins: ("some", (payload operand, extra projection), bb), ("none", None, bb)
    or ("other", origin, bb).  `Option<Result<T, E>>::transpose(x)?` is looked through: its Ok payload is None when x is
    None and Some((x as Some).0 as Ok .0) when x is Some — so `last().map(f).transpose()?`, `match last() { Some(i) =>
    Some(f(i)?), None => None }` and `last().map_or(Ok(None), |i| f(i).map(Some))?` have the same cases."""
    out = []
    for o in trace(fn, start, through, blocks=blocks)[0]:
        if o.kind == "agg" and o.info.get("adt") == "std::option::Option" and not o.proj and not o.info.get("via_map"):
            if o.info.get("variant") == "Some" and o.info["fields"]:
                out.append(("some", (o.info["fields"][0], ()), o.bb))
            else:
                out.append(("none", None, o.bb))
        elif o.is_call(TRANSPOSE.pattern, None, OK_0) and o.node["args"] and _depth < 3:
            for kind, pay, bb in option_cases(fn, o.node["args"][0], through, blocks, _depth + 1):
                out.append((kind, (pay[0], pay[1] + OK_0), bb) if kind == "some" else (kind, pay, bb))
        else:
            out.append(("other", o, o.bb))
    return out


def trace_payload(fn, payload, through=(), blocks=None):
    """Origins of a payload returned by option_cases."""
    op, extra = payload
    if op.get("k") in ("copy", "move"):
        return trace(fn, (op["pl"]["l"], nproj(op["pl"]["p"]) + tuple(extra)), through, blocks=blocks)[0]
    return trace(fn, op, through, blocks=blocks)[0] if not extra else []


def blocks_through_edge(fn, feas, src, dst):
    """Blocks that lie on some feasible path taking the edge src->dst: those from which src can be reached, and those that
    can execute after the edge."""
    return set(b for b in fn.reachable(0) if src in fn.reachable(b)) | feas.after_edge(src, dst)


# ------------------------------------------------------------------------------------------------ feasible paths
class Feas:
    """Reachability over paths that are consistent in the variant held by enum locals."""

    def __init__(self, fn, max_states=30000):
        self.fn = fn
        self.max_states = max_states
        fn.succ(0)
        self._sw = {}
        self._cache = {}
        # a local whose address is taken mutably can change variant behind our back (Option::take, mem::replace): no facts
        self._untracked = set(st["rv"]["pl"]["l"] for bb, i, st in fn.stmts()
                              if st["rv"]["rv"] in ("ref", "rawptr") and st["rv"].get("mut", st["rv"]["rv"] == "rawptr"))

    def _switch(self, bb):
        if bb not in self._sw:
            fn = self.fn
            info = fn.switch_on(bb)
            out = None
            if info.get("kind") == "discr" and not info["place"]["p"] and info.get("variants"):
                t = fn.blocks[bb]["term"]
                names = info["variants"]
                explicit = {v: b for v, b in t["targets"]}
                rest = [n for v, n in names.items() if v not in explicit]
                out = (info["place"]["l"], names, explicit, t["otherwise"], rest[0] if len(rest) == 1 else None)
            self._sw[bb] = out
        return self._sw[bb]

    def _transfer(self, bb, facts):
        fn = self.fn
        blk = fn.blocks[bb]
        for st in blk["st"]:
            if st["s"] != "assign":
                continue
            l = st["pl"]["l"]
            if st["pl"]["p"]:
                continue
            rv = st["rv"]
            new = None
            if rv["rv"] == "agg" and rv.get("agg") == "adt" and rv.get("variant") is not None:
                a = fn.facts.adts.get(rv["adt"])
                if rv["adt"] in ("std::result::Result", "std::option::Option", "std::ops::ControlFlow") or (a and a.get("kind") == "enum"):
                    new = rv["variant"]
            elif rv["rv"] == "use" and rv["op"].get("k") in ("copy", "move") and not rv["op"]["pl"]["p"]:
                new = facts.get(rv["op"]["pl"]["l"])
            if new is not None and l not in self._untracked:
                facts[l] = new
            else:
                facts.pop(l, None)
        t = blk["term"]
        if t["t"] == "call" and not t["dest"]["p"]:
            d = t["dest"]["l"]
            callee = t.get("callee") or ""
            a0 = t["args"][0] if t["args"] else None
            v0 = facts.get(a0["pl"]["l"]) if a0 and a0.get("k") in ("copy", "move") and not a0["pl"]["p"] else None
            new = None
            if TRY_BRANCH.search(callee):
                if v0 in ("Ok", "Some"):
                    new = "Continue"
                elif v0 in ("Err", "None"):
                    new = "Break"
            elif FROM_RESIDUAL.search(callee):
                ty = fn.local_ty(d)
                new = "Err" if ty.startswith("std::result::Result<") else ("None" if ty.startswith("std::option::Option<") else None)
            elif callee.endswith("::and_then"):
                new = v0 if v0 in ("Err", "None") else None
            elif MAP_ERR.search(callee) or ERR_PRESERVING.search(callee) or OK_PRESERVING.search(callee) or MAP_OK.search(callee):
                new = v0
            if new is not None and d not in self._untracked:
                facts[d] = new
            else:
                facts.pop(d, None)

    def _run(self, avoid_edges=(), via=None):
        key = (tuple(sorted(avoid_edges)), via)
        if key in self._cache:
            return self._cache[key]
        fn = self.fn
        avoid = set(avoid_edges)
        seen, visited, after = set(), set(), set()
        work = [(0, (), False)]
        n = 0
        ok = True
        while work:
            bb, ft, flag = work.pop()
            if (bb, ft, flag) in seen:
                continue
            seen.add((bb, ft, flag))
            n += 1
            if n > self.max_states:
                ok = False
                break
            visited.add(bb)
            if flag:
                after.add(bb)
            facts = dict(ft)
            self._transfer(bb, facts)
            succs = fn.succ(bb)
            sw = self._switch(bb) if fn.blocks[bb]["term"]["t"] == "switch" else None
            outs = []
            if sw:
                l, names, explicit, otherwise, rest_name = sw
                known = facts.get(l)
                for s in succs:
                    # which variant does this edge stand for?
                    vs = [names.get(v) for v, b in explicit.items() if b == s]
                    if s == otherwise:
                        vs.append(rest_name)
                    if known is not None and known in names.values():
                        if known not in vs:
                            continue
                        outs.append((s, facts))
                    else:
                        f2 = facts
                        if len(vs) == 1 and vs[0] is not None and l not in self._untracked:
                            f2 = dict(facts)
                            f2[l] = vs[0]
                        outs.append((s, f2))
            else:
                outs = [(s, facts) for s in succs]
            for s, f2 in outs:
                if (bb, s) in avoid:
                    continue
                work.append((s, tuple(sorted(f2.items())), flag or (via is not None and (bb, s) == via)))
        if not ok:
            # budget exceeded: plain CFG reachability (more is reachable: can only raise an alarm, never hide one)
            visited = fn.reachable(0, avoid_edges=avoid_edges)
            after = fn.reachable(via[1], avoid_edges=avoid_edges) if via and via[0] in visited else set()
        self._cache[key] = (visited, after)
        return self._cache[key]

    def reachable(self, avoid_edges=()):
        return self._run(avoid_edges)[0]

    def after_edge(self, src, dst):
        """Blocks that can execute after the edge src->dst was taken."""
        return self._run((), (src, dst))[1]

    def edge_dominates(self, src, dst, site):
        """Every feasible path from entry to `site` takes the edge src->dst."""
        return site not in self.reachable([(src, dst)])

    def must_pass_after(self, src, dst, sites):
        """Every feasible path that takes src->dst and then returns passes one of `sites`."""
        fn = self.fn
        sites = set(sites)
        # explore again, stopping at sites, and see whether a return is reached after the edge
        seen = set()
        work = [(0, (), False)]
        n = 0
        while work:
            bb, ft, flag = work.pop()
            if (bb, ft, flag) in seen:
                continue
            seen.add((bb, ft, flag))
            n += 1
            if n > self.max_states:
                after = fn.reachable(dst, avoid=sites)
                return not any(fn.blocks[b]["term"]["t"] == "return" for b in after)
            if flag and bb in sites:
                continue
            if flag and fn.blocks[bb]["term"]["t"] == "return":
                return False
            facts = dict(ft)
            self._transfer(bb, facts)
            succs = fn.succ(bb)
            sw = self._switch(bb) if fn.blocks[bb]["term"]["t"] == "switch" else None
            for s in succs:
                f2 = facts
                if sw:
                    l, names, explicit, otherwise, rest_name = sw
                    vs = [names.get(v) for v, b in explicit.items() if b == s]
                    if s == otherwise:
                        vs.append(rest_name)
                    known = facts.get(l)
                    if known is not None and known in names.values():
                        if known not in vs:
                            continue
                    elif len(vs) == 1 and vs[0] is not None and l not in self._untracked:
                        f2 = dict(facts)
                        f2[l] = vs[0]
                work.append((s, tuple(sorted(f2.items())), flag or (bb, s) == (src, dst)))
        return True


# ------------------------------------------------------------------------------------------------ forward error flow
def _reads(node_rv, l):
    """How an rvalue reads local l: list of (how, proj, extra)."""
    out = []
    k = node_rv["rv"]
    if k == "use" and node_rv["op"].get("k") in ("copy", "move") and node_rv["op"]["pl"]["l"] == l:
        out.append(("use", nproj(node_rv["op"]["pl"]["p"]), None))
    elif k in ("ref", "copyderef", "rawptr") and node_rv["pl"]["l"] == l:
        out.append(("use", nproj(node_rv["pl"]["p"]), None))
    elif k == "discr" and node_rv["pl"]["l"] == l:
        out.append(("discr", (), None))
    elif k == "agg":
        for i, o in enumerate(node_rv["ops"]):
            if o.get("k") in ("copy", "move") and o["pl"]["l"] == l:
                out.append(("agg", nproj(o["pl"]["p"]), i))
    if not out:
        out.append(("other", (), k))
    return out


class Ends(list):
    """Ends of an error flow; .results = the locals that held a Result whose Err payload is the followed error, in the order met."""
    results = ()


BREAK_0 = (("dc", "Break"), ("f", 0, "0"))
# aggregates an error may be wrapped in on its way out: (adt, variant) -> where the error must sit inside the wrapped operand
_WRAPS = {("std::result::Result", "Err"): (), ("std::ops::ControlFlow", "Break"): ERR_0, ("std::option::Option", "Some"): ERR_0}


def _prefix(p, pp):
    """p is a prefix of pp (up to field names): the rest of pp; None when p reads something else; "inside" when p reads
    into the error value itself."""
    if len(p) <= len(pp):
        return pp[len(p):] if _same(p, pp[:len(p)]) else None
    return "inside" if _same(p[:len(pp)], pp) else None


def err_flow(fn, result_local, max_nodes=400):
    """Forward flow of the Err payload E of the Result held in `result_local`.
    Returns Ends: dict(kind='returned'|'unknown', bb, transforms=[...], detail).  A transform is
    ("fn", path) for a function applied to E (map_err(path) or a direct call), ("closure", Fn) for map_err(closure),
    ("from",) for the `?` conversion.
    The state is (local, path): the error sits at `local.path` — ERR_0 in a Result, Break.0 + ERR_0 in the ControlFlow of a
    `?`, Some.0 + ERR_0 in an Option<Result> before transpose, () once it is extracted.  So `x?`, the threaded form
    `ControlFlow::Break(Err((x as Err).0))`, `Err(f((x as Err).0))` of a desugared map_err, `match x { Err(e) => return Err(f(e)) }`
    and `Some(x).transpose()?` are the same flow."""
    ends = Ends()
    results = []
    seen = set()
    work = [(result_local, ERR_0, (), None)]
    reach = fn.reachable(0)

    def end(kind, bb, tr, detail):
        ends.append({"kind": kind, "bb": bb, "transforms": list(tr), "detail": detail})

    while work:
        l, pp, tr, wbb = work.pop()
        key = (l, tuple(e[:2] for e in pp), tr)
        if key in seen:
            continue
        seen.add(key)
        if len(seen) > max_nodes:
            end("unknown", None, tr, "budget")
            break
        if _same(pp, ERR_0) and l not in results and fn.local_ty(l).startswith("std::result::Result<"):
            results.append(l)
        if l == 0:
            if _same(pp, ERR_0):
                end("returned", wbb, tr, "written to the return place")
            else:
                end("unknown", wbb, tr, "the error reaches the return place as %s, not as its Err payload" % (proj_str(pp) or "the whole value"))
            continue
        for bb, kind, node in fn.uses_of_local(l):
            if bb not in reach:
                continue
            if kind in ("switch", "drop"):
                continue
            if kind == "assign":
                dst, dp = node["pl"]["l"], node["pl"]["p"]
                for how, p, extra in _reads(node["rv"], l):
                    if how == "discr":
                        continue
                    if how == "other":
                        end("unknown", bb, tr, "used by %s" % extra)
                        continue
                    rest = _prefix(p, pp)
                    if rest is None:
                        continue                # another variant / another field: not the error
                    if rest == "inside" or dp:
                        end("unknown", bb, tr, "the error value is taken apart or written into part of a value")
                        continue
                    if how == "use":
                        work.append((dst, rest, tr, bb))
                    else:
                        rv = node["rv"]
                        want = _WRAPS.get((rv.get("adt"), rv.get("variant"))) if rv.get("agg") == "adt" else None
                        if want is not None and _same(rest, want):
                            work.append((dst, (("dc", rv["variant"]), ("f", 0, "0")) + rest, tr, bb))
                        else:
                            end("unknown", bb, tr, "error value stored in %s" % (("%s::%s" % (rv.get("adt"), rv.get("variant"))) if rv.get("adt") else rv.get("agg") or "a projection"))
            elif kind == "call":
                callee = node.get("callee") or "<indirect>"
                args = node["args"]
                dst = node["dest"]["l"]
                idx = [i for i, a in enumerate(args) if a.get("k") in ("copy", "move") and a["pl"]["l"] == l]
                rests = [_prefix(nproj(args[i]["pl"]["p"]), pp) for i in idx]
                idx = [i for i, r in zip(idx, rests) if r is not None]
                rests = [r for r in rests if r is not None]
                if not idx:
                    continue
                if len(idx) != 1 or rests[0] == "inside" or node["dest"]["p"]:
                    end("unknown", bb, tr, "passed (projected) to %s" % callee)
                    continue
                i, rest = idx[0], rests[0]
                if not rest:
                    # the error value itself is an argument
                    work.append((dst, (), tr + (("fn", callee),), bb))
                elif _same(rest, ERR_0):
                    if i == 0 and TRY_BRANCH.search(callee):
                        work.append((dst, BREAK_0 + ERR_0, tr, bb))
                    elif i == 0 and FROM_RESIDUAL.search(callee):
                        work.append((dst, ERR_0, tr + (("from",),), bb))
                    elif i == 0 and MAP_ERR.search(callee) and len(args) > 1:
                        f = args[1]
                        if f.get("k") == "const" and f.get("fn"):
                            m = ("fn", f["fn"])
                        else:
                            g, _n = closure_of_operand(fn, f)
                            m = ("closure", g.id) if g is not None else ("opaque", bb)
                        work.append((dst, ERR_0, tr + (m,), bb))
                    elif i == 0 and ERR_PRESERVING.search(callee):
                        work.append((dst, ERR_0, tr, bb))
                    elif i == 0 and re.search(r"Result::<T, E>::(is_ok|is_err|as_ref)$", callee):
                        if callee.endswith("as_ref"):
                            work.append((dst, ERR_0, tr, bb))
                    else:
                        end("unknown", bb, tr, "the Result is consumed by %s" % callee)
                elif _same(rest, SOME_0 + ERR_0) and i == 0 and TRANSPOSE.search(callee):
                    work.append((dst, ERR_0, tr, bb))
                else:
                    end("unknown", bb, tr, "a value holding the error (%s) is passed to %s" % (proj_str(rest), callee))
            else:
                end("unknown", bb, tr, "used by a %s" % kind)
    ends.results = tuple(results)
    return ends


# ------------------------------------------------------------------------------------------------ Option edges
def option_edges(fn):
    """(switch_bb, some_target, none_target, option_operand) for every test of an Option: match / if let / let-else
    on its discriminant, `is_some()` / `is_none()` (through let-bound flags and `!`)."""
    out = []
    for sbb, some_t, optop in option_some_edges(fn):
        others = [s for s in fn.succ(sbb) if s != some_t and fn.blocks[s]["term"]["t"] != "unreachable"]
        if some_t is None or len(others) != 1:
            continue
        out.append((sbb, some_t, others[0], optop))
    return out


def presence_tests(fn, feas, is_base, through=()):
    """Every test (switch_bb, some_target, none_target) of an Option that is Some exactly when a *base* Option is Some.
    is_base(origin) recognises the base value (e.g. the result of `map.get("page_token")`).  A test qualifies when every
    value its operand can hold (option_cases: looks through moves, `?`, `Option<Result>::transpose`) is
      * the base value itself, or
      * a `Some(..)` built only where an already qualified test has taken its Some edge, or
      * a `None` built only where an already qualified test has taken its None edge
    (fixpoint).  So `match m.get(k) { Some(t) => .., None => .. }` and the two-step `let sel = m.get(k).map(decode).transpose()?;
    match sel { Some(s) => .., None => .. }` (normalised view: the map is a switch on the lookup result that builds
    Some(decode(t)) / None) expose the same decision: the second test is a test of the presence of the key."""
    pending = list(option_edges(fn))
    tests = []

    def qualifies(optop):
        cases = option_cases(fn, optop, through)
        if not cases:
            return False
        for kind, pay, bb in cases:
            if kind == "other":
                if not is_base(pay):
                    return False
            elif bb is None:
                return False
            elif kind == "some":
                if not any(feas.edge_dominates(s, st, bb) for s, st, nt in tests):
                    return False
            elif not any(feas.edge_dominates(s, nt, bb) for s, st, nt in tests):
                return False
        return True
    progress = True
    while progress:
        progress = False
        for e in list(pending):
            sbb, st, nt, optop = e
            if qualifies(optop):
                tests.append((sbb, st, nt))
                pending.remove(e)
                progress = True
    return tests


# ------------------------------------------------------------------------------------------------ slice patterns
LAST_ELEM = (("cidx", (1, True)),)
SLICE_LEN = re.compile(r"^(core::slice::<impl \[T\]>::len|std::vec::Vec::<T, A>::len)$")


def indexed_reads(fn):
    """Reads of an element / a sub-slice by a projection (not by a call): [(bb, kind, detail)] with kind 'cidx' (detail =
    (offset, from_end): a slice pattern), 'idx' (a computed index) or 'subslice', over the reachable non-cleanup blocks."""
    out = []
    reach = fn.reachable(0)

    def walk(o, bb):
        if isinstance(o, dict):
            if "l" in o and "p" in o and isinstance(o["p"], list):
                for e in o["p"]:
                    if isinstance(e, dict) and "cidx" in e:
                        out.append((bb, "cidx", (e["cidx"], bool(e.get("from_end")))))
                    elif isinstance(e, dict) and "idx" in e:
                        out.append((bb, "idx", None))
                    elif e == "subslice":
                        out.append((bb, "subslice", None))
                return
            for v in o.values():
                walk(v, bb)
        elif isinstance(o, list):
            for v in o:
                walk(v, bb)
    for blk in fn.blocks:
        if blk["cleanup"] or blk["bb"] not in reach:
            continue
        walk(blk["st"], blk["bb"])
        walk(blk["term"], blk["bb"])
    return out


def emptiness_tests(fn, is_subject, through=()):
    """Bool switches that decide whether a slice / Vec is empty by comparing its length with a constant:
    [(switch_bb, nonempty_target, empty_target)].  The length is `PtrMetadata(s)` (what a slice pattern `[.., x]` tests),
    `Len`, or a call of len(); is_subject(origins of s) says whether s is the collection of interest.  `len >= 1`,
    `len > 0`, `len != 0`, `1 <= len`, `!(len < 1)`, `len == 0` .. are one predicate (engine.normalise_le)."""
    from .engine import comparison_of, normalise_le
    out = []
    reach = fn.reachable(0)
    for sbb, t in fn.switches():
        if sbb not in reach:
            continue
        c = comparison_of(fn, sbb)
        if not c:
            continue

        def length_of_subject(op):
            for o in trace(fn, op)[0]:
                src = None
                if o.kind == "rv" and o.info.get("rv") in ("unop:PtrMetadata", "len") and not o.proj:
                    rv = o.node["rv"]
                    src = rv.get("a") if rv["rv"] == "unop" else rv.get("pl")
                elif o.kind == "call" and not o.proj and SLICE_LEN.search(o.node.get("callee") or "") and o.node["args"]:
                    src = o.node["args"][0]
                if src is None or not is_subject(trace(fn, src, through)[0]):
                    return False
            return True

        def konst(op):
            vs = set()
            for o in trace(fn, op)[0]:
                v = (o.info.get("val") or {}).get("int") if o.kind == "const" and not o.proj else None
                if v is None:
                    return None
                vs.add(v)
            return vs.pop() if len(vs) == 1 else None
        verdicts = set()
        for rel, x, y, edge in normalise_le(c):
            other = "false" if edge == "true" else "true"
            kx, ky = konst(x), konst(y)
            if kx is not None and ky is None and length_of_subject(y):
                # K rel len
                if (rel == "le" and kx == 1) or (rel == "lt" and kx == 0) or (rel == "ne" and kx == 0):
                    verdicts.add((c[edge], c[other]))
                elif rel == "eq" and kx == 0:
                    verdicts.add((c[other], c[edge]))
            elif ky is not None and kx is None and length_of_subject(x):
                # len rel K
                if (rel == "le" and ky == 0) or (rel == "lt" and ky == 1) or (rel == "eq" and ky == 0):
                    verdicts.add((c[other], c[edge]))
                elif rel == "ne" and ky == 0:
                    verdicts.add((c[edge], c[other]))
        if len(verdicts) == 1:
            ne, em = verdicts.pop()
            out.append((sbb, ne, em))
    return out
