"""Thorough tier extras (second feature configuration, witnesses, self-test). Filled in incrementally."""


def run(prop, mod, ctx):
    return {}
