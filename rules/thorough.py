"""Thorough tier extras: second feature configuration, compile-fail witnesses (E5),
self-validation of the rules on mutants and benign variants (E6)."""
import os
import re
import shutil
import subprocess
import time

from . import core, extract, selftest

VERIF = extract.VERIF

WITNESSES = {
    "C13": ["W1", "W1b", "W2", "W3"],
    "C10": ["W2"],
    "C14": ["W4"],
    "C15": ["W4"],
    "C11": ["W5"],
    "C05": ["W6"],
    "C02": ["W6"],
    "C20": ["W7"],
}
# properties whose anchors are compiled differently under the usdt-probes feature
FEATURE_SENSITIVE = {"C09", "C10", "C13", "C16", "C17", "C18"}


def run_witnesses(prop):
    names = WITNESSES.get(prop)
    if not names:
        return None
    wdir = os.path.join(VERIF, "witness")
    repo = extract.repo_root()
    shutil.copy(os.path.join(repo, "Cargo.lock"), os.path.join(wdir, "Cargo.lock"))
    env = dict(os.environ, CARGO_NET_OFFLINE="true", CARGO_TARGET_DIR=os.path.join(VERIF, ".cache", "witness-target"))
    t0 = time.time()
    r = subprocess.run(["cargo", "+nightly", "test", "--doc", "--offline"], cwd=wdir, env=env, stdout=subprocess.PIPE, stderr=subprocess.STDOUT, text=True)
    res = []
    for m in re.finditer(r"^test src/lib\.rs - (\w+) \(line (\d+)\)( - compile fail)? \.\.\. (\w+)", r.stdout, re.M):
        res.append({"witness": m.group(1), "kind": "compile_fail" if m.group(3) else "compiling twin", "result": m.group(4)})
    mine = [x for x in res if x["witness"] in names]
    return {"cmd": "cargo +nightly test --doc --offline (in /verif/witness, path dependency on /repo/dropshot)", "wall_s": round(time.time() - t0, 1),
            "results": mine, "all_ran": len(res), "raw_tail": r.stdout[-600:] if not mine or any(x["result"] != "ok" for x in mine) else ""}


def run(prop, mod, ctx):
    extra = {"_violations": 0, "_lines": []}
    # 1. second feature configuration
    if prop in FEATURE_SENSITIVE:
        from .main import run_property
        try:
            _, ctx2 = run_property(prop, "thorough", "usdt-probes")
            ev2, lines2, n2 = ctx2.finish(level=getattr(mod, "LEVEL", "other"), explanation=mod.EXPLANATION)
            extra["feature_config_usdt_probes"] = {"evaluations": ev2["coverage"]["evaluations"], "violated": ev2["coverage"]["evaluations"] - ev2["coverage"]["discharged"],
                                                   "mir_bodies": ev2["coverage"]["analysed"]["mir_bodies"]}
            extra["_violations"] += n2
            extra["_lines"] += [l.replace("VIOLATION property=%s" % prop, "VIOLATION property=%s" % prop) + (" [features=usdt-probes]" if l.startswith("VIOLATION") else "") for l in lines2]
        except extract.ExtractionError as e:
            extra["feature_config_usdt_probes"] = {"error": str(e)[-300:]}
            extra["_violations"] += 1
            extra["_lines"].append("VIOLATION property=%s replay=/verif/evidence/violations/%s.features.json" % (prop, prop))
            extra["_lines"].append("  the usdt-probes configuration of the current tree could not be analysed")
    # 2. witnesses
    w = run_witnesses(prop)
    if w is not None:
        extra["witnesses"] = w
        bad = [x for x in w["results"] if x["result"] != "ok"]
        if bad or not w["results"]:
            extra["_violations"] += 1
            extra["_lines"].append("VIOLATION property=%s replay=/verif/witness/src/lib.rs" % prop)
            extra["_lines"].append("  compile-fail witness(es) no longer hold: %s %s" % ([(b["witness"], b["kind"]) for b in bad] or "none ran", w.get("raw_tail", "")[-300:]))
    # 3. self-validation (never a property violation: it validates the checker, reported in evidence)
    st = selftest.run(prop, mod)
    if st:
        extra["selftest"] = {
            "rule": "mutants must be reported by one of the expected rules; benign variants must raise no violation; applied to a scratch copy of /repo under /tmp",
            "variants": st,
            "mutants_caught": len([x for x in st if x["status"] == "caught"]),
            "mutants_missed": [x["name"] for x in st if x["status"] == "MISSED"],
            "benign_silent": len([x for x in st if x["status"] == "silent"]),
            "false_alarms": [x["name"] for x in st if x["status"] == "FALSE-ALARM"],
            "skipped": [x["name"] for x in st if x["status"] in ("skipped", "does-not-compile")],
        }
    return extra
