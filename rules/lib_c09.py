"""Helpers of rules/c09.py.

`stream_emissions` answers "where does a hand-written stream hand an item to its consumer, and where does the state it
reads live" for the two ways the crate can spell a fallible stream (a candidate for lib.py: c11.py asks the same
question about the error items):

* generator  — `async_stream::try_stream! { .. yield x; .. }`: the generator closure calls `yielder::Sender::send(Ok(x))`;
               its state are the variables it captured from the enclosing function.
* unfold     — `futures::stream::try_unfold(init, |state| async move { .. return Ok(Some((x, next))); .. Ok(None) })`: the
               step coroutine returns `Ok(Some((x, next)))`; its state is the step closure's parameter, which is `init`
               on the first step and `next` afterwards.
"""
from .lib import closure_args_of_call, operand_local
from .lib_c10 import upvar_fields, upvar_origin

SEND = r"yielder::Sender::<T>::send$"
UNFOLD = r"stream::(try_unfold|unfold)$|stream::try_unfold::try_unfold$|stream::unfold::unfold$"


def _single_agg(fn, op, kind=None, adt=None, variant=None):
    """The aggregate statement that is the only definition of the local `op` moves (through plain moves), or None."""
    for _ in range(6):
        l = operand_local(op)
        if l is None or op["pl"]["p"]:
            return None
        dd = [d for d in fn.defs().get(l, []) if not fn.blocks[d[0]]["cleanup"]]
        if len(dd) != 1 or dd[0][1] != "assign" or dd[0][2]["pl"]["p"]:
            return None
        rv = dd[0][2]["rv"]
        if rv["rv"] == "use" and rv["op"].get("k") in ("copy", "move"):
            op = rv["op"]
            continue
        if rv["rv"] != "agg":
            return None
        if kind is not None and rv.get("agg") != kind:
            return None
        if adt is not None and rv.get("adt") != adt:
            return None
        if variant is not None and rv.get("variant") != variant:
            return None
        return dd[0][2]
    return None


def stream_emissions(ds, host, field=None):
    """How `host` (a function returning a hand-written stream) emits data items.

    Returns None if neither idiom is found, else {"form": "generator" | "unfold", "body": Fn that holds the emission
    sites, "items": [(bb, operand of the emitted Ok item)], "state_origin": f(slice in body) -> (ok, text)} where
    state_origin decides whether everything the slice reads from the stream's state was taken, unmodified, from `host`'s
    own first parameter (`self`; its field `field` if given), and — unfold idiom — that the state handed to the next step keeps that part."""
    from .lib import callee_allow
    plumbing = [r"ops::Deref::deref$", r"ops::DerefMut::deref_mut$", r"convert::Into::into$", r"convert::From::from$", r"pin::Pin::<Ptr>::new_unchecked$",
                r"Pin::<Ptr>::as_mut$", r"future::IntoFuture::into_future$"]
    gens = [g for g in ds.children(host) if g.live_calls(SEND)]
    if len(gens) == 1:
        g = gens[0]
        items = []
        for bb, t in g.live_calls(SEND):
            st = _single_agg(g, t["args"][1], "adt", "std::result::Result", "Ok")
            if st is not None:
                items.append((bb, st["rv"]["ops"][0]))

        def origin(sl, g=g):
            fl = upvar_fields(sl)
            oks = []
            for k in fl:
                p, ps = upvar_origin(ds, g, k)
                oks.append(ps is not None and ps.params() == [1] and not callee_allow(ps, plumbing) and (field is None or ps.reads_field(field) or sl.reads_field(field)))
            return bool(fl) and all(oks), "generator captures reached %s, each taken from self%s: %s" % (sorted(fl), ("." + field) if field else "", oks)
        return {"form": "generator", "body": g, "items": items, "state_origin": origin}
    calls = host.live_calls(UNFOLD)
    if len(calls) != 1:
        return None
    ubb, ut = calls[0]
    steps = closure_args_of_call(host, ut)
    if len(steps) != 1 or len(ut["args"]) != 2:
        return None
    step = steps[0][0]
    init = host.slice(ut["args"][0])
    init_ok = init.params() == [1] and not callee_allow(init, plumbing)
    # the step's body: the closure itself, or the `async move` block it returns
    bodies = [step] + ds.descendants(step)
    found = []
    for g in bodies:
        for b, i, st in g.aggregates(r"^std::result::Result$", "Ok"):
            if b not in g.reachable(0) or st["pl"] != {"l": 0, "p": []}:
                continue
            some = _single_agg(g, st["rv"]["ops"][0], "adt", "std::option::Option", "Some")
            if some is None:
                continue
            pair = _single_agg(g, some["rv"]["ops"][0], "tuple")
            if pair is None or len(pair["rv"]["ops"]) != 2:
                continue
            found.append((g, b, pair["rv"]["ops"][0], pair["rv"]["ops"][1]))
    if not found or len(set(id(g) for g, _, _, _ in found)) != 1:
        return None
    g = found[0][0]

    def state_fields(sl):
        """(ok, fields of the step's state parameter the slice reads) — through the coroutine's captures when the body is
        an async block."""
        if g is step:
            return (set(sl.params()) <= {2}, set(proj[0] for p, proj in sl.param_fields() if p == 2 and proj))
        flds, ok = set(), True
        for k in upvar_fields(sl):
            p, ps = upvar_origin(ds, g, k)
            if p is not step or ps is None or ps.params() != [2] or callee_allow(ps, plumbing):
                ok = False
                continue
            flds |= set(proj[0] for q, proj in ps.param_fields() if q == 2 and proj)
        return ok, flds    # (a coroutine's own parameters are its environment and the task context)

    def origin(sl):
        ok, flds = state_fields(sl)
        # the part of the state the item was read from is carried over to the next step unchanged
        kept = bool(flds)
        for _g, _b, _item, nxt in found:
            pair = _single_agg(g, nxt, "tuple")
            ops = pair["rv"]["ops"] if pair is not None else [nxt]
            carried = set()
            for o in ops:
                s2 = g.slice(o)
                ok2, f2 = state_fields(s2)
                if ok2 and not callee_allow(s2, plumbing) and not [a for a in s2.atoms if a[0] in ("binop", "unop", "lit", "const")]:
                    carried |= f2
            kept = kept and flds <= carried
        rf = field is None or sl.reads_field(field)
        return ok and kept and init_ok and rf, "unfold state fields read %s%s; first state is self unmodified: %s; carried to the next step unchanged: %s" % (
            sorted(flds), (" (its `%s` field: %s)" % (field, rf)) if field else "", init_ok, kept)
    return {"form": "unfold", "body": g, "items": [(b, item) for _g, b, item, _n in found], "state_origin": origin}


# --------------------------------------------------------------------------- callables handed to a (generic) helper
# `helper::<T>(|v| visit(v))`: the helper is inlined into its caller, but the closure written inside the helper stays
# one shared (generic) body that receives the caller's closure as a captured variable and invokes it through a
# combinator (`r.and_then(visit)`) or directly (`visit(v)`).  These two functions answer "which closure does this
# operand denote" and "which value does this function hand to that closure" (candidates for lib.py).
HANDS_OK_PAYLOAD = r"(Result::<T, E>|Option::<T>)::(and_then|map)$"
INVOKES = r"ops::FnOnce::call_once$|ops::FnMut::call_mut$|ops::Fn::call$"


def closure_sites(scope, g):
    """[(parent Fn, aggregate statement)] — live sites among the functions `scope` that build closure g."""
    out = []
    for par in scope:
        live = par.reachable(0)
        for b, i, st in par.stmts():
            rv = st["rv"]
            if rv["rv"] == "agg" and rv.get("def") == g.raw["id"] and b in live:
                out.append((par, st))
    return out


def closure_denoted(scope, fn, op, depth=0):
    """The closure Fn that operand `op` of fn holds, or None: through plain moves of single-definition locals, and —
    when fn is itself a closure and op is one of its captured variables — through the operand captured at fn's
    (single) aggregate site in one of the functions `scope`."""
    if depth > 8 or op.get("k") not in ("copy", "move"):
        return None
    l, proj = op["pl"]["l"], op["pl"]["p"]
    if l == 1 and fn.raw["kind"] == "Closure" and len(proj) == 1 and isinstance(proj[0], dict) and "f" in proj[0]:
        sites = closure_sites(scope, fn)
        if len(sites) != 1 or proj[0]["f"] >= len(sites[0][1]["rv"]["ops"]):
            return None
        return closure_denoted(scope, sites[0][0], sites[0][1]["rv"]["ops"][proj[0]["f"]], depth + 1)
    if proj:
        return None
    live = fn.reachable(0)
    dd = [d for d in fn.defs().get(l, []) if d[0] in live and not fn.blocks[d[0]]["cleanup"]]
    if len(dd) != 1 or dd[0][1] != "assign" or dd[0][2]["pl"]["p"]:
        return None
    rv = dd[0][2]["rv"]
    if rv["rv"] == "use":
        return closure_denoted(scope, fn, rv["op"], depth + 1)
    if rv["rv"] == "agg" and rv.get("agg") == "closure":
        return fn.facts.F.get(rv.get("def"))
    return None


def handoffs(scope, g, callable_fn):
    """Live calls of g that hand a value to the closure `callable_fn` (held in a local or in a captured variable of g):
    [(bb, term, operands the closure's argument comes from)] — `r.and_then(f)` / `r.map(f)` hand the Ok/Some payload
    of r (lib_c10.ok_sources), `f(v)` hands v.  A call that passes the closure to anything else is returned with None
    instead of the operands: the caller cannot tell what the closure is given."""
    from .lib_c10 import ok_sources
    import re
    out = []
    for bb, t in g.live_calls():
        for ai, a in enumerate(t["args"]):
            if closure_denoted(scope, g, a) is not callable_fn:
                continue
            c = t.get("callee") or ""
            if re.search(HANDS_OK_PAYLOAD, c) and ai == 1 and operand_local(t["args"][0]) is not None and not t["args"][0]["pl"]["p"]:
                out.append((bb, t, ok_sources(g, operand_local(t["args"][0]))))
            elif re.search(INVOKES, c) and ai == 0 and len(t["args"]) == 2:
                tup = _single_agg(g, t["args"][1], "tuple")
                out.append((bb, t, [tup["rv"]["ops"][0]] if tup is not None and len(tup["rv"]["ops"]) == 1 else None))
            else:
                out.append((bb, t, None))
    return out


def precise_operands(fn, op, transparent=()):
    """The values an operand may hold, as operands to slice: lib_c01.sources follows multi-definition locals and enum
    wrappers built in fn variant-precisely (the Ok payload of `helper().await?` spliced from an async helper is the
    helper's `Ok(Some(data))`, never its sibling `Err(ctor(..))`), so a flow-insensitive slice started at each answer
    does not pick up the other variants' construction.  Each source is returned as the whole local at its root (a call
    result / a parameter / a local the walk stops at); anything else (a constant, an aggregate) gives the operand back."""
    from .lib_c01 import sources
    out = []
    for p in sources(fn, op, transparent=transparent):
        if p.root[0] in ("call", "param", "local"):
            o = {"k": "copy", "pl": {"l": p.root[1], "p": []}}
        else:
            return [op]
        if o not in out:
            out.append(o)
    return out or [op]
