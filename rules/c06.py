"""C06 — the OpenAPI document for version v lists exactly what is served at v."""
import json
import re

from .lib import PLUMBING, callee_allow, closure_args_of_call, lit_strs, operand_local, switches_on_value
from .lib_c08 import Flow, Origins, _rv_operands, map_stores, mutators, field_reads, field_writes, gen_role, root_of

# the one schemars generator of a document: `SchemaGenerator::new(settings)` or `settings.into_generator()` (the same constructor)
GEN_CTOR = r"^schemars::(gen::)?SchemaGenerator::new$|^schemars::(gen::)?SchemaSettings::into_generator$"

LEVEL = "other"
TECHNIQUE = ("static analysis: source/sink flow (projection-carrying, mutation-aware slices) and per-iteration edge dominance on gen_openapi's MIR, role-anchored consumers of "
             "router.endpoints (adaptor chain or loop), sibling agreement between the document iterator and the router, decision-table extraction (method -> PathItem slot), "
             "who-reads census of `visible`, hash-order census with must-pass sort, effect check")
LEVEL_TEXT = ("Decides on all paths of gen_openapi and of the router iterator: (R1) both scans use router.endpoints(Some(version)) with gen_openapi's own version, which json()/write() "
              "take from OpenApiDefinition.version set once from openapi()'s argument, and the iterator filters with the same ApiEndpointVersions::matches(handler.versions, version) "
              "the router uses (as a branch in a filter_map, `bool::then`, or the predicate of `filter`); (R2) every consumer of router.endpoints(..) sees only endpoints whose `visible` is true — "
              "the iterator is filtered on the element's `visible` (polarity checked) or a `for` loop tests it before any write to state that outlives the iteration — and the router/server "
              "never read `visible`; (R3) the operation goes to paths[iterator path], into the PathItem slot named like the method (8-row table, identity, covers every method the "
              "macro can emit), carries the endpoint's operation_id and is stored on every non-panicking path; (R4) every Static schema's dependencies are added to `definitions`, every "
              "Gen schema uses the one generator, both are flushed into components.schemas, error responses are stored under the name their reference was formatted from; (R4b) the dependencies of a Static schema are closed under $ref "
              "(ReferenceVisitor records and recursively visits every referenced definition; every Static is built from such a visit of the stored schema or is a $ref-free constant); "
              "(R5) hash-ordered iteration reaches only openapi.tags, which is sorted by a total key before return; no clock/random/env callee; (R6) gen_openapi is a pure function of "
              "&self; (R7) the router's containers and the document's maps are ordered. Not decided: that HttpRouterIter::next visits every trie node exactly once (loop-carried stack), "
              "the literal text of the `#/components/responses/` prefix (format templates are opaque to the extractor), uniqueness of generated schema names inside schemars.")
LEVEL_NOTE = ("Trusts rustc MIR, the extractor, std/indexmap/schemars container semantics (BTreeMap iterates in key order, IndexMap in insertion order, schemars definitions are a BTreeMap), "
              "C05 (matches is exact) and C01/C02 (at most one handler per method and version).")
EXPLANATION = ("SAME-SOURCE / SIBLINGS-AGREE over the version argument from openapi() to the iterator's filter closure; every consumer of router.endpoints is classified by role "
               "(the loop whose items become `paths` keys, the tag scan) and by idiom (filter adaptor with polarity, per-iteration DOM guard); loops, for_each closures, insert / entry().or_insert* "
               "and stores through borrowed slots are treated alike via mutation-aware slices; WHO-READS census of ApiEndpoint.visible; TABLE for method slots cross-checked with the macro crate's MethodType::as_str; "
               "per-arm must-pass for definitions.extend; CENSUS of hash-ordered iteration with backward-slice containment in openapi.tags and must-pass sort; effect and shape facts.")
TRUSTED = ["rustc nightly MIR", "mirfacts extractor", "rules/engine.py, rules/lib_c08.py", "BTreeMap / IndexMap / HashMap iteration-order contracts", "schemars SchemaGenerator (definitions in a BTreeMap)",
           "C05 ApiEndpointVersions::matches", "C01/C02 one handler per (path, method, version)"]

GEN = r"^api_description::ApiDescription::<Context>::gen_openapi$"
ASG = "api_description::ApiSchemaGenerator"
EP = "api_description::ApiEndpoint"
MATCHES = r"^api_description::ApiEndpointVersions::matches$"
ENDPOINTS = r"^router::HttpRouter::<Context>::endpoints$"

# who may read ApiEndpoint.visible (one reason per line)
VISIBLE_READERS = {
    "api_description::ApiDescription::<Context>::gen_openapi": "the documentation filter itself",
    "api_description::ApiDescription::<Context>::validate_tags": "tag policy applies only to documented endpoints (registration time, never routing)",
    "<api_description::ApiEndpoint<Context> as std::fmt::Debug>::fmt": "derived Debug",
}
# non-Freeze / mutable statics of the crate (one reason per line)
STATICS_ALLOWED = {"test_util::TEST_SUITE_LOGGER_ID": "test helper counter; module test_util is not reachable from gen_openapi"}
NONDET = r"(^|::)(time::|SystemTime|Instant|rand::|rand_|uuid::|env::(var|vars|args)|thread::current|process::id|getrandom|RandomState::new)"
HASHY = r"(HashMap|HashSet|hash_map|hash_set)"
HASH_ITER = r"::(iter|iter_mut|into_iter|keys|values|values_mut|into_keys|into_values|drain|difference|symmetric_difference|intersection|union|extract_if)$"
INTERIOR = r"(Cell<|RefCell|Mutex|RwLock|Atomic|OnceLock|OnceCell|LazyLock|LazyCell|UnsafeCell)"


def _sfx(f):
    return f.id.split("gen_openapi")[-1].lstrip(":") or "gen_openapi"


_role = gen_role


class _Model:
    def __init__(self, ctx, R):
        ds = ctx.ds
        self.ds = ds
        self.gen = ctx.need_fn(ds, R, GEN)
        g = self.gen
        self.region = [g] + ds.descendants(g)
        self.flow = Flow(ds, entries=[g.raw["id"]], precise=True)
        self.tw = self.flow.tw
        vs = [i for i in range(1, g.argc + 1) if "semver::Version" in g.local_ty(i)]
        self.vparam = vs[0] if len(vs) == 1 else None
        # the document being built = the local returned
        ret = g.slice({"l": 0, "p": []})
        cands = [l for l in ret.locals() if g.local_ty(l) == "openapiv3::OpenAPI" and g.local_name(l)]
        self.doc = cands[0] if len(cands) == 1 else None
        self.pflow = Flow(ds, entries=[g.raw["id"]], precise=True)     # projection-carrying, mutation-aware (accumulators filled in loops)
        # the operation loop, by role: the loop whose item is the key of `openapi.paths.paths.entry(..)` and whose
        # iterator comes from router.endpoints(..) (directly or through adaptors such as `.filter(..)`)
        self.path_entries = []
        nx = {}
        if self.doc is not None:
            for bb, t in g.live_calls(r"indexmap::IndexMap::<K, V, S>::entry$"):
                o = self.flow.origins(g, t["args"][0])
                if ("openapiv3::Paths", "paths") in o.fields and (g.id, self.doc) in o.locals:
                    self.path_entries.append((bb, t))
                    for c, nbb, nt in g.slice(t["args"][1]).calls(r"iter::Iterator::next$"):
                        if any(re.search(ENDPOINTS, c2) for c2 in self.flow.origins(g, nt["args"][0]).calls):
                            nx[nbb] = nt
        self.next = list(nx.items())[0] if len(nx) == 1 else None

    def item_comp(self, f, op, item_local):
        """Tuple components k such that op is computed from (item as Some).0.k"""
        out = set()
        import json
        for p in f.slice(op).places:
            pl = json.loads(p)
            if pl["l"] != item_local:
                continue
            fs = [e["f"] for e in pl["p"] if isinstance(e, dict) and "f" in e]
            if len(fs) >= 2 and fs[0] == 0:
                out.add(fs[1])
        return out

    def loop_body(self):
        g = self.gen
        nbb = self.next[0]
        fwd = g.reachable(nbb)
        return set(b for b in fwd if nbb in g.reachable(b) and not g.blocks[b]["cleanup"])


_cache = {}


def _model(ctx, R):
    k = id(ctx)
    if k not in _cache:
        _cache.clear()
        _cache[k] = _Model(ctx, R)
    return _cache[k]


def _plumbing_only(o):
    rxs = [re.compile(p) for p in PLUMBING]
    return [c for c in o.calls if not any(r.search(c) for r in rxs)]


def _consumer(f, dest_local):
    """The first call that takes the value (through moves) as an argument."""
    locs = {dest_local}
    changed = True
    while changed:
        changed = False
        for bb, i, st in f.stmts():
            if st["pl"]["p"] or st["pl"]["l"] in locs:
                continue
            rv = st["rv"]
            if rv["rv"] == "use" and operand_local(rv["op"]) in locs:
                locs.add(st["pl"]["l"])
                changed = True
            elif rv["rv"] == "ref" and rv["pl"]["l"] in locs and all(e == "*" for e in rv["pl"]["p"]):
                locs.add(st["pl"]["l"])
                changed = True
    for bb, t in f.live_calls():
        if any(operand_local(a) in locs for a in t["args"]):
            return bb, t
    return None, None


def _between(f, op, stop=r"iter::Iterator::next$"):
    """Callees applied between a loop item and `op`, other than value-preserving plumbing."""
    sl = f.slice(op, stop_at_calls=stop)
    return [c for c, bb in callee_allow(sl, PLUMBING + [stop])]


# --------------------------------------------------------------------------- R1
def r1_same_filter(ctx):
    R = ctx.rule("C06.R1", "the document is assembled from router.endpoints(Some(version)) with the version given to openapi(); the iterator keeps a handler iff "
                 "ApiEndpointVersions::matches(handler.versions, that version) — the predicate the router uses", floor=20)
    m = _model(ctx, R)
    ds, g = m.ds, m.gen
    if m.vparam is None:
        ctx.lost(R, "gen_openapi's &semver::Version parameter")
        return
    sites = [(u["f"], u["bb"], u["t"], _use_role(m, u)) for u in _endpoint_uses(m)]
    for f, bb, t, role in sites:
        if len(t["args"]) < 2:
            ctx.check(R, "endpoints-arg:%s" % role, False, "router.endpoints called without a version argument", (f, bb))
            continue
        o = m.flow.origins(f, t["args"][1])
        some = ("std::option::Option", "Some") in o.aggs
        none = ("std::option::Option", "None") in o.aggs
        bad = _plumbing_only(o)
        ok = some and not none and o.roots == {(g.id, m.vparam)} and not bad
        ctx.check(R, "endpoints-arg:%s" % role, ok,
                  "router.endpoints(..) (%s) is given Some(gen_openapi's version parameter): Some=%s None-possible=%s origin=%s other callees=%s" % (role, some, none, sorted(o.roots), bad), (f, bb))
    ctx.check(R, "endpoints-sites", len(sites) >= 2, "router.endpoints call sites in gen_openapi: %d" % len(sites), g, nontrivial=False)
    # callers of gen_openapi pass the stored version
    cs = [(f, bb, t) for f, bb, t in ds.callers_of(GEN) if bb in f.reachable(0)]
    for f, bb, t in cs:
        fl = Flow(ds, entries=[f.raw["id"]])
        if len(t["args"]) < 3:
            ctx.check(R, "gen-version-arg:%s" % f.id.split("::")[-1], False, "gen_openapi is called without a version argument", (f, bb))
            continue
        o = fl.origins(f, t["args"][2])
        ok = ("api_description::OpenApiDefinition", "version") in o.fields and o.roots == {(f.id, 1)} and not _plumbing_only(o)
        ctx.check(R, "gen-version-arg:%s" % f.id.split("::")[-1], ok, "gen_openapi's version argument is &self.version of the OpenApiDefinition: %s (origins %s)" % (ok, sorted(o.fields)), (f, bb))
    ctx.check(R, "gen-callers", len(cs) >= 2, "callers of gen_openapi: %d" % len(cs), g, nontrivial=False)
    # OpenApiDefinition.version is set once, from openapi()'s argument
    aggs = []
    writes = []
    for f in ds.F.values():
        if "api_description" not in f.id:
            continue
        for bb, i, st in f.aggregates(r"^api_description::OpenApiDefinition$"):
            aggs.append((f, bb, st))
        for adt, var, field, kind, bb, ops in field_writes(f, m.tw, lambda a: a == "api_description::OpenApiDefinition"):
            if field == "version" and kind != "agg":
                writes.append((f, bb))
    ctx.check(R, "definition-version-never-rewritten", not writes, "writes to OpenApiDefinition.version other than its construction: %s" % [(f.id, bb) for f, bb in writes], g)
    for f, bb, st in aggs:
        fl = Flow(ds, entries=[f.raw["id"]])
        k = (st["rv"].get("fields") or []).index("version")
        o = fl.origins(f, st["rv"]["ops"][k])
        vp = [i for i in range(1, f.argc + 1) if "semver::Version" in f.local_ty(i)]
        ok = len(vp) == 1 and o.roots == {(f.id, vp[0])} and not _plumbing_only(o)
        ctx.check(R, "definition-version-from-arg:%s" % f.id.split("::")[-1], ok, "OpenApiDefinition.version is the constructor's version parameter: %s" % ok, (f, bb))
        for h, hbb, ht in ds.callers_of("^" + re.escape(f.raw["id"]) + "$"):
            fl2 = Flow(ds, entries=[h.raw["id"]])
            vp2 = [i for i in range(1, h.argc + 1) if "semver::Version" in h.local_ty(i)]
            o2 = fl2.origins(h, ht["args"][vp[0] - 1]) if vp else Origins()
            ok2 = len(vp2) == 1 and o2.roots == {(h.id, vp2[0])} and not _plumbing_only(o2)
            ctx.check(R, "definition-version-from-arg:%s" % h.id.split("::")[-1], ok2, "%s passes its own version argument to the constructor: %s" % (h.id, ok2), (h, hbb))
    ctx.check(R, "definition-built-once", len(aggs) == 1, "construction sites of OpenApiDefinition: %d" % len(aggs), g, nontrivial=False)
    # router side: CHAIN from endpoints()'s version parameter to every iter_handlers_from_node call
    ep = ctx.need_fn(ds, R, r"^router::HttpRouter::<Context>::endpoints$")
    ihf = ctx.need_fn(ds, R, r"^router::iter_handlers_from_node$")
    IT = "router::HttpRouterIter"
    evp = [i for i in range(1, ep.argc + 1) if "Version" in ep.local_ty(i)]
    if len(evp) != 1:
        ctx.lost(R, "endpoints()'s version parameter")
        return
    evp = evp[0]
    selfs = set((f.raw["id"], 1) for f in ds.F.values() if f.raw["kind"] != "Closure" and f.argc >= 1 and "router::HttpRouterIter<" in f.local_ty(1))
    fle = Flow(ds, entries=[ep.raw["id"]], root_params=selfs)

    def from_endpoints(o, allow_field):
        none = ("std::option::Option", "None") in o.aggs
        direct = o.roots == {(ep.id, evp)}
        via = allow_field and (IT, "version") in o.fields and bool(o.roots) and all(r == (ep.id, evp) or (ds.F[r[0]].raw["id"], r[1]) in selfs for r in o.roots)
        return (direct or via) and not none and not o.lits and not _plumbing_only(o), none

    ihf_callers = [(f, bb, t) for f, bb, t in ds.callers_of(r"^router::iter_handlers_from_node$") if bb in f.reachable(0)]
    for f, bb, t in ihf_callers:
        if len(t["args"]) < 2:
            ctx.check(R, "node-filter-version:%s" % f.id.split("::")[-1], False, "iter_handlers_from_node call without a version argument", (f, bb))
            continue
        o = fle.origins(f, t["args"][1])
        ok, none = from_endpoints(o, True)
        ctx.check(R, "node-filter-version:%s" % f.id.split("::")[-1], ok,
                  "the version given to endpoints() reaches this iter_handlers_from_node call in %s: %s (origins: roots %s%s%s)" % (
                      f.id, ok, sorted(o.roots), ", iterator field `version`" if (IT, "version") in o.fields else "", ", a constant None" if none else ""), (f, bb))
    ctx.check(R, "node-filter-callers", len(ihf_callers) >= 2, "callers of iter_handlers_from_node: %d" % len(ihf_callers), ihf, nontrivial=False)
    nw = 0
    for f in ds.F.values():
        if "router::" not in f.id:
            continue
        for adt, var, field, kind, bb, ops in field_writes(f, m.tw, lambda a: a == IT):
            if bb not in f.reachable(0):
                continue
            if field == "version":
                nw += 1
                o = Origins()
                for op in ops:
                    o.update(fle.origins(f, op))
                ok, none = from_endpoints(o, False)
                ctx.check(R, "iter-version-write:%s" % f.id.split("::")[-1], ok,
                          "HttpRouterIter.version is written in %s with endpoints()'s version: %s (roots %s%s)" % (f.id, ok, sorted(o.roots), ", a constant None" if none else ""), (f, bb))
            elif field == "method":
                o = Origins()
                for op in ops:
                    o.update(fle.origins(f, op))
                ok = any(c.endswith("iter_handlers_from_node") for c in o.calls)
                ctx.check(R, "iter-methods-filtered:%s" % f.id.split("::")[-1], ok, "the handler iterator stored in HttpRouterIter.method in %s comes from iter_handlers_from_node: %s" % (f.id, ok), (f, bb))
    ctx.check(R, "iter-version-writes", nw >= 1, "writes to HttpRouterIter.version: %d" % nw, ihf, nontrivial=False)
    # the filter predicate
    flh = Flow(ds, entries=[ihf.raw["id"]])
    reg = [ds.F[x] for x in ds.region([ihf.id])]
    mc = [(f, bb, t) for f in reg for bb, t in f.live_calls(MATCHES)]
    if len(mc) != 1:
        ctx.lost(R, "the single ApiEndpointVersions::matches call under iter_handlers_from_node (%d)" % len(mc))
        return
    f, bb, t = mc[0]
    o0 = flh.origins(f, t["args"][0])
    o1 = flh.origins(f, t["args"][1])
    ctx.check(R, "filter-tests-handler-versions", (EP, "versions") in o0.fields and 2 in f.slice(t["args"][0]).params(), "matches() receiver is the candidate handler's `versions`", (f, bb))
    ctx.check(R, "filter-tests-iterator-version", o1.roots == {(ihf.id, 2)} and not _plumbing_only(o1), "matches() argument is iter_handlers_from_node's version (origin %s)" % sorted(o1.roots), (f, bb))
    # Three idioms keep "a handler iff matches()": `filter_map(|h| if matches {Some(h)} else {None})` (any spelling of the branch:
    # path facts), `filter_map(|h| matches.then(|| h))`, and `filter(|h| matches)` [+ `map`] where the predicate IS the test.
    dest = t["dest"]["l"]
    ret = {"k": "copy", "pl": {"l": 0, "p": []}}
    thens = [(tb_, tt) for tb_, tt in f.live_calls(r"<impl bool>::(then|then_some)$") if operand_local(tt["args"][0]) == dest]
    somes = [(b, s) for b, i, s in f.aggregates(r"^std::option::Option$", "Some") if s["pl"]["l"] == 0 and not s["pl"]["p"]]
    nones = [(b, s) for b, i, s in f.aggregates(r"^std::option::Option$", "None") if s["pl"]["l"] == 0 and not s["pl"]["p"]]
    pred_pol = _polarity(f, ret, leaf=lambda fn, op: not op["pl"]["p"] and op["pl"]["l"] == dest) if f.local_ty(0) == "bool" else None
    if somes and nones and not thens:
        ok = all(f.guarded_by(b, atoms_true=[("call", bb)])[0] for b, s in somes) and all(f.guarded_by(b, atoms_false=[("call", bb)])[0] for b, s in nones)
        ctx.check(R, "filter-keeps-iff-matches", ok, "Some(..) is returned only on paths where matches() is true and None only where it is false: %s" % ok, (f, bb))
        same = all(2 in f.slice(s["rv"]["ops"][0]).params() for b, s in somes)
        ctx.check(R, "filter-yields-tested-handler", same, "the yielded handler is the one whose versions were tested", (f, bb))
    elif len(thens) == 1 and not somes:
        tb_, tt = thens[0]
        rs = f.slice({"l": 0, "p": []})
        ok = any(b == tb_ for c, b, x in rs.callees) and not callee_allow(rs, PLUMBING + [r"<impl bool>::(then|then_some)$", MATCHES.strip("^$")]) and ("unop", "Not") not in rs.atoms
        ctx.check(R, "filter-keeps-iff-matches", ok, "the closure returns matches(..).then(..): Some exactly when matches() is true: %s" % ok, (f, tb_))
        ctx.check(R, "filter-yields-tested-handler", 2 in f.slice(tt["args"][1]).params(), "the yielded handler is the one whose versions were tested", (f, bb))
    elif pred_pol is not None and f.raw["kind"] == "Closure":
        recv = [(p_, cbb, ct) for p_, pbb, pst in flh.closure_sites(f) for cbb, ct, k in flh.closure_receivers(p_, pst)]
        isf = bool(recv) and all(re.search(r"iter::Iterator::filter$", ct.get("callee") or "") for p_, cbb, ct in recv)
        ctx.check(R, "filter-keeps-iff-matches", isf and pred_pol is True,
                  "the closure is the predicate of Iterator::filter (%s) and returns matches(..) itself (not its negation): %s" % (isf, pred_pol is True), (f, bb))
        same = bool(recv)
        for p_, cbb, ct in recv:
            nb, nt_ = _consumer(p_, ct["dest"]["l"])
            if nt_ is not None and re.search(r"iter::Iterator::(map|filter_map|flat_map|scan|zip|chain)$", nt_.get("callee") or ""):
                cl = closure_args_of_call(p_, nt_)
                same = same and nt_["callee"].endswith("::map") and len(cl) == 1 and 2 in cl[0][0].slice(ret).params() and \
                    not callee_allow(cl[0][0].slice(ret), PLUMBING)
        ctx.check(R, "filter-yields-tested-handler", same, "filter yields the tested handler itself and a following `map` only pairs it with the method name: %s" % same, (f, bb))
    else:
        ctx.lost(R, "how matches()'s result decides what the handler iterator yields (branch, bool::then or filter predicate)")
        return
    # sibling: the router's selection uses the same predicate
    fh = ctx.need_fn(ds, R, r"^router::find_handler_matching_version$")
    sib = [(h, hb, ht) for h in [ds.F[x] for x in ds.region([fh.id])] for hb, ht in h.live_calls(MATCHES)]
    okb = len(sib) == 1
    if okb:
        h, hb, ht = sib[0]
        flf = Flow(ds, entries=[fh.raw["id"]])
        a0, a1 = flf.origins(h, ht["args"][0]), flf.origins(h, ht["args"][1])
        okb = (EP, "versions") in a0.fields and a1.roots == {(fh.id, 2)} and (ht.get("callee") == t.get("callee"))
    ctx.check(R, "router-uses-same-predicate", okb, "find_handler_matching_version (lookup_route) calls the same ApiEndpointVersions::matches(handler.versions, version): %s" % okb, fh)


# --------------------------------------------------------------------------- R2
def _bool_targets(f, sb):
    """(target when the scrutinee is true, target when it is false) of a switch on a bool."""
    t = f.blocks[sb]["term"]
    tv = {v: b for v, b in t["targets"]}
    return tv.get(1, t["otherwise"]), tv.get(0, t["otherwise"])


def _is_visible_read(f, op):
    pl = op["pl"]
    if pl["p"]:
        last = pl["p"][-1]
        return isinstance(last, dict) and last.get("n") == "visible"
    return False


def _polarity(f, op, leaf=_is_visible_read, depth=0):
    """True if the bool operand equals the leaf (by default `<something>.visible`), False if it is
    its negation, None if it is anything else (Not, == false, != true and copies are folded)."""
    if depth > 8 or op.get("k") not in ("copy", "move"):
        return None
    if leaf(f, op):
        return True
    pl = op["pl"]
    if pl["p"]:
        return None
    ds_ = [d for d in f.defs().get(pl["l"], []) if not f.blocks[d[0]]["cleanup"]]
    if len(ds_) != 1 or ds_[0][1] != "assign":
        return None
    rv = ds_[0][2]["rv"]
    if rv["rv"] == "use":
        return _polarity(f, rv["op"], leaf, depth + 1)
    if rv["rv"] == "unop" and rv["op"] == "Not":
        p = _polarity(f, rv["a"], leaf, depth + 1)
        return None if p is None else (not p)
    if rv["rv"] == "binop" and rv["op"] in ("Eq", "Ne"):
        for x, y in ((rv["a"], rv["b"]), (rv["b"], rv["a"])):
            if y.get("k") == "const" and y.get("ty") == "bool" and y.get("val") and "int" in y["val"]:
                p = _polarity(f, x, leaf, depth + 1)
                if p is None:
                    return None
                same = bool(y["val"]["int"]) == (rv["op"] == "Eq")
                return p if same else (not p)
    return None


def _visible_guard(m, loop=None):
    """(switch bb, publish target, skip target) of the per-endpoint visibility test in a loop over
    router.endpoints(..) (default: the operation loop)."""
    g = m.gen
    nbb, nt = loop or m.next
    out = []
    for sb, t in g.switches():
        if sb not in g.reachable(0):
            continue
        o = m.flow.origins(g, t["discr"])
        if (EP, "visible") in o.fields and (g.id, nbb) in o.call_sites:
            pol = _polarity(g, t["discr"])
            if pol is None:
                continue
            tb, fb = _bool_targets(g, sb)
            out.append((sb, tb, fb) if pol else (sb, fb, tb))
    return out


_TERMINALS = ("collect", "for_each", "fold", "count", "last", "sum", "try_for_each", "try_fold", "extend", "from_iter", "any", "all", "find", "find_map", "position")


def _endpoint_uses(m):
    """How each router.endpoints(..) call under gen_openapi is consumed: the adaptor chain applied to it, whether one
    of the adaptors keeps exactly the `visible` elements (`.filter(|e| e.visible)`: the closure returns the element's
    `visible`, polarity checked), and where the chain ends: a `for` loop (its Iterator::next call) or a consuming adaptor."""
    ds = m.ds
    ret = {"k": "copy", "pl": {"l": 0, "p": []}}
    out = []
    for f in m.region:
        for bb, t in f.live_calls(ENDPOINTS):
            u = {"f": f, "bb": bb, "t": t, "chain": [], "filter_visible": False, "closure_visible": False, "loop": None, "terminal": None, "undetermined": False}
            cur_t = t
            for _ in range(14):
                cb, ct = _consumer(f, cur_t["dest"]["l"])
                if ct is None:
                    u["undetermined"] = not u["chain"]
                    break
                name = (ct.get("callee") or "?").split("::")[-1]
                if re.search(r"iter::Iterator::next$", ct.get("callee") or ""):
                    u["loop"] = (cb, ct)
                    break
                u["chain"].append(name)
                for c, node in closure_args_of_call(f, ct):
                    if name == "filter":
                        # a filter keeps the element itself: it is a visibility filter iff its predicate IS the element's `visible`
                        if _polarity(c, ret) is True and 2 in c.slice(ret).params():
                            u["filter_visible"] = True
                        continue
                    for cc in [c] + ds.descendants(c):
                        fl = Flow(ds, entries=[cc.raw["id"]])
                        if (EP, "visible") in fl.origins(cc, {"l": 0, "p": []}, control=True).fields:
                            u["closure_visible"] = True
                if name in _TERMINALS:
                    u["terminal"] = name
                    break
                cur_t = ct
            out.append(u)
    return out


def _use_role(m, u):
    """Name a use of router.endpoints(..) by where its elements end up, not by closure numbers or adaptor names."""
    g = m.gen
    if u["loop"] and m.next and u["f"].id == g.id and u["loop"][0] == m.next[0]:
        return "operations"
    if u["f"].id == g.id:
        for adt, var, field, kind, bb, ops in field_writes(g, m.tw, lambda a: a == "openapiv3::OpenAPI"):
            if field == "tags" and any((g.id, u["bb"]) in m.pflow.origins(g, op).call_sites for op in ops):
                return "tags"
    return "%s:%s" % (_sfx(u["f"]), u["chain"][0] if u["chain"] else "?")


def _loop_state(m):
    """State that outlives an iteration: named locals of gen_openapi that are mutably borrowed somewhere
    (document, definitions, generator, error tables, accumulators) and the document itself."""
    g = m.gen
    state = set(st["rv"]["pl"]["l"] for b, i, st in g.stmts() if st["rv"]["rv"] == "ref" and st["rv"].get("mut") and g.local_name(st["rv"]["pl"]["l"]))
    return state | {m.doc}


def _loop_blocks(g, nbb):
    fwd = g.reachable(nbb)
    return set(b for b in fwd if nbb in g.reachable(b) and not g.blocks[b]["cleanup"])


def _some_target(g, nt):
    """Block where an iteration starts: the Some edge of the switch on Iterator::next's result."""
    for sb, t in g.switches():
        info = g.switch_on(sb)
        if info["kind"] == "discr" and info["place"]["l"] == nt["dest"]["l"] and not info["place"]["p"]:
            some = [i for i, n in info["variants"].items() if n == "Some"]
            if some:
                return g.switch_target(sb, some[0])
    return None


def _published_start(m, uses=None):
    """Block from which every iteration of the operation loop for a *published* endpoint starts, and how that is
    known: ("guard", switch bb, block) for an in-loop test of `visible`; ("filter", None, block) when the iterator
    was filtered on `visible` before the loop.  None if neither holds."""
    g = m.gen
    if m.next is None:
        return None
    uses = uses if uses is not None else _endpoint_uses(m)
    mine = [u for u in uses if u["f"].id == g.id and u["loop"] and u["loop"][0] == m.next[0]]
    if mine and mine[0]["filter_visible"]:
        b = _some_target(g, m.next[1])
        return ("filter", None, b) if b is not None else None
    guards = _visible_guard(m)
    if len(guards) == 1:
        return ("guard", guards[0][0], guards[0][1])
    return None


def r2_unpublished(ctx):
    R = ctx.rule("C06.R2", "nothing derived from an endpoint reaches the document unless that endpoint's `visible` is true: every consumer of router.endpoints(..) either filters the "
                 "iterator on the element's `visible` before anything else sees it, or (a `for` loop) tests it per iteration before any write to state that outlives the iteration; "
                 "`visible` is read nowhere on the routing / serving path", floor=8)
    m = _model(ctx, R)
    ds, g = m.ds, m.gen
    if m.next is None or m.doc is None:
        ctx.lost(R, "the loop over router.endpoints(..) whose items become `paths` entries / the returned OpenAPI local of gen_openapi")
        return
    uses = _endpoint_uses(m)
    state = _loop_state(m)
    seen_op = False
    for u in uses:
        f = u["f"]
        role = _use_role(m, u)
        is_op = role == "operations"
        sfx = "" if is_op else ":" + role
        if u["undetermined"]:
            ctx.check(R, "endpoints-use:%s" % role, False, "the consumer of router.endpoints(..) could not be determined", (f, u["bb"]))
            continue
        via = " . ".join(["endpoints"] + u["chain"] + (["for-loop"] if u["loop"] else []))
        if not (u["loop"] and f.id == g.id):
            # consumed entirely by iterator adaptors
            guard = u["filter_visible"] or u["closure_visible"]
            ctx.check(R, "endpoints-use:%s" % role, guard,
                      "router.endpoints(..) consumed through %s: %s" % (via, "a closure of the chain keeps only `visible` endpoints" if guard else
                                                                     "NO closure of the chain keeps only `visible` endpoints — data of unpublished endpoints flows on (into the document)"), (f, u["bb"]))
            continue
        nbb, nt = u["loop"]
        seen_op = seen_op or is_op
        body = _loop_blocks(g, nbb)
        item = nt["dest"]["l"]
        it_locals = g.slice(nt["args"][0]).locals()

        def touches_state(t):
            hit = set()
            for a in t["args"]:
                hit |= (g.slice(a, stop_at_calls=r"iter::Iterator::next$").locals() & state) - {item} - it_locals
            return hit
        if u["filter_visible"]:
            ctx.check(R, "endpoints-use:%s" % role, True, "router.endpoints(..) consumed through %s: the iterator is filtered on the element's `visible` before the loop sees it" % via, (f, u["bb"]))
            unguarded = set()
        else:
            guards = _visible_guard(m, (nbb, nt))
            ctx.check(R, "one-visibility-guard" + sfx, len(guards) == 1, "branches on the iterated endpoint's `visible` in the loop (%s): %d" % (via, len(guards)), (g, nbb))
            if len(guards) != 1:
                continue
            sb, pub, skip = guards[0]
            r = g.reachable(skip, avoid=[nbb])
            calls, stores = [], []
            for b in r:
                t = g.blocks[b]["term"]
                if t["t"] == "call" and touches_state(t):
                    calls.append((t.get("callee"), b))
                for st in g.blocks[b]["st"]:
                    if st["s"] == "assign" and (st["pl"]["l"] in state or (st["rv"]["rv"] == "ref" and st["rv"].get("mut") and st["rv"]["pl"]["l"] in state - it_locals)):
                        stores.append(b)
            ctx.check(R, "skip-edge-writes-nothing" + sfx, not calls and not stores and nbb in g.reachable(skip),
                      "from the `visible == false` edge the loop continues with the next endpoint (%s) through %d blocks; calls / stores touching the document or the %d other accumulators: %s %s" % (
                          nbb in g.reachable(skip), len(r), len(state) - 1, calls, stores), (g, sb))
            unguarded = g.reachable(nbb, avoid_edges=[(sb, pub)])
        nsites = 0
        for b in sorted(body):
            t = g.blocks[b]["term"]
            if t["t"] == "call" and t["args"] and b != nbb:
                o = m.flow.origins(g, t["args"][0])
                on_doc = (g.id, m.doc) in o.locals
                if on_doc or (not is_op and touches_state(t)):
                    nsites += 1
                    ctx.check(R, "%s:%s" % ("doc-write-guarded" if is_op else "state-write-guarded" + sfx, (t.get("callee") or "?").split("::")[-1].split("<")[0]), b not in unguarded,
                              "call %s on %s inside the loop %s reachable in an iteration only for an endpoint whose `visible` is true" % (
                                  t.get("callee"), "the document" if on_doc else "state that outlives the iteration", "is" if b not in unguarded else "is NOT"), (g, b))
            for st in g.blocks[b]["st"]:
                if st["s"] == "assign" and st["pl"]["l"] == m.doc and st["pl"]["p"]:
                    nsites += 1
                    ctx.check(R, "doc-store-guarded" + sfx, b not in unguarded, "store into the document inside the loop is guarded by `visible`: %s" % (b not in unguarded), (g, b))
        if is_op:
            ctx.check(R, "doc-write-sites", nsites >= 2, "writes to the document inside the operation loop: %d" % nsites, g, nontrivial=False)
    ctx.check(R, "operation-loop-examined", seen_op, "the loop that fills `paths` is one of the examined consumers of router.endpoints(..)", g, nontrivial=False)
    # who reads `visible`
    readers = {}

    def only_carries_it_over(f):
        """Every read of `.visible` in f is the `visible` operand of an ApiEndpoint aggregate: struct update syntax (`Self { deprecated, ..self }`)
        copies the field into the same field of the new value -- the function does not look at it."""
        n_all, n_carry = 0, 0

        def count(o):
            n = 0
            if isinstance(o, dict):
                if "l" in o and "p" in o and isinstance(o["p"], list) and any(isinstance(e, dict) and e.get("n") == "visible" for e in o["p"]):
                    n += 1
                for v in o.values():
                    n += count(v)
            elif isinstance(o, list):
                for v in o:
                    n += count(v)
            return n
        for blk in f.blocks:
            if blk["cleanup"]:
                continue
            for st in blk["st"]:
                if st["s"] != "assign":
                    continue
                c = count(st["rv"])
                n_all += c
                rv = st["rv"]
                if c and rv["rv"] == "agg" and rv.get("adt") == EP and "visible" in (rv.get("fields") or []):
                    op = rv["ops"][rv["fields"].index("visible")]
                    if count(op) == 1 and c == 1:
                        n_carry += 1
            t = blk["term"]
            if t["t"] == "call":
                n_all += count(t["args"])
            elif t["t"] == "switch":
                n_all += count(t["discr"])
        return n_all > 0 and n_all == n_carry
    for f, bb, owner in field_reads(ds, m.tw, "visible"):
        if owner == EP and not only_carries_it_over(f):
            readers.setdefault(root_of(ds, f).id, (f, bb))
    for rid, (f, bb) in sorted(readers.items()):
        ok = rid in VISIBLE_READERS
        ctx.check(R, "visible-reader:%s" % rid, ok, "%s reads ApiEndpoint.visible: %s" % (rid, VISIBLE_READERS.get(rid, "NOT a reviewed reader — routing must not depend on it")), (f, bb))
    ctx.check(R, "visible-read-by-gen_openapi", g.id in readers, "gen_openapi reads ApiEndpoint.visible", g, nontrivial=False)


# --------------------------------------------------------------------------- R3
def r3_placement(ctx):
    R = ctx.rule("C06.R3", "the operation is stored under paths[iterator path] in the PathItem slot named like the iterator's method (identity table over all eight slots, "
                 "covering every method the endpoint macro can emit), carries the endpoint's operation_id, and is stored on every non-panicking path of the iteration", floor=16)
    m = _model(ctx, R)
    ds, g = m.ds, m.gen
    if m.next is None or m.doc is None:
        ctx.lost(R, "the operation loop of gen_openapi")
        return
    nbb, nt = m.next
    item = nt["dest"]["l"]
    pi = ds.adts.get("openapiv3::PathItem")
    if not pi:
        ctx.lost(R, "ADT table entry of openapiv3::PathItem")
        return
    slots = [f["name"] for f in pi["variants"][0]["fields"] if re.search(r"Option<openapiv3::Operation>", f["ty"])]
    # string tests on the method
    tests = []
    for bb, t in g.live_calls(r"cmp::PartialEq::eq$"):
        if len(t["args"]) != 2:
            continue
        sides = []
        for a in t["args"]:
            oa = m.flow.origins(g, a)
            sides.append((a, oa))
        lit = [(a, oa) for a, oa in sides if len(oa.lits) == 1 and not oa.call_sites and not oa.roots]
        if len(lit) != 1:
            continue
        other = [a for a, oa in sides if a is not lit[0][0]][0]
        # switches on the comparison's result or on a let-bound copy of it (path facts over the whole of gen_openapi exceed the state budget)
        edges = [(sb, g.bool_edges(sb)[0]) for sb, st in switches_on_value(g, t["dest"]["l"])]
        tests.append({"lit": sorted(lit[0][1].lits)[0], "other": other, "bb": bb, "edges": [(sb, tb) for sb, tb in edges if tb is not None]})
    seen = {}
    # places where a PathItem slot is selected: `&mut pathitem.<slot>` (a borrow later written through) or a direct store `pathitem.<slot> = ..`
    sel = []
    live0 = g.reachable(0)
    for bb, i, st in g.stmts():
        if bb not in live0:
            continue
        rv = st["rv"]
        if rv["rv"] == "ref" and rv.get("mut"):
            sel.append((bb, rv["pl"]))
        elif st["pl"]["p"]:
            sel.append((bb, st["pl"]))
    for bb, pl in sel:
        fs = m.tw.fields_of_place(g, pl)
        if not fs or fs[-1][0] != "openapiv3::PathItem" or fs[-1][2] not in slots:
            continue
        last = pl["p"][-1]
        if not (isinstance(last, dict) and "f" in last):
            continue
        slot = fs[-1][2]
        # the method tests known TRUE on every path to this borrow (match arm, if-chain, guard, named flag alike)
        doms = [t for t in tests if any(g.edge_dominates(sb, tb, bb) for sb, tb in t["edges"])]
        if len(doms) != 1:
            ctx.check(R, "slot:%s" % slot, False, "PathItem.%s is selected by %d method tests (expected exactly one)" % (slot, len(doms)), (g, bb))
            continue
        t = doms[0]
        from_method = m.item_comp(g, t["other"], item) == {1}
        seen[slot] = t["lit"]
        ctx.check(R, "slot:%s" % slot, t["lit"].lower() == slot and t["lit"] == t["lit"].upper() and from_method,
                  "method %r -> PathItem.%s; the tested string is the iterator's method component: %s" % (t["lit"], slot, from_method), (g, bb))
    for s in slots:
        if s not in seen:
            ctx.check(R, "slot:%s" % s, False, "PathItem.%s is never selected: operations with method %s would be lost or misplaced" % (s, s.upper()), g)
    # macro crate: every method it can emit has a slot
    mt = ctx.ep.one(r"^metadata::MethodType::as_str$")
    if mt is None:
        ctx.lost(R, "dropshot_endpoint metadata::MethodType::as_str")
    else:
        emitted = lit_strs(mt.slice({"l": 0, "p": []}))
        nvar = len((ctx.ep.adts.get("metadata::MethodType") or {"variants": []})["variants"])
        missing = sorted(x for x in emitted if x not in seen.values())
        ctx.check(R, "macro-methods-have-slots", not missing and len(emitted) == nvar and nvar > 0,
                  "methods the endpoint macro can emit %s (%d variants) all have a slot: missing %s" % (sorted(emitted), nvar, missing), mt)
    # paths.entry(path)
    entries = []
    for bb, t in g.live_calls(r"indexmap::IndexMap::<K, V, S>::entry$"):
        o = m.flow.origins(g, t["args"][0])
        if ("openapiv3::Paths", "paths") in o.fields and (g.id, m.doc) in o.locals:
            entries.append((bb, t))
    ctx.check(R, "one-path-entry", len(entries) == 1, "paths.entry(..) sites on the document: %d" % len(entries), g, nontrivial=False)
    ebb = None
    for bb, t in entries:
        ebb = bb
        comp = m.item_comp(g, t["args"][1], item)
        btw = _between(g, t["args"][1])
        ctx.check(R, "path-key-is-iterator-path", comp == {0} and not btw, "paths.entry key is the iterator's path component, unmodified: components %s callees %s" % (sorted(comp), btw), (g, bb))
    # the operation and where it goes
    # `slot.replace(op)` / `slot.insert(op)` / `*slot = Some(op)` where slot borrows a PathItem field
    reps = []
    for bb, t in g.live_calls(r"option::Option::<T>::(replace|insert|get_or_insert)$"):
        o = m.flow.origins(g, t["args"][0])
        hit = set(n for a, n in o.fields if a == "openapiv3::PathItem")
        if hit and len(t["args"]) > 1:
            reps.append((bb, t["args"][1], o, hit))
    by_bb = {}
    for sbb, i_, st_ in g.stmts():      # `pathitem.<slot> = Some(operation)` in each arm
        if sbb in live0 and st_["pl"]["p"] and isinstance(st_["pl"]["p"][-1], dict) and "f" in st_["pl"]["p"][-1]:
            fs = m.tw.fields_of_place(g, st_["pl"])
            if fs and fs[-1][0] == "openapiv3::PathItem" and fs[-1][2] in slots:
                e = by_bb.setdefault(sbb, {"hit": set(), "node": {"pl": {"l": st_["pl"]["l"], "p": ["*"]}}, "vals": _rv_operands(st_["rv"])})
                e["hit"].add(fs[-1][2])
    for sbb, kind, node, tgt, vals in mutators(g):
        if kind != "store" or sbb not in g.reachable(0) or node["pl"]["p"] != ["*"]:
            continue
        fs = m.tw.fields_of_place(g, tgt)
        if fs and fs[-1][0] == "openapiv3::PathItem" and fs[-1][2] in slots:
            e = by_bb.setdefault(sbb, {"hit": set(), "node": node, "vals": vals})
            e["hit"].add(fs[-1][2])
    for sbb, e in sorted(by_bb.items()):
        if e["vals"]:
            reps.append((sbb, e["vals"][0], m.flow.origins(g, {"k": "copy", "pl": {"l": e["node"]["pl"]["l"], "p": []}}), e["hit"]))
    ctx.check(R, "one-operation-store", len(reps) >= 1, "sites storing the operation into a PathItem slot: %d" % len(reps), g, nontrivial=False)
    opw = [(bb, ops) for adt, var, field, kind, bb, ops in field_writes(g, m.tw, lambda a: a == "openapiv3::Operation") if field == "operation_id" and bb in g.reachable(0)]
    oploc = set()
    for wbb, ops in opw:
        for st in g.blocks[wbb]["st"]:
            if st["s"] == "assign" and st["pl"]["p"] and isinstance(st["pl"]["p"][-1], dict) and st["pl"]["p"][-1].get("n") == "operation_id":
                oploc.add(st["pl"]["l"])
    # ... or the Operation is built by one struct literal `Operation { operation_id: .., ..Default::default() }`
    for abb, ai, ast in g.aggregates(r"^openapiv3::Operation$"):
        names = ast["rv"].get("fields") or []
        if abb in g.reachable(0) and "operation_id" in names and not ast["pl"]["p"]:
            ids = g.slice(ast["rv"]["ops"][names.index("operation_id")])
            if not ids.has_call(r"default::Default::default$") or ids.reads_field("operation_id"):
                oploc.add(ast["pl"]["l"])
    if reps:
        allhit = set()
        for bb, vop, o, hit in reps:
            allhit |= hit
        bb0_, vop0, o0, hit0 = reps[0]
        from_entry = all(ebb is None or (g.id, ebb) in o.call_sites for bb, vop, o, hit in reps)
        ctx.check(R, "store-slot-from-table", allhit == set(slots) and from_entry,
                  "the slot written is one of the table's %d slots of the PathItem obtained from paths.entry(path): slots %s" % (len(slots), sorted(allhit)), (g, bb0_))
        start = _published_start(m)
        if start is not None:
            how, sb, pub = start
            lost = nbb in g.reachable(pub, avoid=[bb for bb, vop, o, hit in reps])
            ctx.check(R, "operation-always-stored", not lost, "every non-panicking path of an iteration for a published endpoint (%s) stores the operation: %s" % (
                "after the in-loop `visible` test" if how == "guard" else "the iterator is filtered on `visible`", not lost), (g, bb0_))
        ok = bool(oploc) and all(any(g.slice(vop).touches_local(l) for l in oploc) for bb, vop, o, hit in reps)
        ctx.check(R, "stored-value-is-the-operation", ok, "the value stored is the Operation whose operation_id was set: %s" % ok, (g, bb0_))
    ctx.check(R, "one-operation-id-write", len(opw) == 1, "writes to Operation.operation_id: %d" % len(opw), g, nontrivial=False)
    for bb, ops in opw:
        o = Origins()
        comp = set()
        btw = []
        for op in ops:
            o.update(m.flow.origins(g, op))
            comp |= m.item_comp(g, op, item)
            btw += _between(g, op)
        ctx.check(R, "operation-id-from-endpoint", (EP, "operation_id") in o.fields and comp == {2} and not btw and ("std::option::Option", "Some") in o.aggs,
                  "operation.operation_id = Some(endpoint.operation_id.clone()) of the iterated endpoint: fields %s callees %s" % (
                      sorted(n for a, n in o.fields if a == EP), btw), (g, bb))


# --------------------------------------------------------------------------- R4
def _map_flushes(m, owner_field):
    """Every store into the document map `owner_field` under gen_openapi (insert / entry().or_insert*; in a `for` loop of
    gen_openapi or in the closure of a `for_each`): dicts with the anchor blocks in gen_openapi, the origins of the stored
    key and value, and the site.  The anchor is the block that must lie on every path to return for the flush to
    happen: the loop head (Iterator::next feeding the stored key) or the adaptor call that receives the closure."""
    g = m.gen
    out = []
    for f in m.region:
        for bb, kop, vop in map_stores(m.flow, f, owner_field):
            ko, vo = m.flow.origins(f, kop), m.flow.origins(f, vop)
            anchors = []
            if f.id == g.id:
                anchors = [nb for c, nb, nt in g.slice(kop).calls(r"iter::Iterator::next$")]
            else:
                cur = f
                for _ in range(6):
                    sites = m.flow.closure_sites(cur)
                    if not sites:
                        break
                    p_, pbb, pst = sites[0]
                    if p_.id == g.id:
                        anchors = [cbb for cbb, ct, k in m.flow.closure_receivers(p_, pst)]
                        break
                    cur = p_
            out.append({"anchors": anchors, "ko": ko, "vo": vo, "f": f, "bb": bb, "kop": kop, "vop": vop})
    return out


def _schema_flushes(m):
    out = []
    for x in _map_flushes(m, ("openapiv3::Components", "schemas")):
        o = Origins()
        o.update(x["ko"])
        o.update(x["vo"])
        out.append((x["anchors"], o, (x["f"], x["bb"])))
    return out


ENTRY_LOOKUP = r"(Entry::<'a, K, V(, A)?>::(or_insert_with|or_insert|or_insert_with_key)|ops::Index::index|(IndexMap::<K, V, S>|BTreeMap::<K, V, A>|HashMap::<K, V, S, A>)::(get|get_mut|get_full))$"


def r4_refs_resolve(ctx):
    R = ctx.rule("C06.R4", "every $ref emitted has its target in the document: each Static schema's dependencies are added to `definitions` before its converted schema can be used, "
                 "each Gen schema is generated with the one shared generator, generator definitions and `definitions` are both written to components.schemas on every path, and each "
                 "error response is stored in components.responses under the name its reference was formatted from", floor=20)
    m = _model(ctx, R)
    ds, g = m.ds, m.gen
    flushes = _schema_flushes(m)
    gen_flush = [x for x in flushes if any(c.endswith("into_root_schema_for") for c in x[1].calls)]
    def_flush = [x for x in flushes if x not in gen_flush]
    D = None
    if len(def_flush) == 1:
        cands = [l for (fid, l) in def_flush[0][1].locals if fid == g.id and g.local_name(l) and
                 g.local_ty(l).startswith("indexmap::IndexMap<std::string::String, schemars::schema::Schema")]
        D = cands[0] if len(cands) == 1 else None
    if D is None:
        ctx.lost(R, "the `definitions` side table (the IndexMap<String, Schema> whose entries are stored into components.schemas after the loop)")
        return
    news = [(f, bb) for f in m.region for bb, t in f.live_calls(GEN_CTOR)]
    ctx.check(R, "one-generator", len(news) == 1, "schemars generator construction sites (SchemaGenerator::new / SchemaSettings::into_generator) under gen_openapi: %d" % len(news), g)
    for anchors, o, site in gen_flush:
        mp = bool(anchors) and g.must_pass(anchors)
        ctx.check(R, "generator-definitions-flushed", mp and any(re.search(GEN_CTOR, c) for c in o.calls) and ("schemars::schema::RootSchema", "definitions") in o.fields,
                  "generator.into_root_schema_for().definitions is written to components.schemas on every path to return: %s" % mp, site)
    ctx.check(R, "generator-flush-present", len(gen_flush) == 1, "flushes of the generator's definitions: %d" % len(gen_flush), g, nontrivial=False)
    for anchors, o, site in def_flush:
        mp = bool(anchors) and g.must_pass(anchors)
        ctx.check(R, "definitions-flushed", mp, "`definitions` is written to components.schemas on every path to return: %s" % mp, site)
    # the five (today) destructuring sites
    nsites = 0
    for f in m.region:
        live = f.reachable(0)
        for sb, t in f.switches():
            if sb not in live:
                continue
            info = f.switch_on(sb)
            if info["kind"] != "discr" or info["adt"] != ASG:
                continue
            nsites += 1
            idx = {v: k for k, v in info["variants"].items()}
            st_t = f.switch_target(sb, idx.get("Static"))
            gn_t = f.switch_target(sb, idx.get("Gen"))
            scrut = m.flow.origins(f, {"k": "copy", "pl": info["place"]})
            # Static arm
            # `definitions.extend(dependencies.clone())`, or a loop inserting every dependency: any call that is given the side
            # table mutably together with a value that comes from the arm's `dependencies`
            exts = []
            for ebb, et in f.live_calls():
                if len(et["args"]) < 2 or not f.edge_dominates(sb, st_t, ebb):
                    continue
                if (g.id, D) not in m.flow.origins(f, et["args"][0]).locals:
                    continue
                if not any((ASG, "dependencies") in m.flow.origins(f, a).fields for a in et["args"][1:]):
                    continue
                heads = set()
                for a in et["args"][1:]:
                    for c, nb, nt in f.slice(a).calls(r"iter::Iterator::next$"):
                        if f.edge_dominates(sb, st_t, nb):
                            heads.add((nb, nt["dest"]["l"]))
                if not heads:
                    exts.append(ebb)            # whole-collection form
                    continue
                for nb, item in heads:         # element-wise form: anchored at the loop head, the insertion unconditional in the body
                    some = _some_target(f, {"dest": {"l": item}})
                    if some is not None and nb not in f.reachable(some, avoid=[ebb]):
                        exts.append(nb)
            ok = False
            detail = "no definitions.extend(dependencies) on the Static arm"
            if exts:
                r = f.reachable(st_t, avoid=exts)
                uses = [b for b, ct in f.live_calls(r"^schema_util::j2oas_schema$") if b in r]
                rets = [b for b in f.returns() if b in r]
                back = m.next is not None and f.id == g.id and m.next[0] in r
                ok = not uses and not rets and not back
                detail = "recording the arm's `dependencies` in `definitions` lies on every path from the Static arm to a use of the converted schema / the end of the arm: %s" % ok
            ctx.check(R, "static-deps-recorded:%s" % _role(f), ok, detail, (f, sb))
            # Gen arm
            if gn_t is not None and gn_t != st_t and not f.is_diverging(gn_t):
                ind = []
                for ibb, it in f.live_calls():
                    if it.get("callee") or not f.edge_dominates(sb, gn_t, ibb):
                        continue
                    if "schemars::SchemaGenerator" in (it.get("callee_ty") or ""):
                        ind.append((ibb, it))
                okg = bool(ind)
                for ibb, it in ind:
                    oa = m.flow.origins(f, it["args"][0])
                    okg = okg and any(re.search(GEN_CTOR, c) for c in oa.calls)
                    if it.get("callee_op"):
                        okg = okg and (ASG, "schema") in m.flow.origins(f, it["callee_op"]).fields
                ctx.check(R, "gen-uses-shared-generator:%s" % _role(f), okg, "the Gen arm calls the endpoint's schema function with the one shared generator: %s (%d call(s))" % (okg, len(ind)), (f, sb))
            else:
                ctx.check(R, "gen-arm-rejected:%s" % _role(f), gn_t is None or f.is_diverging(gn_t) or gn_t == st_t, "a Gen schema in this position is rejected loudly (unimplemented!)", (f, sb), nontrivial=False)
    ctx.check(R, "schema-destructuring-sites", nsites >= 5, "places that destructure ApiSchemaGenerator under gen_openapi: %d" % nsites, g, nontrivial=False)
    # error responses
    # the carrier of a shared error response, by role: the crate's struct that holds a Response together with the reference to it
    # (a function-local item of gen_openapi today; a module-level struct with a constructor is the same thing)
    er_cands = sorted(a for a, d in ds.adts.items() if d.get("local") and d.get("kind") == "struct" and d.get("variants") and
                      set(["openapiv3::Response", "openapiv3::ReferenceOr<openapiv3::Response>"]) <= set(fld["ty"] for fld in d["variants"][0]["fields"]))
    ers = [(f, bb, st) for f in m.region for a in er_cands for bb, i, st in f.aggregates("^" + re.escape(a) + "$") if bb in f.reachable(0)]
    ctx.check(R, "error-response-built-once", len(ers) == 1, "construction sites of ErrorResponse: %d" % len(ers), g, nontrivial=False)
    er_adt = None
    for f, bb, st in ers:
        er_adt = st["rv"]["adt"]
        names = st["rv"].get("fields") or []
        nm = f.slice(st["rv"]["ops"][names.index("name")])
        rf = f.slice(st["rv"]["ops"][names.index("reference")])
        common = sorted(l for l in nm.locals() & rf.locals() if f.local_name(l))
        isref = ("agg", "openapiv3::ReferenceOr", "Reference") in rf.atoms and rf.has_call(r"fmt::format$")
        ctx.check(R, "error-reference-names-stored-name", bool(common) and isref,
                  "ErrorResponse.reference is a Reference formatted from the same `name` local that is stored as ErrorResponse.name: shared locals %s" % [f.local_name(l) for l in common], (f, bb))
    if er_adt:
        ins = _map_flushes(m, ("openapiv3::Components", "responses"))
        ctx.check(R, "error-responses-stored", len(ins) == 1, "stores into components.responses: %d" % len(ins), g, nontrivial=False)
        for x in ins:
            k, v, f_ = x["ko"], x["vo"], x["f"]
            ok = (er_adt, "name") in k.fields and (er_adt, "response") in v.fields and not _between(f_, x["kop"]) and k.call_sites & v.call_sites
            ctx.check(R, "error-response-stored-under-its-name", bool(ok), "components.responses[ErrorResponse.name] = ErrorResponse.response of the same entry: %s" % bool(ok), (f_, x["bb"]))
            # the loop (or for_each) over error_responses is reached on every path to return
            mp = bool(x["anchors"]) and g.must_pass(x["anchors"])
            ctx.check(R, "error-responses-flushed", mp, "the loop storing error responses runs on every path to return: %s" % mp, (f_, x["bb"]))
        # the error reference goes under both the 4xx and the 5xx range (two inserts, or one insert in a loop over [4, 5])
        refs = []
        for bb, kop, vop in map_stores(m.flow, g, ("openapiv3::Responses", "responses")):
            v = m.flow.origins(g, vop)
            if (er_adt, "reference") in v.fields:
                refs.append((bb, kop, v))
        # the side table of error responses = the map of ErrorResponse entries that the flush above iterates
        ermaps = set()
        for x in ins:
            for fid, l in x["ko"].locals | x["vo"].locals:
                if fid == g.id and g.local_name(l) and er_adt in (g.local_ty(l) or "") and re.match(r"^(indexmap::IndexMap|std::collections::(BTreeMap|HashMap))<", g.local_ty(l) or ""):
                    ermaps.add(l)
        covered = set()
        for bb, kop, v in refs:
            # `.reference` of the entry found (or just created) in that very table: entry().or_insert_with(..), or insert-if-absent
            # followed by `table[key]` / `table.get(key)` — any lookup, as long as it is a lookup in the table that is flushed
            okr = any(re.search(ENTRY_LOOKUP, c) for c in v.calls) and len(ermaps) == 1 and (g.id, sorted(ermaps)[0]) in v.locals
            kk = m.flow.origins(g, kop)
            rng = sorted(a[1] for a in kk.aggs if a[0] == "openapiv3::StatusCode")
            cls = set()
            ksl = g.slice(kop)
            for a in ksl.atoms:
                if a[0] == "lit" and a[2] in ("u16", "u8", "u32", "i32", "usize"):
                    try:
                        cls.add("%sxx" % __import__("json").loads(a[1])["int"])
                    except Exception:
                        pass
                # `for class in CLASSES { responses.insert(Range(class), ..) }` over a constant array: the driver renders the
                # array's elements, and the insert sits in the body of the loop over all of them
                elif a[0] in ("lit", "const") and ksl.has_call(r"Iterator::next$"):
                    try:
                        for e in (__import__("json").loads(a[1 if a[0] == "lit" else 2]) or {}).get("list") or []:
                            cls.add("%sxx" % e["int"])
                    except Exception:
                        pass
            if rng == ["Range"]:
                covered |= cls
            ctx.check(R, "error-ref-is-entry-reference:%s" % "+".join(rng + sorted(cls)), okr, "the 4xx/5xx response is the `reference` of the error_responses entry that will be stored: %s" % okr, (g, bb))
        ctx.check(R, "error-ref-sites", covered == {"4xx", "5xx"}, "status ranges under which operation.responses gets the error reference: %s (expected 4xx and 5xx)" % sorted(covered), g, nontrivial=False)


# --------------------------------------------------------------------------- R4b
VISITOR = r"^<schema_util::ReferenceVisitor<'_> as schemars::visit::Visitor>::visit_schema_object$"
RV = "schema_util::ReferenceVisitor"
SO_REF = ("schemars::schema::SchemaObject", "reference")
CONST_SCHEMA_OK = [r"boxed::Box::<T>::new$", r"convert::Into::into$", r"convert::From::from$", r"default::Default::default$", r"string::String::from$", r"string::ToString::to_string$", r"borrow::ToOwned::to_owned$", r"string::String::new$", r"str::<impl str>::to_string$"]


def r4b_dependencies_transitive(ctx):
    R = ctx.rule("C06.R4b", "the dependencies recorded for a Static schema are closed under $ref: ReferenceVisitor, on a reference not yet recorded, stores the generator's definition under "
                 "that name AND visits that definition recursively (then visits the object's own children); every ApiSchemaGenerator::Static is either built from such a visit of the "
                 "very schema it stores, or is a constant schema that cannot contain a $ref", floor=13)
    ds = ctx.ds
    V = ctx.need_fn(ds, R, VISITOR)
    fl = Flow(ds, entries=[V.raw["id"]])
    live = V.reachable(0)
    # membership test and its "not yet recorded" edge
    tests = []
    for bb, t in V.live_calls(r"indexmap::IndexMap::<K, V, S>::contains_key$"):
        if len(t["args"]) < 2:
            continue
        o0, o1 = fl.origins(V, t["args"][0]), fl.origins(V, t["args"][1])
        if (RV, "dependencies") in o0.fields and SO_REF in o1.fields:
            tests.append((bb, t))
    if len(tests) != 1:
        ctx.lost(R, "the `dependencies.contains_key(name)` test of ReferenceVisitor (%d found)" % len(tests))
        return
    tbb, tt = tests[0]
    dest = tt["dest"]["l"]
    sws = []
    for sb, st in V.switches():
        if sb in live:
            pol = _polarity(V, st["discr"], leaf=lambda f, op: not op["pl"]["p"] and op["pl"]["l"] == dest)
            if pol is not None:
                tb, fb = _bool_targets(V, sb)
                sws.append((sb, fb if pol else tb))
    if len(sws) != 1:
        ctx.lost(R, "the branch on contains_key's result")
        return
    sb, absent = sws[0]
    ctx.check(R, "reference-guard", SO_REF in fl.origins(V, tt["args"][1]).fields and 2 in V.slice(tt["args"][1]).params(),
              "the name looked up is taken from the visited object's `reference`", (V, tbb))
    # lookup in the generator's definitions
    gets = []
    for bb, t in V.live_calls(r"BTreeMap::<K, V, A>::get$"):
        if len(t["args"]) < 2:
            continue
        o0, o1 = fl.origins(V, t["args"][0]), fl.origins(V, t["args"][1])
        if any(c.endswith("SchemaGenerator::definitions") for c in o0.calls) and (RV, "generator") in o0.fields and SO_REF in o1.fields:
            gets.append((bb, t))
    ctx.check(R, "definition-looked-up", len(gets) == 1 and V.edge_dominates(sb, absent, gets[0][0]) if gets else False,
              "on the not-yet-recorded edge the definition is fetched from generator.definitions() under the referenced name: %d lookup(s)" % len(gets), (V, sb))
    if len(gets) != 1:
        return
    gbb = gets[0][0]
    inserts = []
    for bb, t in V.live_calls(r"indexmap::IndexMap::<K, V, S>::insert$"):
        if len(t["args"]) < 3:
            continue
        o0, o1, o2 = fl.origins(V, t["args"][0]), fl.origins(V, t["args"][1]), fl.origins(V, t["args"][2])
        if (RV, "dependencies") in o0.fields and SO_REF in o1.fields:
            inserts.append((bb, (V.id, gbb) in o2.call_sites))
    real = [bb for bb, isdef in inserts if isdef]
    ok = bool(real) and V.must_pass(real, start=absent)
    ctx.check(R, "definition-recorded", ok, "every path from the not-yet-recorded edge stores the fetched definition in `dependencies` under that name: %s" % ok, (V, sb))
    visits = []
    for bb, t in V.live_calls(r"^schemars::visit::(visit_schema|Visitor::visit_schema)$"):
        if len(t["args"]) < 2:
            continue
        o1 = fl.origins(V, t["args"][1])
        if 1 in V.slice(t["args"][0]).params() and (V.id, gbb) in o1.call_sites:
            visits.append(bb)
    ok = bool(visits) and V.must_pass(visits, start=absent)
    ctx.check(R, "definition-visited-recursively", ok,
              "every path from the not-yet-recorded edge passes the fetched definition to the recursive visit with `self` (references inside a referenced definition are collected): %s (%d visit call(s))" % (ok, len(visits)), (V, sb))
    okp = bool(visits) and all(any(V.dominates(ib, vb) for ib, isdef in inserts) for vb in visits)
    ctx.check(R, "recorded-before-recursion", okp, "the name is recorded in `dependencies` before the recursive visit, so a cyclic type terminates at the contains_key test: %s" % okp, (V, sb))
    tails = [bb for bb, t in V.live_calls(r"^schemars::visit::visit_schema_object$") if len(t["args"]) >= 2 and 1 in V.slice(t["args"][0]).params() and V.slice(t["args"][1]).params() == [2]]
    ctx.check(R, "own-children-visited", bool(tails) and V.must_pass(tails), "the object's own sub-schemas are visited on every path: %s" % (bool(tails) and V.must_pass(tails)), V)
    keys = [set(l for l in V.slice(t["args"][1]).locals() if V.local_name(l)) for bb, t in [tests[0], gets[0]]]
    for bb, t in V.live_calls(r"indexmap::IndexMap::<K, V, S>::insert$"):
        if bb in real:
            keys.append(set(l for l in V.slice(t["args"][1]).locals() if V.local_name(l)))
    common = set.intersection(*keys) if keys else set()
    ctx.check(R, "one-name-for-test-lookup-store", bool(common - {1, 2}), "the membership test, the lookup and the store use the same `name`: shared locals %s" % sorted(V.local_name(l) for l in common), V)
    # who builds ApiSchemaGenerator::Static
    n = 0
    for f in ds.F.values():
        lv = None
        for bb, i, st in f.aggregates("^" + re.escape(ASG) + "$", "Static"):
            if lv is None:
                lv = f.reachable(0)
            if bb not in lv:
                continue
            n += 1
            names = st["rv"].get("fields") or []
            if "schema" not in names or "dependencies" not in names:
                ctx.check(R, "static-built-in:%s" % f.id, False, "unexpected shape of ApiSchemaGenerator::Static", (f, bb))
                continue
            sop, dop = st["rv"]["ops"][names.index("schema")], st["rv"]["ops"][names.index("dependencies")]
            dsl, ssl = f.slice(dop), f.slice(sop)
            deps_calls = dsl.calls(r"schema_util::ReferenceVisitor::<'a>::dependencies$")
            if deps_calls:
                c, dbb, dt = deps_calls[0]
                vis_local = set(f.slice(dt["args"][0]).locals())
                ok, detail = False, "no schemars::visit::visit_schema(&mut visitor, &mut schema) before the Static is built"
                for vbb, vt in f.live_calls(r"^schemars::visit::(visit_schema|Visitor::visit_schema|visit_root_schema)$"):
                    if len(vt["args"]) < 2:
                        continue
                    v0 = set(l for l in f.slice(vt["args"][0]).locals() if f.local_name(l))
                    s1 = set(l for l in f.slice(vt["args"][1], stop_at_calls=r".").locals() if f.local_name(l))
                    same_visitor = bool(v0 & set(l for l in vis_local if f.local_name(l)))
                    same_schema = bool(s1 & set(l for l in ssl.locals() if f.local_name(l)))
                    if same_visitor and same_schema and f.dominates(vbb, bb):
                        ok, detail = True, "dependencies = visitor.dependencies() after visit_schema(&mut visitor, &mut s) on the schema that is stored"
                    elif same_visitor and not same_schema:
                        detail = "the visitor visited a different schema than the one stored"
                ctx.check(R, "static-built-in:%s" % f.id, ok, "ApiSchemaGenerator::Static in %s: %s" % (f.id, detail), (f, bb))
            else:
                bad = callee_allow(ssl, PLUMBING + CONST_SCHEMA_OK)
                empty = bool(dsl.calls(r"indexmap::IndexMap::<K, V>::new$|default::Default::default$")) and not callee_allow(dsl, PLUMBING + [r"indexmap::IndexMap::<K, V>::new$", r"default::Default::default$"])
                refset = False
                for abb, ai, ast in f.aggregates(r"^schemars::schema::SchemaObject$"):
                    an = ast["rv"].get("fields") or []
                    if "reference" in an:
                        ro = f.slice(ast["rv"]["ops"][an.index("reference")])
                        if any(a[0] == "agg" and a[1] == "std::option::Option" and a[2] == "Some" for a in ro.atoms):
                            refset = True
                ok = not bad and empty and not refset and not ssl.params()
                ctx.check(R, "static-built-in:%s" % f.id, ok,
                          "ApiSchemaGenerator::Static in %s is a constant schema (callees %s, sets `reference`: %s) with empty dependencies (%s)" % (f.id, [c for c, b in bad], refset, empty), (f, bb))
    ctx.check(R, "static-construction-sites", n >= 5, "construction sites of ApiSchemaGenerator::Static: %d" % n, V, nontrivial=False)


# --------------------------------------------------------------------------- R5
def r5_determinism(ctx):
    R = ctx.rule("C06.R5", "hash-ordered iteration under gen_openapi flows only into openapi.tags, which is sorted by a total key on every path before return; "
                 "no clock / random / environment callee is reachable", floor=6)
    m = _model(ctx, R)
    ds, g = m.ds, m.gen
    if m.doc is None:
        ctx.lost(R, "the returned OpenAPI local")
        return
    reg = sorted(ds.region([g.id]))
    H = []
    for fid in reg:
        f = ds.F[fid]
        for bb, t in f.live_calls():
            c = t.get("callee") or ""
            r = t.get("resolved") or ""
            own = (re.search(HASHY, c) and re.search(HASH_ITER, c)) or (re.search(HASHY, r) and re.search(HASH_ITER, "::" + r.split("::")[-1]))
            hidden = False
            if not own and re.search(r"(Extend::extend|FromIterator::from_iter|Iterator::(chain|zip|eq|cmp)|IntoIterator::into_iter)$", c):
                for a in t["args"]:
                    l = operand_local(a)
                    if l is not None and re.search(r"collections::(HashMap|HashSet)<", re.sub(r"^&('\S+ )?(mut )?", "", f.local_ty(l))[:60]):
                        hidden = True
            if own or hidden:
                H.append((f, bb, t))
    # the tags store and its sort
    tag_stores = [(bb, ops) for adt, var, field, kind, bb, ops in field_writes(g, m.tw, lambda a: a == "openapiv3::OpenAPI") if field == "tags" and kind in ("assign", "agg")]
    sorts = []
    for bb, t in g.live_calls(r"slice::<impl \[T\]>::sort(_by|_unstable|_unstable_by|_by_key|_unstable_by_key|_by_cached_key)?$"):
        o = m.flow.origins(g, t["args"][0])
        if ("openapiv3::OpenAPI", "tags") in o.fields and (g.id, m.doc) in o.locals:
            sorts.append((bb, t))
    chain = set()
    for bb, ops in tag_stores:
        for op in ops:
            chain |= set(b for c, b, t in g.slice(op).callees)
    for sb, st in sorts:        # the sort's own receiver plumbing (`&mut openapi.tags` -> deref_mut -> sort_by)
        chain |= set(b for c, b, t in g.slice(st["args"][0]).callees)
    for f, bb, t in H:
        what = (t.get("resolved") or t.get("callee") or "?")
        if f.id != g.id:
            ctx.check(R, "hash-iteration:%s:%s" % (_sfx(f) if "gen_openapi" in f.id else f.id, what.split("::")[-1]), False,
                      "hash-ordered iteration %s inside %s (a helper / closure of gen_openapi): its order can reach the document unsorted" % (what, f.id), (f, bb))
            continue
        # every call that consumes a value derived from this iteration is on the tags chain; no other store of the document has it on its slice
        leaks = []
        for cb, ct in g.live_calls():
            if cb == bb:
                continue
            for a in ct["args"]:
                if any(b == bb for c, b, tt in g.slice(a).callees) and cb not in chain and not any(cb == sb for sb, st in sorts):
                    leaks.append((ct.get("callee"), cb))
        for adt, var, field, kind, wbb, ops in field_writes(g, m.tw, lambda a: a == "openapiv3::OpenAPI"):
            if field == "tags":
                continue
            for op in ops:
                if any(b == bb for c, b, tt in g.slice(op).callees):
                    leaks.append(("store OpenAPI.%s" % field, wbb))
        on_chain = bb in chain
        sorted_after = bool(sorts) and all(g.must_pass([sb for sb, st in sorts], start=wbb) for wbb, ops in tag_stores) and bool(tag_stores)
        kind = "HashSet" if "HashSet" in what or "hash_set" in what else "HashMap"
        ctx.check(R, "hash-iteration:gen_openapi:%s::%s" % (kind, what.split("::")[-1]), on_chain and not leaks and sorted_after,
                  "hash-ordered iteration %s: feeds openapi.tags=%s, other consumers=%s, tags sorted on every path afterwards=%s" % (what, on_chain, leaks, sorted_after), (g, bb))
    ctx.check(R, "hash-iteration-sites", len(H) >= 2, "hash-ordered iteration sites under gen_openapi: %d" % len(H), g, nontrivial=False)
    # the sort key is total on the elements: compares Tag.name of both sides; the two chained sources are disjoint by name
    for sb, st in sorts:
        okc = False
        bykey = re.search(r"_key$", st.get("callee") or "") is not None
        for c, node in closure_args_of_call(g, st):
            if bykey:
                ko = m.flow.origins(c, {"l": 0, "p": []})
                okc = ("openapiv3::Tag", "name") in ko.fields and not callee_allow(c.slice({"l": 0, "p": []}), PLUMBING)
                continue
            cmpc = c.live_calls(r"cmp::Ord::cmp$")
            if len(cmpc) == 1:
                s0, s1 = c.slice(cmpc[0][1]["args"][0]), c.slice(cmpc[0][1]["args"][1])
                a0 = m.flow.origins(c, cmpc[0][1]["args"][0])
                a1 = m.flow.origins(c, cmpc[0][1]["args"][1])
                okc = ("openapiv3::Tag", "name") in a0.fields and ("openapiv3::Tag", "name") in a1.fields and \
                    sorted(s0.params() + s1.params()) == [2, 3] and c.slice({"l": 0, "p": []}).has_call(r"cmp::Ord::cmp$") and \
                    not callee_allow(c.slice({"l": 0, "p": []}), PLUMBING + [r"cmp::Ord::cmp$", r"cmp::Ordering::reverse$"])
        ctx.check(R, "tags-sorted-by-name", okc, "openapi.tags.sort_by compares the two elements' `name` with Ord::cmp: %s" % okc, (g, sb))
    ctx.check(R, "tags-sort-present", len(sorts) >= 1, "sorts of openapi.tags: %d" % len(sorts), g, nontrivial=False)
    # ad hoc tags are disjoint from the configured ones: an endpoint tag is kept only when tag_config.tags.contains_key(tag) is FALSE —
    # as the predicate of a `.filter(..)` (the closure returns the negated test) or as a guard around the insertion in a loop
    found, good = 0, 0
    ret = {"k": "copy", "pl": {"l": 0, "p": []}}
    fl = Flow(ds, entries=[g.raw["id"]])
    for f in m.region:
        for bb, t in f.live_calls(r"HashMap::<K, V, S, A>::contains_key$"):
            if len(t["args"]) < 2 or ("api_description::TagConfig", "tags") not in fl.origins(f, t["args"][0]).fields:
                continue
            found += 1
            dest = t["dest"]["l"]
            is_test = lambda fn, op, dest=dest: not op["pl"]["p"] and op["pl"]["l"] == dest
            ok = False
            if f.raw["kind"] == "Closure" and _polarity(f, ret, leaf=is_test) is False:
                recv = [ct for p_, pbb, pst in fl.closure_sites(f) for cbb, ct, k in fl.closure_receivers(p_, pst)]
                ok = bool(recv) and all(re.search(r"iter::Iterator::filter$", ct.get("callee") or "") for ct in recv)
            if not ok:
                key_src = set(b for c, b, tt in f.slice(t["args"][1]).calls(r"iter::Iterator::next$"))
                absent = []
                for sb, st in f.switches():
                    pol = _polarity(f, st["discr"], leaf=is_test)
                    if pol is not None:
                        tb, fb = _bool_targets(f, sb)
                        absent.append((sb, fb if pol else tb))
                ins = [mbb for mbb, kind, node, tgt, vals in mutators(f) if kind == "call" and key_src and
                       any(set(b for c, b, tt in f.slice(v).calls(r"iter::Iterator::next$")) & key_src for v in vals)]
                ok = bool(ins) and bool(absent) and all(any(f.edge_dominates(sb, ab, mbb) for sb, ab in absent) for mbb in ins)
            good += 1 if ok else 0
    disj = found >= 1 and good == found
    ctx.check(R, "tag-sources-disjoint", disj, "ad-hoc endpoint tags are kept only if tag_config.tags.contains_key(tag) is false (filter predicate or guard around the insertion; %d of %d "
              "membership tests): names in openapi.tags are unique, so the sort fixes the order: %s" % (good, found, disj), g)
    bad = []
    for fid in reg:
        for bb, t in ds.F[fid].live_calls():
            c = (t.get("callee") or "") + " " + (t.get("resolved") or "")
            if re.search(NONDET, c):
                bad.append((fid, t.get("callee")))
    ctx.check(R, "no-nondeterministic-callee", not bad, "clock / random / environment callees in the %d functions reachable from gen_openapi: %s" % (len(reg), bad), g)


# --------------------------------------------------------------------------- R6
def r6_idempotent(ctx):
    R = ctx.rule("C06.R6", "gen_openapi takes &self, stores nothing through it, captures it only by shared reference, and reaches no interior-mutable state", floor=5)
    m = _model(ctx, R)
    ds, g = m.ds, m.gen
    ty = g.local_ty(1)
    ctx.check(R, "self-is-shared-ref", ty.startswith("&") and not re.match(r"^&('\S+ )?mut ", ty) and "ApiDescription" in ty, "gen_openapi's receiver type is %s" % ty, g)
    bad = []
    for bb, i, st in g.stmts():
        if st["pl"]["l"] == 1:
            bad.append(("store", bb))
        rv = st["rv"]
        if rv["rv"] == "ref" and rv.get("mut") and rv["pl"]["l"] == 1:
            bad.append(("&mut", bb))
    ctx.check(R, "no-store-through-self", not bad, "stores / mutable borrows through self in gen_openapi: %s" % bad, g)
    # types reachable from self hold no interior mutability
    seen, work, found = set(), ["api_description::ApiDescription"], []
    while work:
        a = work.pop()
        if a in seen or a not in ds.adts or not ds.adts[a].get("local"):
            continue
        seen.add(a)
        for v in ds.adts[a]["variants"]:
            for fld in v["fields"]:
                if re.search(INTERIOR, fld["ty"]):
                    found.append("%s.%s: %s" % (a, fld["name"], fld["ty"]))
                for mm in re.finditer(r"([a-z_][A-Za-z0-9_]*(?:::[A-Za-z_][A-Za-z0-9_]*)+)", fld["ty"]):
                    work.append(mm.group(1))
    ctx.check(R, "self-has-no-interior-mutability", not found and len(seen) >= 4, "crate-local types reachable from ApiDescription (%d) with Cell/Mutex/Atomic fields: %s" % (len(seen), found), g)
    reg = sorted(ds.region([g.id]))
    refs = []

    def walk(o, fid):
        if isinstance(o, dict):
            if o.get("k") == "const" and not o.get("fn") and not o.get("path") and o.get("val") is None and re.search(INTERIOR, o.get("ty") or ""):
                refs.append((fid, o.get("ty")))
            for v in o.values():
                walk(v, fid)
        elif isinstance(o, list):
            for v in o:
                walk(v, fid)
    for fid in reg:
        walk(ds.F[fid].blocks, fid)
    ctx.check(R, "no-interior-mutable-static-referenced", not refs, "references to interior-mutable statics in the %d functions reachable from gen_openapi: %s" % (len(reg), refs), g)
    st_bad = [s["id"] for s in ds.statics if (s["mut"] or not s["freeze"]) and s["id"] not in STATICS_ALLOWED]
    in_reg = [fid for fid in reg if any(fid.startswith(s.rsplit("::", 1)[0] + "::") for s in STATICS_ALLOWED)]
    ctx.check(R, "mutable-statics-census", not st_bad and not in_reg, "mutable / non-Freeze statics outside the reviewed list: %s; functions of their modules reachable from gen_openapi: %s" % (st_bad, in_reg), g)


# --------------------------------------------------------------------------- R7
def r7_order_independent(ctx):
    R = ctx.rule("C06.R7", "registration order cannot show in the document: the router's children and methods are BTreeMaps, the document's maps are filled in iterator order", floor=4)
    ds = ctx.ds
    node = ds.adts.get("router::HttpRouterNode")
    edges = ds.adts.get("router::HttpRouterEdges")
    if not node or not edges:
        ctx.lost(R, "ADT table entries of router::HttpRouterNode / HttpRouterEdges")
        return
    fm = {f["name"]: f["ty"] for f in node["variants"][0]["fields"]}
    ctx.check(R, "methods-ordered", fm.get("methods", "").startswith("std::collections::BTreeMap<std::string::String"), "HttpRouterNode.methods: %s" % fm.get("methods"), None)
    lit = [v for v in edges["variants"] if v["name"] == "Literals"]
    ctx.check(R, "literal-edges-ordered", bool(lit) and lit[0]["fields"][0]["ty"].startswith("std::collections::BTreeMap<std::string::String"),
              "HttpRouterEdges::Literals: %s" % (lit[0]["fields"][0]["ty"] if lit else None), None)
    hashy = [(a["id"], f["name"]) for a in (node, edges) for v in a["variants"] for f in v["fields"] if re.search(r"Hash(Map|Set)", f["ty"])]
    ctx.check(R, "router-has-no-hash-container", not hashy, "hash containers in the router trie: %s" % hashy, None)
    doc = {}
    for a, fld in (("openapiv3::Paths", "paths"), ("openapiv3::Components", "schemas"), ("openapiv3::Components", "responses"), ("openapiv3::Responses", "responses")):
        ad = ds.adts.get(a)
        ty = next((f["ty"] for f in ad["variants"][0]["fields"] if f["name"] == fld), "") if ad else ""
        doc[a + "." + fld] = ty
    ctx.check(R, "document-maps-insertion-ordered", all(t.startswith("indexmap::IndexMap<") for t in doc.values()), "document maps: %s" % {k: v.split("<")[0] for k, v in doc.items()}, None)


def r8_path_templates_are_openapi_templates(ctx):
    """Added after adversary change C06-G: the endpoint iterator yielded PathSegment::VarnameWildcard for wildcard edges, so a published
    `/docs/{sections:.*}` was documented under `/docs/{sections:.*}` - not an OpenAPI path template, and no longer the name of its
    declared path parameter."""
    from .lib import lit_strs
    R = ctx.rule("C06.R8", "every operation is documented under an OpenAPI path template: the endpoint iterator renders a variable segment as `{name}` - it yields no "
                 "VarnameWildcard segment, or renders that kind without the `:.*` pattern", floor=2)
    ds = ctx.ds
    its = [f for f in ds.F.values() if re.search(r"^<*router::HttpRouterIter", f.id)]
    ctx.check(R, "iterator-functions", len(its) >= 3, "functions of HttpRouterIter examined: %d" % len(its), None, nontrivial=False)
    wild = []
    kinds = set()
    for f in its:
        for g in [f] + ds.descendants(f):
            for bb, i, st in g.aggregates(r"^router::PathSegment$"):
                if bb in g.reachable(0):
                    kinds.add(st["rv"].get("variant"))
                    if st["rv"].get("variant") == "VarnameWildcard":
                        wild.append((g, bb))
    pf = ds.one(r"^router::HttpRouterIter::<'a, Context>::path$")
    renders_pattern = False
    if pf is not None:
        for g in [pf] + ds.descendants(pf):
            for b in g.blocks:
                for st in b["st"]:
                    if st["s"] == "assign":
                        txt = json.dumps(st["rv"])
                        if ":.*" in txt or "58, 46, 42" in txt:
                            renders_pattern = True
    ctx.check(R, "segments-yielded", bool(kinds) and "VarnameSegment" in kinds, "segment kinds the iterator builds: %s" % sorted(k for k in kinds if k), its[0] if its else None, nontrivial=False)
    ok = not wild or not renders_pattern
    ctx.check(R, "no-regex-in-documented-template", ok,
              "the iterator builds VarnameWildcard segments at %d site(s) and path() renders that kind with `:.*`: %s - a wildcard route would be documented under a template that is not OpenAPI's `{name}`" % (len(wild), renders_pattern),
              wild[0] if wild else pf)


def r9_error_reference_resolves_to_its_own_response(ctx):
    """`every schema or response reference in the document resolves inside the document` -- to the entry meant: an operation's 4XX/5XX
    reference names the components.responses entry stored for that endpoint's error type.  This is C07.R9, re-evaluated here (adversary
    change C06-K: after a rename the reference was formatted from the un-disambiguated name, so `Error2` was stored and never referred to)."""
    from . import c07
    from .lib_c01 import Renamed
    c07.r9_error_reference_names_the_stored_response(Renamed(ctx, "C06.R9", "the error-response reference of an operation is formatted from the very name its response is stored under"))


def r10_unpublished_flag_reaches_registration(ctx):
    """`unpublished endpoints are omitted yet still served`, `one operation for each published endpoint`: the `unpublished` argument of a
    declaration is the flag the endpoint is registered with -- every attribute argument reaches the same-named field of the validated
    metadata.  This is C19.R2a, re-evaluated here (adversary change C06-N: ChannelMetadata::validate built its result with `unpublished:
    deprecated, deprecated: unpublished`, so an unpublished channel was listed and a deprecated one vanished from the document)."""
    from . import c19
    from .lib_c01 import Renamed
    c19.r2a_validate(Renamed(ctx, "C06.R10", "the `unpublished` (and every other) argument of an endpoint or channel declaration reaches the same-named field of the metadata the endpoint is registered with"))


RULES = [("C06.R10", r10_unpublished_flag_reaches_registration), ("C06.R9", r9_error_reference_resolves_to_its_own_response), ("C06.R8", r8_path_templates_are_openapi_templates), ("C06.R1", r1_same_filter), ("C06.R2", r2_unpublished), ("C06.R3", r3_placement), ("C06.R4", r4_refs_resolve), ("C06.R4b", r4b_dependencies_transitive),
         ("C06.R5", r5_determinism), ("C06.R6", r6_idempotent), ("C06.R7", r7_order_independent)]

AD = "dropshot/src/api_description.rs"
RT = "dropshot/src/router.rs"
_VIS = "            if !endpoint.visible {\n                continue;\n            }\n"
_ER_ENTRY = ("                    let ErrorResponse { reference, .. } =\n                    // If a response object for this error type has already been\n"
             "                    // generated, use that; otherwise, we'll generate it now.\n                    error_responses.entry(type_name).or_insert_with(|| {\n")
_ER_ENTRY_IF_ABSENT = "                    if !error_responses.contains_key(type_name) {\n                        let built = (|| {\n"
_ER_ENTRY_END = "                        ErrorResponse { name, reference, response }\n                    });\n"
_ER_ENTRY_END_IF_ABSENT = ("                        ErrorResponse { name, reference, response }\n                        })();\n                        error_responses.insert(type_name, built);\n"
                           "                    }\n                    let reference = &error_responses[type_name].reference;\n")
SELFTEST = [
    {"name": "prefix-f6-tags", "kind": "mutant", "revert": "a6255b8", "expect": ["C06.R2"],
     "why": "pre-fix F6: the tag scan lists ad-hoc tags of unpublished endpoints in the document's top-level `tags`"},
    {"name": "endpoints-none-in-loop", "kind": "mutant", "edits": [(AD, "for (path, method, endpoint) in self.router.endpoints(Some(version)) {", "for (path, method, endpoint) in self.router.endpoints(None) {")],
     "expect": ["C06.R1"], "why": "the document lists endpoints of every version, not those served at v"},
    {"name": "visible-check-removed", "kind": "mutant", "edits": [(AD, _VIS, "")], "expect": ["C06.R2"], "why": "unpublished endpoints are documented"},
    {"name": "visible-check-after-insert", "kind": "mutant",
     "edits": [(AD, _VIS + "            let path = openapi", "            let path = openapi"), (AD, "            let pathitem = match path {", _VIS + "            let pathitem = match path {")],
     "expect": ["C06.R2"], "why": "an unpublished endpoint leaves an (empty) path item in the document"},
    {"name": "body-extend-removed", "kind": "mutant",
     "edits": [(AD, "                            definitions.extend(dependencies.clone());\n                            (None, schema.as_ref().clone())\n                        }\n                    };\n                    let schema = j2oas_schema(name.as_ref(), &js);",
                "                            let _ = dependencies;\n                            (None, schema.as_ref().clone())\n                        }\n                    };\n                    let schema = j2oas_schema(name.as_ref(), &js);")],
     "expect": ["C06.R4"], "why": "a request body's static schema may $ref a definition that is never emitted"},
    {"name": "tags-sort-removed", "kind": "mutant", "edits": [(AD, "openapi.tags.sort_by(|a, b| a.name.cmp(&b.name));", "")], "expect": ["C06.R5"], "why": "tag order follows HashMap/HashSet iteration order: bytes differ between runs"},
    {"name": "put-stored-as-post", "kind": "mutant", "edits": [(AD, "\"PUT\" => &mut pathitem.put,", "\"PUT\" => &mut pathitem.post,")], "expect": ["C06.R3"], "why": "PUT operations are listed under post"},
    {"name": "json-ignores-version", "kind": "mutant", "edits": [(AD, "serde_json::to_value(\n            &self.api.gen_openapi(self.info.clone(), &self.version),", "serde_json::to_value(\n            &self.api.gen_openapi(self.info.clone(), &semver::Version::new(0, 0, 0)),")],
     "expect": ["C06.R1"], "why": "json() describes version 0.0.0 whatever version was asked for"},
    {"name": "operation-id-from-path", "kind": "mutant", "edits": [(AD, "operation.operation_id = Some(endpoint.operation_id.clone());", "operation.operation_id = Some(endpoint.path.clone());")],
     "expect": ["C06.R3"], "why": "operations carry the wrong operation id"},
    {"name": "generator-definitions-not-flushed", "kind": "mutant",
     "edits": [(AD, "        root_schema.definitions.iter().for_each(|(key, schema)| {\n            schemas.insert(key.clone(), j2oas_schema(None, schema));\n        });\n", "        let _ = &root_schema;\n")],
     "expect": ["C06.R4"], "why": "every $ref to a generated type dangles"},
    {"name": "second-generator-for-errors", "kind": "mutant",
     "edits": [(AD, "                                &schema(&mut generator),\n                            );", "                                &schema(&mut schemars::gen::SchemaGenerator::new(schemars::gen::SchemaSettings::openapi3())),\n                            );")],
     "expect": ["C06.R4"], "why": "error schemas' definitions go to a throw-away generator: their $refs dangle"},
    {"name": "iterator-filter-inverted", "kind": "mutant",
     "edits": [(RT, "            if h.versions.matches(version) {\n                Some((m, h))\n            } else {\n                None\n            }", "            if h.versions.matches(version) {\n                None\n            } else {\n                Some((m, h))\n            }")],
     "expect": ["C06.R1"], "why": "the document lists exactly the endpoints NOT served at v"},
    {"name": "error-response-stored-under-type-name", "kind": "mutant", "edits": [(AD, "ErrorResponse { name, reference, response }", "ErrorResponse { name: type_name.to_string(), reference, response }")],
     "expect": ["C06.R4"], "why": "the error response is stored under a different key than its reference names"},
    {"name": "error-responses-in-hashmap", "kind": "mutant", "edits": [(AD, "indexmap::IndexMap::<&str, ErrorResponse>::new();", "HashMap::<&str, ErrorResponse>::new();")],
     "expect": ["C06.R5"], "why": "components.responses is emitted in hash order"},
    {"name": "iterator-drops-version", "kind": "mutant", "edits": [(RT, "                                self.method = iter_handlers_from_node(\n                                    &node,\n                                    self.version,\n                                );", "                                self.method = iter_handlers_from_node(\n                                    &node,\n                                    None,\n                                );")],
     "expect": ["C06.R1"], "why": "below the root node the iterator yields handlers of every version"},
    {"name": "adv-visitor-not-transitive", "kind": "mutant",
     "edits": [("dropshot/src/schema_util.rs", "                let mut refschema = self\n                    .generator\n                    .definitions()\n                    .get(name)\n                    .expect(\"invalid reference\")\n                    .clone();\n                self.dependencies.insert(\n                    name.to_string(),\n                    schemars::schema::Schema::Bool(false),\n                );\n                schemars::visit::visit_schema(self, &mut refschema);\n                self.dependencies.insert(name.to_string(), refschema);",
                "                let refschema = self\n                    .generator\n                    .definitions()\n                    .get(name)\n                    .expect(\"invalid reference\")\n                    .clone();\n                self.dependencies.insert(name.to_string(), refschema);")],
     "expect": ["C06.R4b"], "why": "adversary B: references inside a referenced definition are never collected -> a header/parameter type that refers to a second named type leaves a dangling $ref"},
    {"name": "adv-iterator-builder-root-unfiltered", "kind": "mutant",
     "edits": [(RT, "HttpRouterIter::new(self, version)", "HttpRouterIter::new(self).with_version(version)"),
               (RT, "    fn new(\n        router: &'a HttpRouter<Context>,\n        version: Option<&'a Version>,\n    ) -> Self {\n        HttpRouterIter {\n            method: iter_handlers_from_node(&router.root, version),",
                "    fn with_version(mut self, version: Option<&'a Version>) -> Self {\n        self.version = version;\n        self\n    }\n\n    fn new(router: &'a HttpRouter<Context>) -> Self {\n        HttpRouterIter {\n            method: iter_handlers_from_node(&router.root, None),"),
               (RT, "            version,\n        }\n    }\n\n    /// Produce an iterator over `node`'s children.", "            version: None,\n        }\n    }\n\n    /// Produce an iterator over `node`'s children.")],
     "expect": ["C06.R1"], "why": "adversary A: builder-style iterator; the root node's handlers are enumerated with version None, so `/`-level endpoints of every version are documented"},
    {"name": "visitor-visits-other-schema", "kind": "mutant",
     "edits": [("dropshot/src/extractor/metadata.rs", "        schemars::visit::visit_schema(&mut visitor, &mut s);\n", "        schemars::visit::visit_schema(&mut visitor, &mut schema.clone());\n")],
     "expect": ["C06.R4b"], "why": "dependencies are collected from a different schema than the one stored"},
    {"name": "visible-eq-false", "kind": "benign", "edits": [(AD, "if !endpoint.visible {", "if endpoint.visible == false {")], "why": "behaviour-preserving: same predicate spelled differently"},
    {"name": "visible-match", "kind": "benign", "edits": [(AD, _VIS, "            match endpoint.visible {\n                false => continue,\n                true => {}\n            }\n")], "why": "behaviour-preserving: if -> match"},
    {"name": "visible-skip-with-extra-read", "kind": "benign", "edits": [(AD, _VIS, "            if !endpoint.visible {\n                let _skipped = endpoint.operation_id.len();\n                continue;\n            }\n")],
     "why": "behaviour-preserving: a harmless call on the skip path"},
    {"name": "version-hoisted", "kind": "benign", "edits": [(AD, "        for (path, method, endpoint) in self.router.endpoints(Some(version)) {", "        let wanted = Some(version);\n        for (path, method, endpoint) in self.router.endpoints(wanted) {")],
     "why": "behaviour-preserving: the argument goes through a local"},
    {"name": "sort-by-key", "kind": "benign", "edits": [(AD, "openapi.tags.sort_by(|a, b| a.name.cmp(&b.name));", "openapi.tags.sort_by_key(|t| t.name.clone());")], "why": "behaviour-preserving: same stable sort by name"},
    {"name": "sort-renamed-commuted", "kind": "benign", "edits": [(AD, "openapi.tags.sort_by(|a, b| a.name.cmp(&b.name));", "openapi.tags.sort_by(|left, right| right.name.cmp(&left.name).reverse());")],
     "why": "behaviour-preserving: commuted comparison with reverse()"},
    {"name": "method-arms-reordered", "kind": "benign", "edits": [(AD, "                \"GET\" => &mut pathitem.get,\n                \"PUT\" => &mut pathitem.put,\n", "                \"PUT\" => &mut pathitem.put,\n                \"GET\" => &mut pathitem.get,\n")],
     "why": "behaviour-preserving: match arms reordered"},
    {"name": "operation-id-via-local", "kind": "benign", "edits": [(AD, "operation.operation_id = Some(endpoint.operation_id.clone());", "let opid = endpoint.operation_id.clone();\n            operation.operation_id = Some(opid);")],
     "why": "behaviour-preserving: value goes through a local"},
    {"name": "visitor-else-branch", "kind": "benign",
     "edits": [("dropshot/src/schema_util.rs", "            if !self.dependencies.contains_key(name) {", "            let already = self.dependencies.contains_key(name);\n            if already == false {")],
     "why": "behaviour-preserving: the membership test goes through a local and `== false`"},
    {"name": "filter-if-to-then", "kind": "benign",
     "edits": [(RT, "            if h.versions.matches(version) {\n                Some((m, h))\n            } else {\n                None\n            }", "            h.versions.matches(version).then(|| (m, h))")],
     "why": "behaviour-preserving: bool::then instead of if/else"},
    # --- idioms the rules accept since the hardening round (each shape has a breaking twin below)
    {"name": "visible-filter-on-iterator", "kind": "benign",
     "edits": [(AD, "        for (path, method, endpoint) in self.router.endpoints(Some(version)) {\n" + _VIS, "        for (path, method, endpoint) in self.router.endpoints(Some(version)).filter(|(_, _, e)| e.visible) {\n")],
     "why": "behaviour-preserving: `if !visible { continue }` at the top of the loop body == `.filter(|e| e.visible)` on the iterator"},
    {"name": "visible-filter-negated", "kind": "mutant",
     "edits": [(AD, "        for (path, method, endpoint) in self.router.endpoints(Some(version)) {\n" + _VIS, "        for (path, method, endpoint) in self.router.endpoints(Some(version)).filter(|(_, _, e)| !e.visible) {\n")],
     "expect": ["C06.R2"], "why": "the iterator keeps exactly the unpublished endpoints"},
    {"name": "tags-filter-negated", "kind": "mutant", "edits": [(AD, "            .filter(|(_, _, endpoint)| endpoint.visible)\n            .flat_map(", "            .filter(|(_, _, endpoint)| !endpoint.visible)\n            .flat_map(")],
     "expect": ["C06.R2"], "why": "the tag scan lists the tags of unpublished endpoints only"},
    {"name": "tags-keep-configured", "kind": "mutant", "edits": [(AD, ".filter(|tag| !self.tag_config.tags.contains_key(*tag))", ".filter(|tag| self.tag_config.tags.contains_key(*tag))")],
     "expect": ["C06.R5"], "why": "configured tags appear twice in openapi.tags: equal sort keys, order of the duplicates follows hash order"},
    {"name": "matches-filter-then-map", "kind": "benign",
     "edits": [(RT, "        handlers.iter().filter_map(move |h| {\n            if h.versions.matches(version) {\n                Some((m, h))\n            } else {\n                None\n            }\n        })", "        handlers.iter().filter(move |h| h.versions.matches(version)).map(move |h| (m, h))")],
     "why": "behaviour-preserving: filter_map(if p {Some(x)} else {None}) == filter(p).map(..)"},
    {"name": "matches-filter-negated", "kind": "mutant",
     "edits": [(RT, "        handlers.iter().filter_map(move |h| {\n            if h.versions.matches(version) {\n                Some((m, h))\n            } else {\n                None\n            }\n        })", "        handlers.iter().filter(move |h| !h.versions.matches(version)).map(move |h| (m, h))")],
     "expect": ["C06.R1"], "why": "the iterator yields the handlers NOT served at v"},
    {"name": "matches-named-flag-early-return", "kind": "benign",
     "edits": [(RT, "            if h.versions.matches(version) {\n                Some((m, h))\n            } else {\n                None\n            }", "            let served = h.versions.matches(version);\n            if !served {\n                return None;\n            }\n            Some((m, h))")],
     "why": "behaviour-preserving: named flag + early return instead of if/else"},
    {"name": "operation-stored-by-assignment", "kind": "benign", "edits": [(AD, "method_ref.replace(operation);", "*method_ref = Some(operation);")],
     "why": "behaviour-preserving: store through the borrowed slot instead of Option::replace (the old value is unused)"},
    {"name": "flush-for-loop", "kind": "benign",
     "edits": [(AD, "        root_schema.definitions.iter().for_each(|(key, schema)| {\n            schemas.insert(key.clone(), j2oas_schema(None, schema));\n        });\n", "        for (key, schema) in root_schema.definitions.iter() {\n            schemas.insert(key.clone(), j2oas_schema(None, schema));\n        }\n")],
     "why": "behaviour-preserving: for_each -> for"},
    {"name": "flush-for-loop-conditional", "kind": "mutant",
     "edits": [(AD, "        root_schema.definitions.iter().for_each(|(key, schema)| {\n            schemas.insert(key.clone(), j2oas_schema(None, schema));\n        });\n", "        if self.tag_config.tags.is_empty() {\n            for (key, schema) in root_schema.definitions.iter() {\n                schemas.insert(key.clone(), j2oas_schema(None, schema));\n            }\n        }\n")],
     "expect": ["C06.R4"], "why": "generated definitions are emitted only when no tags are configured: dangling $refs otherwise"},
    {"name": "dependencies-recorded-in-loop", "kind": "benign",
     "edits": [(AD, "                            definitions.extend(dependencies.clone());\n                            (None, schema.as_ref().clone())", "                            for (dep_name, dep_schema) in dependencies.iter() {\n                                definitions.insert(dep_name.clone(), dep_schema.clone());\n                            }\n                            (None, schema.as_ref().clone())")],
     "why": "behaviour-preserving: extend(map.clone()) == inserting every (key, value) clone in order"},
    {"name": "dependencies-recorded-conditionally", "kind": "mutant",
     "edits": [(AD, "                            definitions.extend(dependencies.clone());\n                            (None, schema.as_ref().clone())", "                            for (dep_name, dep_schema) in dependencies.iter() {\n                                if dep_name.len() > 3 {\n                                    definitions.insert(dep_name.clone(), dep_schema.clone());\n                                }\n                            }\n                            (None, schema.as_ref().clone())")],
     "expect": ["C06.R4"], "why": "dependencies with short names are not emitted: dangling $ref"},
    {"name": "error-reference-only-4xx", "kind": "mutant",
     "edits": [(AD, "                    operation.responses.responses.insert(\n                        openapiv3::StatusCode::Range(5),\n                        reference.clone(),\n                    );\n", "")],
     "expect": ["C06.R4"], "why": "5xx responses are no longer documented"},
    # --- third hardening round: the error-response carrier is found by role (the crate's struct holding a Response and the reference to it),
    #     "the reference of the entry" is any lookup in the table that is flushed to components.responses
    {"name": "error-entry-insert-if-absent-then-index", "kind": "benign",
     "edits": [(AD, _ER_ENTRY, _ER_ENTRY_IF_ABSENT), (AD, _ER_ENTRY_END, _ER_ENTRY_END_IF_ABSENT)],
     "why": "behaviour-preserving: entry().or_insert_with(f) == `if !contains_key(k) { insert(k, f()) }` followed by `&table[k].reference`"},
    {"name": "error-entry-reference-fabricated", "kind": "mutant",
     "edits": [(AD, _ER_ENTRY, _ER_ENTRY_IF_ABSENT), (AD, _ER_ENTRY_END, _ER_ENTRY_END_IF_ABSENT.replace(
         "let reference = &error_responses[type_name].reference;",
         "let fabricated = openapiv3::ReferenceOr::<openapiv3::Response>::Reference { reference: format!(\"#/components/responses/{}\", type_name) };\n                    let reference = &fabricated;"))],
     "expect": ["C06.R4"], "why": "the 4xx/5xx $ref is formatted from the Rust type name instead of being the stored entry's reference: it can name a response that is not in components.responses"},
]
LEVEL_TEXT += " Also (R8): operations are documented under OpenAPI path templates: the endpoint iterator never renders a variable with its `:.*` pattern. Also (R9 = C07.R9): an operation's error-response reference is formatted from the very name its response is stored under. Also (R10 = C19.R2a): every argument of a declaration, `unpublished` included, reaches the same-named field of the metadata the endpoint is registered with."
